"""Reference transcription of discover_files on an explicit tree model, compared with the real code on real temp trees."""
import os, random, tempfile, shutil, fnmatch, logging, sys
logging.disable(logging.CRITICAL)
from bandit.core import config as b_config, manager as b_manager, constants

# tree model: dict path(rel to root, posix, no leading ./) -> 'd' | 'f'
def m_isdir(tree, cwd, p):
    q = os.path.normpath(os.path.join(cwd, p))
    return tree.get(q) == 'd' or q == '.'
def m_walk(tree, cwd, top):
    # yields file paths as os.walk+join would spell them, starting from 'top' spelled as given
    base = os.path.normpath(os.path.join(cwd, top))
    out = []
    def rec(dir_norm, dir_spelled):
        names = sorted(k for k in tree if os.path.dirname(k) == (dir_norm if dir_norm != '.' else ''))
        for k in names:
            if tree[k] == 'f': out.append(os.path.join(dir_spelled, os.path.basename(k)))
        for k in names:
            if tree[k] == 'd': rec(k, os.path.join(dir_spelled, os.path.basename(k)))
    rec(base, top)
    return out
def m_included(path, inc, exc, enforce=True):
    if any(fnmatch.fnmatch(path, g) for g in inc) or not enforce:
        if not any(fnmatch.fnmatch(path, g) for g in exc) and not any(x in path for x in exc):
            return True
    return False
def m_discover(tree, cwd, targets, recursive, excluded_paths, cfg_excl, cfg_incl):
    exc = list(cfg_excl); inc = cfg_incl or ["*.py"]
    if excluded_paths:
        for p in excluded_paths.split(","):
            if m_isdir(tree, cwd, p): p = os.path.join(p, "*")
            exc.append(p)
    files, excl = set(), set()
    for t in targets:
        if m_isdir(tree, cwd, t):
            if recursive:
                for p in m_walk(tree, cwd, t):
                    (files if m_included(p, inc, exc) else excl).add(p)
        else:
            if m_included(t, inc, exc, enforce=False):
                files.add(os.path.join(".", t) if t != "-" else t)
            else: excl.add(t)
    return sorted(files), sorted(excl)

def build(root, tree):
    for k, v in sorted(tree.items()):
        p = os.path.join(root, k)
        if v == 'd': os.makedirs(p, exist_ok=True)
        else:
            os.makedirs(os.path.dirname(p), exist_ok=True); open(p, "w").write("x=1\n")
random.seed(int(os.environ.get("VERIF_SEED", "1")))
DIRN = [".git", "pkg", "tests", "latest", "__pycache__", "a.egg", ".tox", "src", "test"]
FILN = ["a.py", "b.pyw", "c.txt", "test_x.py", "contest.py", "d.py", ".hidden.py", "setup.cfg"]
bad = 0; N = 400
for it in range(N):
    tree = {}
    dirs = ['']
    for _ in range(random.randint(1, 6)):
        parent = random.choice(dirs); name = random.choice(DIRN)
        k = os.path.join(parent, name) if parent else name
        if k not in tree: tree[k] = 'd'; dirs.append(k)
    for _ in range(random.randint(1, 8)):
        parent = random.choice(dirs); name = random.choice(FILN)
        k = os.path.join(parent, name) if parent else name
        if k not in tree: tree[k] = 'f'
    root = tempfile.mkdtemp(); build(root, tree)
    cwd_rel = '.'
    alld = [d for d in dirs if d]; allf = [k for k, v in tree.items() if v == 'f']
    def rel(p): return os.path.relpath(os.path.join(root, p), os.path.join(root, cwd_rel))
    cands = [rel(x) for x in (alld + allf)] + ['.', './'] + ['./' + rel(x) for x in alld[:2]] + [rel(x) + '/' for x in alld[:2]]
    targets = random.sample(cands, k=random.randint(1, 2))
    recursive = random.random() < .8
    x = random.choice([",".join(constants.EXCLUDE), "tests", "test", "*/tests/*", "pkg,latest", ".git", "./pkg", "", "*.pyw", "pkg/a.py"])
    cfg_excl = random.choice([[], ["tests"], ["*/latest/*"]])
    os.chdir(os.path.join(root, cwd_rel))
    conf = b_config.BanditConfig(); conf._config["exclude_dirs"] = list(cfg_excl)
    m = b_manager.BanditManager(conf, "file")
    m.discover_files(list(targets), recursive, x)
    # model: absolute targets -> treat by making tree relative to cwd via normpath
    def tnorm(t): return t
    tree_cwd = {}
    for k, v in tree.items(): tree_cwd[k] = v
    # also ancestors of cwd up to root appear as '..' paths
    if any(os.path.isabs(t) for t in targets):
        os.chdir("/"); shutil.rmtree(root); continue
    mf, me = m_discover(tree_cwd, '.', targets, recursive, x, cfg_excl, ["*.py", "*.pyw"])
    if (mf, me) != (m.files_list, m.excluded_files):
        bad += 1
        if bad <= 4: print("MISMATCH", targets, recursive, repr(x), cfg_excl, "cwd", cwd_rel, "\n real", m.files_list, m.excluded_files, "\n modl", mf, me)
    os.chdir("/"); shutil.rmtree(root)
print("cases", N, "mismatches", bad)
