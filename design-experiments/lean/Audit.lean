import Lean
import Exp.Regex
import Exp.Tree
open Lean Elab Command

def allowed : List Name := [``propext, ``Classical.choice, ``Quot.sound]

elab "#audit " ns:ident : command => do
  let env ← getEnv
  let nsName := ns.getId
  let mut out : Array String := #[]
  for (n, ci) in env.constants.toList do
    if nsName.isPrefixOf n && !n.isInternal then
      if let .thmInfo _ := ci then
        let axs ← liftCoreM (collectAxioms n)
        let bad := axs.filter (fun a => !allowed.contains a)
        out := out.push s!"\{\"thm\":\"{n}\",\"axioms\":{axs.toList.map toString},\"ok\":{bad.isEmpty}}"
  for l in out.qsort (· < ·) do logInfo l

#audit R
#audit M
