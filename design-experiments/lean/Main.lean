import Lean.Data.Json
import Exp.Tree
open Lean

partial def toNode (j : Json) : Except String M.Node := do
  let k ← j.getObjValAs? String "k"
  let l ← j.getObjValAs? Nat "l"
  let kidsJ ← j.getObjVal? "c"
  let arr ← kidsJ.getArr?
  let mut kids : List (M.Str × List M.Node) := []
  for slot in arr do
    let f ← slot.getObjValAs? String "f"
    let ns ← (← slot.getObjVal? "n").getArr?
    let ns' ← ns.toList.mapM toNode
    kids := kids ++ [(f.toList, ns')]
  return M.Node.mk k.toList l [] kids

partial def loop (h : IO.FS.Stream) (n : Nat) : IO Nat := do
  let line ← h.getLine
  if line.isEmpty then return n
  match Json.parse line >>= toNode with
  | .ok nd => IO.println s!"{(M.visitsBelow [] nd).length}"
  | .error e => IO.println s!"err {e}"
  loop h (n+1)

def main : IO Unit := do
  let n ← loop (← IO.getStdin) 0
  IO.eprintln s!"lines {n}"
