/-! Abstract per-file pipeline: fold over visits with a state updated by each visit and a list of tests. -/
namespace P

structure Finding where
  id : String
  line : Nat
deriving DecidableEq, Repr

structure Test (σ ν : Type) where
  id : String
  run : σ → ν → Option Finding

/-- every test emits findings carrying its own id -/
def OwnId {σ ν} (t : Test σ ν) : Prop := ∀ s v f, t.run s v = some f → f.id = t.id

variable {σ ν : Type} (upd : σ → ν → σ)

def stepOut (tests : List (Test σ ν)) (s : σ) (v : ν) : List Finding :=
  tests.filterMap (fun t => t.run s v)

/-- findings of a whole file: state threads through, outputs are concatenated -/
def scan (tests : List (Test σ ν)) : σ → List ν → List Finding
  | _, [] => []
  | s, v :: vs => let s' := upd s v; stepOut tests s' v ++ scan tests s' vs

def stateAfter : σ → List ν → σ
  | s, [] => s
  | s, v :: vs => stateAfter (upd s v) vs

theorem scan_append (tests : List (Test σ ν)) (s : σ) (pre post : List ν) :
    scan upd tests s (pre ++ post) = scan upd tests s pre ++ scan upd tests (stateAfter upd s pre) post := by
  induction pre generalizing s with
  | nil => simp [scan, stateAfter]
  | cons v vs ih => simp [scan, stateAfter, ih, List.append_assoc]

/-- C01-style: a visit anywhere in the traversal, whose test fires in the state reached by the prefix, is reported -/
theorem reported_at (tests : List (Test σ ν)) (s : σ) (pre post : List ν) (v : ν) (t : Test σ ν) (f : Finding)
    (ht : t ∈ tests) (hf : t.run (upd (stateAfter upd s pre) v) v = some f) :
    f ∈ scan upd tests s (pre ++ v :: post) := by
  rw [scan_append]
  apply List.mem_append_right
  simp only [scan]
  apply List.mem_append_left
  simp only [stepOut, List.mem_filterMap]
  exact ⟨t, ht, hf⟩

theorem stepOut_filter (tests : List (Test σ ν)) (S : String → Bool) (h : ∀ t ∈ tests, OwnId t) (s : σ) (v : ν) :
    stepOut (tests.filter (fun t => S t.id)) s v = (stepOut tests s v).filter (fun f => S f.id) := by
  induction tests with
  | nil => simp [stepOut]
  | cons t ts ih =>
    have hts : ∀ t ∈ ts, OwnId t := fun t ht => h t (List.mem_cons_of_mem _ ht)
    have ih' := ih hts
    simp only [stepOut] at ih' ⊢
    cases hr : t.run s v with
    | none =>
      by_cases hS : S t.id = true
      · simp [List.filter_cons, hS, List.filterMap_cons, hr, ih']
      · simp [List.filter_cons, hS, List.filterMap_cons, hr, ih']
    | some f =>
      have hid : f.id = t.id := h t (List.mem_cons_self) s v f hr
      by_cases hS : S t.id = true
      · simp [List.filter_cons, hS, List.filterMap_cons, hr, ih', hid]
      · simp [List.filter_cons, hS, List.filterMap_cons, hr, ih', hid]

/-- C05-style: running a restricted test set = filtering the findings of the full run -/
theorem restrict_is_filter (tests : List (Test σ ν)) (S : String → Bool) (h : ∀ t ∈ tests, OwnId t) (s : σ) (vs : List ν) :
    scan upd (tests.filter (fun t => S t.id)) s vs = (scan upd tests s vs).filter (fun f => S f.id) := by
  induction vs generalizing s with
  | nil => simp [scan]
  | cons v vs ih => simp [scan, List.filter_append, stepOut_filter tests S h, ih]

#print axioms restrict_is_filter
#print axioms reported_at
end P
