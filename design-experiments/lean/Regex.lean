namespace R
abbrev Str := List Char

inductive Regex where
  | empty                      -- matches nothing
  | eps                        -- matches ""
  | cls (p : Char → Bool)      -- one char satisfying p
  | cat (a b : Regex)
  | alt (a b : Regex)
  | star (a : Regex)

open Regex

inductive Matches : Regex → Str → Prop
  | eps : Matches eps []
  | cls {p c} : p c = true → Matches (cls p) [c]
  | cat {a b s t} : Matches a s → Matches b t → Matches (cat a b) (s ++ t)
  | altL {a b s} : Matches a s → Matches (alt a b) s
  | altR {a b s} : Matches b s → Matches (alt a b) s
  | starNil {a} : Matches (star a) []
  | starCons {a s t} : Matches a s → Matches (star a) t → Matches (star a) (s ++ t)

def nullable : Regex → Bool
  | empty => false
  | eps => true
  | cls _ => false
  | cat a b => nullable a && nullable b
  | alt a b => nullable a || nullable b
  | star _ => true

def der (c : Char) : Regex → Regex
  | empty => empty
  | eps => empty
  | cls p => if p c then eps else empty
  | cat a b => if nullable a then alt (cat (der c a) b) (der c b) else cat (der c a) b
  | alt a b => alt (der c a) (der c b)
  | star a => cat (der c a) (star a)

def matchB (r : Regex) : Str → Bool
  | [] => nullable r
  | c :: s => matchB (der c r) s

theorem nullable_iff (r : Regex) : nullable r = true ↔ Matches r [] := by
  induction r with
  | empty => simp [nullable]; intro h; cases h
  | eps => simp [nullable]; exact Matches.eps
  | cls p => simp [nullable]; intro h; cases h
  | cat a b iha ihb =>
    simp only [nullable, Bool.and_eq_true, iha, ihb]
    constructor
    · rintro ⟨h1, h2⟩; exact Matches.cat (s := []) (t := []) h1 h2
    · intro h
      generalize hs : ([] : Str) = u at h
      cases h with
      | cat h1 h2 =>
        rename_i s t
        have : s = [] ∧ t = [] := by simpa using hs.symm
        obtain ⟨rfl, rfl⟩ := this
        exact ⟨h1, h2⟩
  | alt a b iha ihb =>
    simp only [nullable, Bool.or_eq_true, iha, ihb]
    constructor
    · rintro (h | h); exact Matches.altL h; exact Matches.altR h
    · intro h; cases h with
      | altL h => exact Or.inl h
      | altR h => exact Or.inr h
  | star a _ => simp [nullable]; exact Matches.starNil

/-- star inversion: a non-empty match of `star a` starts with a non-empty match of `a` -/
theorem star_cons_inv {a : Regex} {c : Char} {s : Str} (h : Matches (star a) (c :: s)) :
    ∃ s1 s2, s = s1 ++ s2 ∧ Matches a (c :: s1) ∧ Matches (star a) s2 := by
  generalize hr : star a = r at h
  generalize hu : c :: s = u at h
  induction h with
  | eps => cases hr
  | cls _ => cases hr
  | cat _ _ => cases hr
  | altL _ => cases hr
  | altR _ => cases hr
  | starNil => cases hu
  | @starCons a' s' t' h1 h2 _ ih2 =>
    cases hr
    cases s' with
    | nil => simp at hu; exact ih2 rfl hu
    | cons c' s'' =>
      simp at hu
      obtain ⟨rfl, rfl⟩ := hu
      exact ⟨s'', t', rfl, h1, h2⟩

theorem der_iff (c : Char) (r : Regex) : ∀ s, Matches (der c r) s ↔ Matches r (c :: s) := by
  induction r with
  | empty => intro s; simp [der]; constructor <;> (intro h; cases h)
  | eps => intro s; simp [der]; constructor <;> (intro h; cases h)
  | cls p =>
    intro s
    simp only [der]
    split
    · rename_i hp
      constructor
      · intro h; cases h; exact Matches.cls hp
      · intro h; cases h; exact Matches.eps
    · rename_i hp
      constructor
      · intro h; cases h
      · intro h; cases h; rename_i h'; exact absurd h' hp
  | cat a b iha ihb =>
    intro s
    have key : Matches (cat (der c a) b) s ↔ ∃ s1 s2, s = s1 ++ s2 ∧ Matches a (c :: s1) ∧ Matches b s2 := by
      constructor
      · intro h; cases h with
        | cat h1 h2 => exact ⟨_, _, rfl, (iha _).1 h1, h2⟩
      · rintro ⟨s1, s2, rfl, h1, h2⟩; exact Matches.cat ((iha _).2 h1) h2
    have inv : Matches (cat a b) (c :: s) ↔
        (∃ s1 s2, s = s1 ++ s2 ∧ Matches a (c :: s1) ∧ Matches b s2) ∨ (Matches a [] ∧ Matches b (c :: s)) := by
      constructor
      · intro h
        generalize hu : c :: s = u at h
        cases h with
        | @cat _ _ s1 s2 h1 h2 =>
          cases s1 with
          | nil => simp at hu; subst hu; exact Or.inr ⟨h1, h2⟩
          | cons c' s1' =>
            simp at hu; obtain ⟨rfl, rfl⟩ := hu
            exact Or.inl ⟨s1', s2, rfl, h1, h2⟩
      · rintro (⟨s1, s2, rfl, h1, h2⟩ | ⟨h1, h2⟩)
        · exact Matches.cat (s := c :: s1) h1 h2
        · exact Matches.cat (s := []) h1 h2
    simp only [der]
    split
    · rename_i hn
      constructor
      · intro h; cases h with
        | altL h => exact inv.2 (Or.inl (key.1 h))
        | altR h => exact inv.2 (Or.inr ⟨(nullable_iff a).1 hn, (ihb _).1 h⟩)
      · intro h
        rcases inv.1 h with h | ⟨_, h2⟩
        · exact Matches.altL (key.2 h)
        · exact Matches.altR ((ihb _).2 h2)
    · rename_i hn
      rw [key]
      constructor
      · intro h; exact inv.2 (Or.inl h)
      · intro h
        rcases inv.1 h with h | ⟨h1, _⟩
        · exact h
        · exact absurd ((nullable_iff a).2 h1) hn
  | alt a b iha ihb =>
    intro s
    simp only [der]
    constructor
    · intro h; cases h with
      | altL h => exact Matches.altL ((iha _).1 h)
      | altR h => exact Matches.altR ((ihb _).1 h)
    · intro h; cases h with
      | altL h => exact Matches.altL ((iha _).2 h)
      | altR h => exact Matches.altR ((ihb _).2 h)
  | star a iha =>
    intro s
    simp only [der]
    constructor
    · intro h; cases h with
      | cat h1 h2 => exact Matches.starCons (s := c :: _) ((iha _).1 h1) h2
    · intro h
      obtain ⟨s1, s2, rfl, h1, h2⟩ := star_cons_inv h
      exact Matches.cat ((iha _).2 h1) h2

theorem matchB_iff (r : Regex) (s : Str) : matchB r s = true ↔ Matches r s := by
  induction s generalizing r with
  | nil => simpa [matchB] using nullable_iff r
  | cons c s ih => simp only [matchB]; rw [ih, der_iff]

-- search = any .* r .*
def anyChar : Regex := cls (fun _ => true)
def search (r : Regex) (s : Str) : Bool := matchB (cat (star anyChar) (cat r (star anyChar))) s

theorem star_any (s : Str) : Matches (star anyChar) s := by
  induction s with
  | nil => exact Matches.starNil
  | cons c s ih => exact Matches.starCons (s := [c]) (Matches.cls rfl) ih

theorem search_iff (r : Regex) (s : Str) :
    search r s = true ↔ ∃ u v w, s = u ++ v ++ w ∧ Matches r v := by
  unfold search; rw [matchB_iff]
  constructor
  · intro h; cases h with
    | @cat _ _ u t _ h2 => cases h2 with
      | @cat _ _ v w h3 _ => exact ⟨u, v, w, by simp, h3⟩
  · rintro ⟨u, v, w, rfl, h⟩
    have := Matches.cat (star_any u) (Matches.cat h (star_any w))
    simpa using this

#print axioms matchB_iff
#print axioms search_iff
end R
