import Exp.Regex
namespace R
open Regex

@[simp] theorem m_empty {s} : Matches empty s ↔ False := ⟨fun h => (by cases h), False.elim⟩
@[simp] theorem m_eps {s} : Matches eps s ↔ s = [] := ⟨fun h => by cases h; rfl, fun h => h ▸ Matches.eps⟩
@[simp] theorem m_cls {p s} : Matches (cls p) s ↔ ∃ c, s = [c] ∧ p c = true :=
  ⟨fun h => by cases h with | cls hp => exact ⟨_, rfl, hp⟩, fun ⟨c, e, hp⟩ => e ▸ Matches.cls hp⟩
@[simp] theorem m_alt {a b s} : Matches (alt a b) s ↔ Matches a s ∨ Matches b s :=
  ⟨fun h => by cases h with | altL h => exact Or.inl h | altR h => exact Or.inr h,
   fun h => h.elim Matches.altL Matches.altR⟩
theorem m_cat {a b s} : Matches (cat a b) s ↔ ∃ u v, s = u ++ v ∧ Matches a u ∧ Matches b v :=
  ⟨fun h => by cases h with | cat h1 h2 => exact ⟨_, _, rfl, h1, h2⟩,
   fun ⟨u, v, e, h1, h2⟩ => e ▸ Matches.cat h1 h2⟩
@[simp] theorem m_star_any {s} : Matches (star anyChar) s ↔ True := ⟨fun _ => trivial, fun _ => star_any s⟩

def matchPrefix (r : Regex) (s : Str) : Bool := matchB (cat r (star anyChar)) s
theorem matchPrefix_iff (r s) : matchPrefix r s = true ↔ ∃ u w, s = u ++ w ∧ Matches r u := by
  unfold matchPrefix; rw [matchB_iff, m_cat]; simp

def isAlpha (c : Char) : Bool := ('a' ≤ c && c ≤ 'z') || ('A' ≤ c && c ≤ 'Z')
def isSep (c : Char) : Bool := c == '\\' || c == '/' || c == '.'
-- ^(?:[A-Za-z](?=:)|[\\/.])   (trailing lookahead desugared to concatenation: boolean use only)
def fullPath : Regex := alt (cat (cls isAlpha) (cls (· == ':'))) (cls isSep)

theorem fullPath_spec (s : Str) :
    matchPrefix fullPath s = true ↔
      (∃ c rest, s = c :: ':' :: rest ∧ isAlpha c = true) ∨ (∃ c rest, s = c :: rest ∧ isSep c = true) := by
  rw [matchPrefix_iff]
  constructor
  · rintro ⟨u, w, rfl, h⟩
    simp only [fullPath, m_alt, m_cat, m_cls] at h
    rcases h with ⟨u1, v1, rfl, ⟨c, rfl, hc⟩, ⟨d, rfl, hd⟩⟩ | ⟨c, rfl, hc⟩
    · left; refine ⟨c, w, ?_, hc⟩; simp at hd; simp [hd]
    · right; exact ⟨c, w, rfl, hc⟩
  · rintro (⟨c, rest, rfl, hc⟩ | ⟨c, rest, rfl, hc⟩)
    · refine ⟨[c, ':'], rest, rfl, ?_⟩
      simp only [fullPath, m_alt, m_cat, m_cls]
      left; exact ⟨[c], [':'], rfl, ⟨c, rfl, hc⟩, ⟨':', rfl, by simp⟩⟩
    · refine ⟨[c], rest, rfl, ?_⟩
      simp only [fullPath, m_alt, m_cls]
      right; exact ⟨c, rfl, hc⟩

example : matchPrefix fullPath "/bin/ls".toList = true := by decide
example : matchPrefix fullPath "ls".toList = false := by decide
example : matchPrefix fullPath "C:\\x".toList = true := by decide
#print axioms fullPath_spec
end R
