import Exp.Gen
namespace Gen
def rankOf : String → Option Nat
  | "UNDEFINED" => some 0 | "LOW" => some 1 | "MEDIUM" => some 2 | "HIGH" => some 3 | _ => none

def callRules := rules.filter (·.kind == "Call")
def isDigit (c : Char) : Bool := '0' ≤ c && c ≤ '9'
def wellFormedId (s : String) : Bool :=
  match s.toList with
  | ['B', a, b, c] => isDigit a && isDigit b && isDigit c
  | _ => false

theorem ids_wf : ∀ r ∈ rules, wellFormedId r.id = true ∧ (rankOf r.level).isSome = true ∧ r.cwe ≠ 0 := by
  decide +kernel

def idName := (rules.map fun r => (r.id, r.name)).eraseDups
theorem id_name_functional : (idName.map Prod.fst).Nodup ∧ (idName.map Prod.snd).Nodup := by
  decide +kernel
end Gen
