namespace M
abbrev Str := List Char

inductive Node where
  | mk (kind : Str) (line : Nat) (attrs : List (Str × Str)) (kids : List (Str × List Node))

namespace Node
def kind : Node → Str | mk k _ _ _ => k
def line : Node → Nat | mk _ l _ _ => l
def kids : Node → List (Str × List Node) | mk _ _ _ ks => ks
end Node

structure Visit where
  anc : List Node
  node : Node

mutual
  def visitsBelow (anc : List Node) : Node → List Visit
    | .mk k l a ks => visitsSlots (Node.mk k l a ks :: anc) ks
  def visitsSlots (anc : List Node) : List (Str × List Node) → List Visit
    | [] => []
    | (_, ns) :: rest => visitsList anc ns ++ visitsSlots anc rest
  def visitsList (anc : List Node) : List Node → List Visit
    | [] => []
    | n :: ns => (⟨anc, n⟩ :: visitsBelow anc n) ++ visitsList anc ns
end

/-- m occurs strictly below n -/
inductive Below : Node → Node → Prop
  | child {k l a ks f ns m} : (f, ns) ∈ ks → m ∈ ns → Below (.mk k l a ks) m
  | deeper {k l a ks f ns c m} : (f, ns) ∈ ks → c ∈ ns → Below c m → Below (.mk k l a ks) m

theorem mem_visitsList_self {anc ns m} (h : m ∈ ns) : ∃ v ∈ visitsList anc ns, v.node = m := by
  induction ns with
  | nil => cases h
  | cons n ns ih =>
    simp only [visitsList]
    cases h with
    | head => exact ⟨⟨anc, m⟩, by simp, rfl⟩
    | tail _ h => obtain ⟨v, hv, e⟩ := ih h; exact ⟨v, by simp [hv], e⟩

theorem visitsList_sub {anc ns c v} (h : c ∈ ns) (hv : v ∈ visitsBelow anc c) : v ∈ visitsList anc ns := by
  induction ns with
  | nil => cases h
  | cons n ns ih =>
    simp only [visitsList]
    cases h with
    | head => simp [hv]
    | tail _ h => simp [ih h]

theorem visitsSlots_sub {anc ks f ns v} (h : (f, ns) ∈ ks) (hv : v ∈ visitsList anc ns) : v ∈ visitsSlots anc ks := by
  induction ks with
  | nil => cases h
  | cons s ks ih =>
    obtain ⟨f', ns'⟩ := s
    simp only [visitsSlots]
    cases h with
    | head => simp [hv]
    | tail _ h => simp [ih h]

theorem below_visited {n m} (h : Below n m) : ∀ anc, ∃ v ∈ visitsBelow anc n, v.node = m := by
  induction h with
  | child hk hm =>
    intro anc
    simp only [visitsBelow]
    obtain ⟨v, hv, e⟩ := mem_visitsList_self (anc := _ :: anc) hm
    exact ⟨v, visitsSlots_sub hk hv, e⟩
  | deeper hk hc _ ih =>
    intro anc
    simp only [visitsBelow]
    obtain ⟨v, hv, e⟩ := ih (_ :: anc)
    exact ⟨v, visitsSlots_sub hk (visitsList_sub hc hv), e⟩
end M
