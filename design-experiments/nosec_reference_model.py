import random, re, logging
logging.disable(logging.CRITICAL)
from bandit.core import manager as M, extension_loader as el
ext=el.MANAGER
def is_ws(c): return c.isspace()
EXTRA={'İ','ı','ſ','K'}
def tokch(c): return c=='_' or ('a'<=c<='z') or ('A'<=c<='Z') or c.isdecimal() or c in EXTRA
def model(comment):
    n=len(comment); i=0; found=None
    while i<n:
        if comment[i]=='#':
            j=i+1
            while j<n and is_ws(comment[j]): j+=1
            if comment.startswith("nosec",j):
                found=j+5; break
        i+=1
    if found is None: return None
    j=found
    if j<n and comment[j]==':': j+=1
    while j<n and is_ws(comment[j]): j+=1
    k=j
    while k<n and comment[k]!='#': k+=1
    tests=comment[j:k]
    ids=set()
    p=0; m=len(tests)
    while p<m:
        if not tokch(tests[p]): p+=1; continue
        last=None
        while p<m and tokch(tests[p]):
            if tests[p] in 'Bb' and p+1<m and tests[p+1].isdecimal():
                q=p+1
                while q<m and tests[q].isdecimal(): q+=1
            else:
                q=p
                while q<m and tokch(tests[q]): q+=1
            last=tests[p:q]; p=q
            if p<m and tests[p]==',': p+=1
        t=last
        if ext.check_id(t): ids.add(t)
        else:
            r=ext.get_test_id(t)
            if r: ids.add(r)
    return ids
def main():
    alpha=["#"," ","  ","\t","nosec","nosec:","no sec","NOSEC","B101","B602","b101","B1","assert_used","exec_used","pickle",",",", ",":","because","x","-",";","(",")","B101,B102","B102,","noqa","'","é","B999","_","1","\xa0","²","٣","ſ","K","B","b"]
    random.seed(7)
    bad=0
    for it in range(300000):
        c="".join(random.choice(alpha) for _ in range(random.randint(1,9)))
        if not c.startswith("#"): c="#"+c
        a=M._parse_nosec_comment(c); b=model(c)
        if a!=b:
            bad+=1
            if bad<8: print(repr(c),a,b)
    print("mismatches",bad)

if __name__ == '__main__':
    main()
