"""Python transcription of the intended Lean model's core pipeline (design validation only)."""
import ast, io, tokenize, re, sys, os, glob, logging, json
logging.disable(logging.CRITICAL)
sys.path.insert(0, __import__('os').path.dirname(__import__('os').path.abspath(__file__)))
from nosec_reference_model import model as parse_nosec

# ---------- serialisation (what astser.py will do) ----------
def atom(v):
    if isinstance(v, bool): return ["bool", v]
    if v is None: return ["none"]
    if isinstance(v, int): return ["int", v]
    if isinstance(v, float): return ["rat"] + list(v.as_integer_ratio()) if v == v and v not in (float('inf'), float('-inf')) else ["float", repr(v)]
    if isinstance(v, complex): return ["cplx", v == 0]
    if isinstance(v, str): return ["str", v]
    if isinstance(v, bytes): return ["bytes", list(v)]
    if v is Ellipsis: return ["ellipsis"]
    return ["other", repr(v)]
def ser(n):
    attrs = {}; kids = []
    for f, v in ast.iter_fields(n):
        if isinstance(v, list):
            if all(isinstance(x, ast.AST) for x in v):
                kids.append([f, True, [ser(x) for x in v]])
            else:  # mixed (e.g. Dict.keys with None, Global.names strings)
                kids.append([f, True, [ser(x) if isinstance(x, ast.AST) else {"k": "#atom", "p": None, "a": {"v": atom(x)}, "c": []} for x in v]])
        elif isinstance(v, ast.AST):
            kids.append([f, False, [ser(v)]])
        else:
            attrs[f] = atom(v)
    pos = [n.lineno, n.end_lineno, n.col_offset, n.end_col_offset] if hasattr(n, "lineno") else None
    return {"k": type(n).__name__, "p": pos, "a": attrs, "c": kids}

# ---------- model ----------
def kid(n, f):
    for ff, isl, ns in n["c"]:
        if ff == f: return ns if isl else (ns[0] if ns else None)
    return None
def visits(root):
    out = []
    def go(n, anc):
        for f, isl, ns in n["c"]:
            for i, c in enumerate(ns):
                if c["k"] == "#atom": continue
                sib = ns[i+1] if isl and i+1 < len(ns) else None
                out.append((anc + [n], c))
                go(c, anc + [n])
    go(root, [])
    return out
def is_str(n): return n is not None and n["k"] == "Constant" and n["a"]["value"][0] == "str"
def strval(n): return n["a"]["value"][1]
def attr_qual(n, al):
    if n["k"] == "Name":
        i = n["a"]["id"][1]; return al.get(i, i)
    if n["k"] == "Attribute":
        nm = attr_qual(kid(n, "value"), al) + "." + n["a"]["attr"][1]
        return al.get(nm, nm)
    return ""
def call_name(c, al):
    f = kid(c, "func")
    if f["k"] == "Name":
        i = f["a"]["id"][1]; return al.get(i, i)
    if f["k"] == "Attribute": return attr_qual(f, al)
    return ""
def linerange(n):
    if n["p"]: return list(range(n["p"][0], n["p"][1] + 1))
    lo, hi = 9999999999, -1
    def calc(m):
        lo, hi = 9999999999, -1
        if m["p"]: lo = hi = m["p"][0]
        for f, isl, ns in m["c"]:
            for c in ns:
                if c["k"] == "#atom": continue
                a, b = calc(c); lo = min(lo, a); hi = max(hi, b)
        return lo, hi
    for f, isl, ns in n["c"]:
        if f in ("body", "orelse", "handlers", "finalbody"): continue
        for c in ns:
            if c["k"] == "#atom": continue
            a, b = calc(c); lo = min(lo, a); hi = max(hi, b)
    if hi == -1: lo, hi = 0, 1
    return list(range(lo, hi + 1))
def literal(n):
    k = n["k"]
    if k == "Constant":
        t = n["a"]["value"]
        if t[0] == "int": return t[1]
        if t[0] == "rat": return t[1] / t[2]
        if t[0] == "cplx": return 0j if t[1] else 1j
        if t[0] == "str": return t[1]
        if t[0] == "bytes": return bytes(t[1])
        if t[0] == "bool": return str(t[1])
        if t[0] == "none": return "None"
        return None
    if k == "List": return [literal(x) for x in kid(n, "elts")]
    if k == "Tuple": return tuple(literal(x) for x in kid(n, "elts"))
    if k == "Name": return n["a"]["id"][1]
    if k == "Dict": return "<dict>"
    if k == "Set": return "<set>"
    return None
def kw_lineno(call, name):
    for k in kid(call, "keywords"):
        if k["a"]["arg"] == ["str", name]: return kid(k, "value")["p"][0]
    return None
def keywords(call):
    d = {}
    for k in kid(call, "keywords"):
        v = kid(k, "value")
        key = k["a"]["arg"][1] if k["a"]["arg"][0] == "str" else None
        d[key] = v["a"]["attr"][1] if v["k"] == "Attribute" else literal(v)
    return d
FULLPATH = re.compile(r"^(?:[A-Za-z](?=\:)|[\\\/\.])")
RE_C = re.compile("(^{0}$|_{0}_|^{0}_|_{0}$)".format("(pas+wo?r?d|pass(phrase)?|pwd|token|secrete?)"), re.I)
def has_shell(call):
    res = False
    if "shell" in keywords(call):
        for k in kid(call, "keywords"):
            if k["a"]["arg"] == ["str", "shell"]:
                v = kid(k, "value")
                if v["k"] == "Constant" and v["a"]["value"][0] in ("int", "rat", "cplx"):
                    t = v["a"]["value"]; res = (t[1] != 0) if t[0] != "cplx" else (not t[1])
                elif v["k"] == "List": res = bool(kid(v, "elts"))
                elif v["k"] == "Dict": res = bool(kid(v, "keys"))
                elif v["k"] == "Name" and v["a"]["id"][1] in ("False", "None"): res = False
                elif v["k"] == "Constant" and v["a"]["value"][0] in ("bool", "none"):
                    res = v["a"]["value"][1] if v["a"]["value"][0] == "bool" else None
                else: res = True
    return res

def scan(tree, comments, tables, cfg, ignore_nosec=False, hooks=None):
    nosec = {}
    if not ignore_nosec:
        for ln, text in comments: nosec[ln] = parse_nosec(text)
    al = {}; imports = set(); findings = []; counters = {"nosec": 0, "skipped_tests": 0}
    def emit(fid, sev, conf, ctx, lineno=None, lr=None, col=None):
        base = nosec.get(lineno) if lineno is not None else None
        ctxt = None
        for l in ctx["linerange"]:
            if nosec.get(l) is not None: ctxt = nosec[l]; break
        if base is None and ctxt is None: skip = None
        else:
            skip = set()
            if base is not None: skip |= base
            if ctxt is not None: skip |= ctxt
        ln = ctx["lineno"] if lineno is None else lineno
        r = ctx["linerange"] if lr is None else lr
        c = ctx["col"] if col is None else col
        if skip is not None:
            if not skip: counters["nosec"] += 1; return
            if fid in skip: counters["skipped_tests"] += 1; return
        findings.append((fid, sev, conf, ln, tuple(r), c))
    def blacklist(n, ctx, qual):
        k = n["k"]
        if k == "Call":
            f = kid(n, "func"); args = kid(n, "args")
            if f["k"] == "Name" and f["a"]["id"][1] == "__import__":
                name = (strval(args[0]) if is_str(args[0]) else "UNKNOWN") if args else ""
            else:
                name = qual
                if name in ("importlib.import_module", "importlib.__import__"):
                    if args:
                        a0 = args[0]; name = a0["a"]["attr"][1] if a0["k"] == "Attribute" else literal(a0)
                    else:
                        kw = keywords(n)
                        if "name" not in kw: return "CRASH"
                        name = kw["name"]
            for r in tables["Call"]:
                for qn in r["qualnames"]:
                    if name is not None and name == qn:
                        return emit(r["id"], r["level"], "HIGH", ctx)
        if k in ("Import", "ImportFrom"):
            prefix = ""
            if k == "ImportFrom" and n["a"]["module"][0] == "str": prefix = n["a"]["module"][1] + "."
            for r in tables[k]:
                for a in kid(n, "names"):
                    for qn in r["qualnames"]:
                        if (prefix + a["a"]["name"][1]).startswith(qn):
                            return emit(r["id"], r["level"], "HIGH", ctx)
    def shell_checks(n, ctx, qual):
        args = kid(n, "args"); sc = cfg["shell_injection"]
        hs = has_shell(n); kl = kw_lineno(n, "shell")
        if qual in sc["subprocess"]:
            if hs:
                if args:
                    if is_str(args[0]): emit("B602", "LOW", "HIGH", ctx, kl)
                    else: emit("B602", "HIGH", "HIGH", ctx, kl)
            else: emit("B603", "LOW", "HIGH", ctx, kl)
        else:
            if hs: emit("B604", "MEDIUM", "LOW", ctx, kl)
        if qual in sc["shell"] and args:
            if is_str(args[0]): emit("B605", "LOW", "HIGH", ctx)
            else: emit("B605", "HIGH", "HIGH", ctx)
        if qual in sc["no_shell"]: emit("B606", "LOW", "MEDIUM", ctx)
        if args and (qual in sc["subprocess"] or qual in sc["shell"] or qual in sc["no_shell"]):
            a = args[0]
            if a["k"] == "List" and kid(a, "elts"): a = kid(a, "elts")[0]
            if is_str(a) and not FULLPATH.match(strval(a)): emit("B607", "LOW", "HIGH", ctx)
    for anc, n in visits(tree):
        par = anc[-1]
        ctx = {"lineno": n["p"][0] if n["p"] else None, "col": n["p"][2] if n["p"] else None, "linerange": linerange(n)}
        k = n["k"]
        if k == "Call":
            q = call_name(n, al)
            shell_checks(n, ctx, q)
            if q == "exec": emit("B102", "MEDIUM", "HIGH", ctx)
            for kw in kid(n, "keywords"):   # B106
                v = kid(kw, "value")
                if is_str(v):
                    if kw["a"]["arg"][0] != "str": break  # crash in real code
                    if RE_C.search(kw["a"]["arg"][1]): emit("B106", "LOW", "MEDIUM", ctx); break
            blacklist(n, ctx, q)
            if hooks: hooks['call'](n, anc, ctx, q, q.split('.')[-1], al, imports, emit)
        elif k == "Import" or (k == "ImportFrom" and n["a"]["module"][0] != "str"):
            for a in kid(n, "names"):
                if a["a"]["asname"][0] == "str": al[a["a"]["asname"][1]] = a["a"]["name"][1]
                imports.add(a["a"]["name"][1])
            blacklist(n, ctx, None)
        elif k == "ImportFrom":
            m = n["a"]["module"][1]
            for a in kid(n, "names"):
                nm = a["a"]["name"][1]
                al[a["a"]["asname"][1] if a["a"]["asname"][0] == "str" else nm] = m + "." + nm
                imports.add(m + "." + nm)
            blacklist(n, ctx, None)
        elif k == "Assert": emit("B101", "LOW", "HIGH", ctx)
        elif k == "ExceptHandler":
            body = kid(n, "body"); t = kid(n, "type")
            if len(body) == 1 and not (t is not None and not (t["k"] == "Name" and t["a"]["id"][1] == "Exception")):
                if body[0]["k"] == "Pass": emit("B110", "LOW", "HIGH", ctx)
                if body[0]["k"] == "Continue": emit("B112", "LOW", "HIGH", ctx)
        elif k == "Constant" and n["a"]["value"][0] == "str" and par["k"] != "Expr":
            ctx["linerange"] = linerange(par)
            s = strval(n)
            if s == "0.0.0.0": emit("B104", "MEDIUM", "MEDIUM", ctx)
            if any(s.startswith(t) for t in cfg["tmp_dirs"]): emit("B108", "MEDIUM", "MEDIUM", ctx)
            if hooks: hooks['str'](n, anc, ctx, al, imports, emit)
        elif k == "FunctionDef":
            if hooks: hooks['def'](n, anc, ctx, al, imports, emit)
    return findings, counters

# ---------- compare with the real thing ----------
def main():
    from bandit.core import config as b_config, manager as b_manager, extension_loader as el
    from bandit.plugins import injection_shell
    tables = {k: [dict(id=r["id"], level=r["level"], qualnames=r["qualnames"]) for r in v] for k, v in el.MANAGER.blacklist.items()}
    cfg = {"shell_injection": injection_shell.gen_config("shell_injection"), "tmp_dirs": ["/tmp", "/var/tmp", "/dev/shm"]}
    MODELLED = {"B101","B102","B104","B106","B108","B110","B112","B602","B603","B604","B605","B606","B607"} | {r["id"] for v in tables.values() for r in v}
    files = sorted(glob.glob('/repo/examples/*.py')) + sorted(glob.glob('/repo/bandit/**/*.py', recursive=True)) + sorted(glob.glob('/repo/tests/**/*.py', recursive=True))
    bad = 0; total = 0; nfind = 0
    for ign in (False, True):
      for f in files:
        data = open(f, 'rb').read()
        try: tree = ast.parse(data)
        except SyntaxError: continue
        comments = []
        try:
            for tt, tv, (ln, _), _, _ in tokenize.tokenize(io.BytesIO(data).readline):
                if tt == tokenize.COMMENT: comments.append((ln, tv))
        except tokenize.TokenError: pass
        mf, mc = scan(ser(tree), comments, tables, cfg, ign)
        m = b_manager.BanditManager(b_config.BanditConfig(), "file", ignore_nosec=ign)
        m.discover_files([f]); m.run_tests()
        rf = sorted((r.test_id, r.severity, r.confidence, r.lineno, tuple(r.linerange), r.col_offset) for r in m.results if r.test_id in MODELLED)
        total += 1; nfind += len(rf)
        if sorted(mf) != rf:
            bad += 1
            if bad <= 5:
                print("MISMATCH", f, ign); print("  model-only", sorted(set(mf) - set(rf))[:5]); print("  real-only ", sorted(set(rf) - set(mf))[:5])
    print("files", total, "findings", nfind, "mismatching files", bad)

if __name__ == '__main__': main()
