"""Extension of pymodel.py: more plugin decisions transcribed on the serialised tree (design validation only)."""
import re, sys, stat
sys.path.insert(0, __import__('os').path.dirname(__import__('os').path.abspath(__file__)))
import pymodel as pm
from pymodel import kid, is_str, strval, literal, keywords, kw_lineno, call_name, attr_qual, linerange

WEAK_HASHES = ("md4", "md5", "sha", "sha1"); WEAK_CRYPT = ("METHOD_CRYPT", "METHOD_MD5", "METHOD_BLOWFISH")
HTTP_VERBS = {"get", "options", "head", "post", "put", "patch", "delete"}
HTTPX_ATTRS = {"request", "stream", "Client", "AsyncClient"} | HTTP_VERBS
SQL = re.compile(r"(select\s.*from\s|delete\s+from\s|insert\s+into\s.*values\s|update\s.*set\s)", re.I | re.S)
CURVES = {"SECT571K1": 571, "SECT571R1": 570, "SECP521R1": 521, "BrainpoolP512R1": 512, "SECT409K1": 409, "SECT409R1": 409,
  "BrainpoolP384R1": 384, "SECP384R1": 384, "SECT283K1": 283, "SECT283R1": 283, "BrainpoolP256R1": 256, "SECP256K1": 256,
  "SECP256R1": 256, "SECT233K1": 233, "SECT233R1": 233, "SECP224R1": 224, "SECP192R1": 192, "SECT163K1": 163, "SECT163R2": 163}
BAD_PROTO = ["PROTOCOL_SSLv2", "SSLv2_METHOD", "SSLv23_METHOD", "PROTOCOL_SSLv3", "PROTOCOL_TLSv1", "SSLv3_METHOD", "TLSv1_METHOD", "PROTOCOL_TLSv1_1", "TLSv1_1_METHOD"]
KEYCFG = dict(dsa=(1024, 2048), rsa=(1024, 2048), ec=(160, 224))

class Crash(Exception): pass
def call_args(c): return [a["a"]["attr"][1] if a["k"] == "Attribute" else literal(a) for a in kid(c, "args")]
def arg_at(c, i):
    a = kid(c, "args")
    if a and i < len(a):
        return (a[i]["a"]["attr"][1] if a[i]["k"] == "Attribute" else None) or literal(a[i])
    return None
def kwval(c, name):
    d = keywords(c)
    return d[name] if name in d else None
def check_kw(c, name, values=None):
    v = kwval(c, name)
    if v is not None:
        if not isinstance(values, list): values = [values]
        return any(v == x for x in values)
    return None
def imported_like(imports, m): return any(m in i for i in imports)

def plugin_findings(n, anc, ctx, q, name, al, imports, emit):
    """n is a Call node; emits the modelled plugin findings other than shell/blacklist."""
    args = kid(n, "args"); kws = keywords(n); ql = q.split(".")
    line = n["p"][0]
    # B103
    if "chmod" in name and len(args) == 2:
        mode = arg_at(n, 1)
        if mode is not None and isinstance(mode, int) and not isinstance(mode, bool):
            if mode & (stat.S_IWOTH | stat.S_IWGRP | stat.S_IXGRP | stat.S_IXOTH):
                emit("B103", "HIGH" if mode & stat.S_IWOTH else "MEDIUM", "HIGH", ctx)
    # B113 / B501
    q0 = ql[0]
    if q0 == "requests" and name in HTTP_VERBS and check_kw(n, "timeout") is None:
        emit("B113", "MEDIUM", "LOW", ctx)
    elif (q0 == "requests" and name in HTTP_VERBS) or (q0 == "httpx" and name in HTTPX_ATTRS):
        if check_kw(n, "timeout", "None"): emit("B113", "MEDIUM", "LOW", ctx)
    if (q0 == "requests" and name in HTTP_VERBS) or (q0 == "httpx" and name in HTTPX_ATTRS):
        if check_kw(n, "verify", "False"): emit("B501", "HIGH", "HIGH", ctx, kw_lineno(n, "verify"))
    # B201
    if imported_like(imports, "flask") and q.endswith(".run") and check_kw(n, "debug", "True"):
        emit("B201", "HIGH", "MEDIUM", ctx, kw_lineno(n, "debug"))
    # B324
    if "hashlib" in ql:
        func = ql[-1]
        if func in WEAK_HASHES:
            if kws.get("usedforsecurity", "True") == "True": emit("B324", "HIGH", "HIGH", ctx, line)
        elif func == "new":
            a = call_args(n); nm = a[0] if a else kws.get("name")
            if isinstance(nm, str) and nm.lower() in WEAK_HASHES and kws.get("usedforsecurity", "True") == "True":
                emit("B324", "HIGH", "HIGH", ctx, line)
    elif "crypt" in ql and ql[-1] in ("crypt", "mksalt"):
        a = call_args(n)
        nm = (a[1] if len(a) > 1 else kws.get("salt")) if ql[-1] == "crypt" else (a[0] if a else kws.get("method"))
        if isinstance(nm, str) and nm in WEAK_CRYPT: emit("B324", "MEDIUM", "HIGH", ctx, line)
    # B502 / B504
    if q == "ssl.wrap_socket":
        if check_kw(n, "ssl_version", BAD_PROTO): emit("B502", "HIGH", "HIGH", ctx, kw_lineno(n, "ssl_version"))
        if check_kw(n, "ssl_version") is None: emit("B504", "LOW", "MEDIUM", ctx, kw_lineno(n, "ssl_version"))
    elif q == "pyOpenSSL.SSL.Context":
        if check_kw(n, "method", BAD_PROTO): emit("B502", "HIGH", "HIGH", ctx, kw_lineno(n, "method"))
    else:
        if check_kw(n, "method", BAD_PROTO) or check_kw(n, "ssl_version", BAD_PROTO):
            emit("B502", "MEDIUM", "MEDIUM", ctx, kw_lineno(n, "method") or kw_lineno(n, "ssl_version"))
    # B505
    def classify(kt, size):
        if isinstance(size, str): return
        for thr, lvl in zip(KEYCFG[kt], ("HIGH", "MEDIUM")):
            if size < thr: emit("B505", lvl, "HIGH", ctx); return True
    kt = {"cryptography.hazmat.primitives.asymmetric.dsa.generate_private_key": "dsa",
          "cryptography.hazmat.primitives.asymmetric.rsa.generate_private_key": "rsa",
          "cryptography.hazmat.primitives.asymmetric.ec.generate_private_key": "ec"}.get(q)
    done = False
    if kt in ("dsa", "rsa"):
        done = classify(kt, kwval(n, "key_size") or arg_at(n, 0 if kt == "dsa" else 1) or 2048)
    elif kt == "ec":
        a = call_args(n)
        curve = kwval(n, "curve") or (len(a) > 0 and a[0])
        done = classify("ec", CURVES[curve] if curve in CURVES else 224)
    if not done:
        kt2 = {"Crypto.PublicKey.DSA.generate": "dsa", "Crypto.PublicKey.RSA.generate": "rsa",
               "Cryptodome.PublicKey.DSA.generate": "dsa", "Cryptodome.PublicKey.RSA.generate": "rsa"}.get(q)
        if kt2: classify(kt2, kwval(n, "bits") or arg_at(n, 0) or 2048)
    # B506
    if "yaml" in imports or not isinstance(q, str):
        if "yaml" in ql and ql[-1] == "load" and not check_kw(n, "Loader", "SafeLoader") and not check_kw(n, "Loader", "CSafeLoader") \
           and not arg_at(n, 1) == "SafeLoader" and not arg_at(n, 1) == "CSafeLoader":
            emit("B506", "MEDIUM", "HIGH", ctx, line)
    # B507
    if imported_like(imports, "paramiko") and name == "set_missing_host_key_policy" and args:
        a = args[0]; v = None
        if a["k"] == "Attribute": v = a["a"]["attr"][1]
        elif a["k"] == "Name": v = a["a"]["id"][1]
        elif a["k"] == "Call":
            f = kid(a, "func")
            if f["k"] == "Attribute": v = f["a"]["attr"][1]
            elif f["k"] == "Name": v = f["a"]["id"][1]
        if v in ("AutoAddPolicy", "WarningPolicy"): emit("B507", "HIGH", "MEDIUM", ctx)
    # B508 / B509
    if q == "pysnmp.hlapi.CommunityData" and (check_kw(n, "mpModel", 0) or check_kw(n, "mpModel", 1)): emit("B508", "MEDIUM", "HIGH", ctx)
    if q == "pysnmp.hlapi.UsmUserData" and len(args) < 3: emit("B509", "MEDIUM", "HIGH", ctx)
    # B601
    if imported_like(imports, "paramiko") and name == "exec_command": emit("B601", "MEDIUM", "MEDIUM", ctx)
    # B609
    sc = pm_cfg["shell_injection"]
    if q in sc["shell"] or (q in sc["subprocess"] and check_kw(n, "shell", "True")):
        if len(args) >= 1:
            a0 = arg_at(n, 0); s = ""
            if isinstance(a0, list): s = "".join(" %s" % x for x in a0)
            elif isinstance(a0, str): s = a0
            if s != "" and any(v in s for v in ("chown", "chmod", "tar", "rsync")) and "*" in s:
                emit("B609", "HIGH", "MEDIUM", ctx, kw_lineno(n, "shell"))
    # B612
    if q == "logging.config.listen" and "verify" not in kws: emit("B612", "MEDIUM", "HIGH", ctx)
    # B614
    if "torch" in imports and "torch" in ql and ql[-1] == "load":
        if kwval(n, "weights_only") != "True": emit("B614", "MEDIUM", "HIGH", ctx)
    # B702 / B701
    if "mako" in ql and ql[-1] == "Template": emit("B702", "MEDIUM", "HIGH", ctx)
    if "jinja2" in ql and ql[-1] == "Environment":
        def walk(m):
            yield m
            for f, isl, ns in m["c"]:
                for c in ns:
                    if c["k"] != "#atom": yield from walk(c)
        res = None
        for m in walk_bfs(n):
            if m["k"] == "keyword" and m["a"]["arg"] == ["str", "autoescape"]:
                v = kid(m, "value")
                isname = lambda s: v["k"] == "Name" and v["a"]["id"][1] == s
                isconst = lambda b: v["k"] == "Constant" and v["a"]["value"] == ["bool", b]
                if isname("False") or isconst(False): res = ("HIGH", "HIGH"); break
                if isname("True") or isconst(True): res = "ok"; break
                if v["k"] == "Call":
                    f = kid(v, "func")
                    if (f["k"] == "Attribute" and f["a"]["attr"][1] == "select_autoescape") or (f["k"] == "Name" and f["a"]["id"][1] == "select_autoescape"):
                        res = "ok"; break
                res = ("HIGH", "MEDIUM"); break
        if res is None: emit("B701", "HIGH", "HIGH", ctx)
        elif res != "ok": emit("B701", res[0], res[1], ctx)
    # B704
    if q in ("markupsafe.Markup", "flask.Markup") and args and args[0]["k"] != "Constant": emit("B704", "MEDIUM", "HIGH", ctx)
    # B610 / B611
    if name == "extra":
        kw = {}
        for k in kid(n, "keywords"):
            kw[k["a"]["arg"][1] if k["a"]["arg"][0] == "str" else None] = kid(k, "value")
        for i, nm in enumerate(["select", "where", "params", "tables", "order_by", "select_params"]):
            if len(args) > i: kw[nm] = args[i]
        insecure = False
        for key in ("where", "tables"):
            if key in kw:
                if kw[key]["k"] == "List":
                    if any(not is_str(v) for v in kid(kw[key], "elts")): insecure = True; break
                else: insecure = True; break
        if not insecure and "select" in kw:
            s = kw["select"]
            if s["k"] == "Dict":
                ks = kid(s, "keys"); vs = kid(s, "values")
                if any(not is_str(x) for x in ks) or any(not is_str(x) for x in vs): insecure = True
            else: insecure = True
        if insecure: emit("B610", "MEDIUM", "MEDIUM", ctx)
    if imported_like(imports, "django.db.models") and name == "RawSQL":
        if args: sql = args[0]
        else:
            kw = {k["a"]["arg"][1] if k["a"]["arg"][0] == "str" else None: kid(k, "value") for k in kid(n, "keywords")}
            if "sql" not in kw: raise Crash("B611")
            sql = kw["sql"]
        if not is_str(sql): emit("B611", "MEDIUM", "MEDIUM", ctx)
    # B202
    if "tarfile" in imports and "extractall" in name:
        flt = None
        for k in kid(n, "keywords"):
            if k["a"]["arg"] == ["str", "filter"]:
                v = kid(k, "value"); flt = is_str(v) and strval(v) == "data"; break
        if "filter" in kws and flt: pass
        elif "members" in kws:
            lvl = None
            for k in kid(n, "keywords"):
                if k["a"]["arg"] == ["str", "members"]:
                    v = kid(k, "value")
                    if v["k"] == "Call":
                        if kid(v, "func")["k"] != "Name": raise Crash("B202")
                        lvl = "LOW"
                    else: lvl = "MEDIUM"
                    break
            emit("B202", lvl, lvl, ctx)
        else: emit("B202", "HIGH", "HIGH", ctx)

def walk_bfs(n):
    todo = [n]
    while todo:
        m = todo.pop(0); yield m
        for f, isl, ns in m["c"]:
            for c in ns:
                if c["k"] != "#atom": todo.append(c)
pm_cfg = None

RE_C = pm.RE_C
def str_findings(n, anc, ctx, al, imports, emit):
    par = anc[-1]; s = strval(n)
    # B105
    hit = None
    if par["k"] == "Assign":
        for t in kid(par, "targets"):
            if t["k"] == "Name" and RE_C.search(t["a"]["id"][1]): hit = s; break
            elif t["k"] == "Attribute" and RE_C.search(t["a"]["attr"][1]): hit = s; break
    elif par["k"] == "Subscript" and RE_C.search(s):
        asg = anc[-2]
        if asg["k"] == "Assign" and is_str(kid(asg, "value")): hit = strval(kid(asg, "value"))
    elif par["k"] == "Compare":
        left = kid(par, "left"); c0 = kid(par, "comparators")[0]
        if left["k"] == "Name" and RE_C.search(left["a"]["id"][1]) and is_str(c0): hit = strval(c0)
        elif left["k"] == "Attribute" and RE_C.search(left["a"]["attr"][1]) and is_str(c0): hit = strval(c0)
    if hit is not None: emit("B105", "LOW", "MEDIUM", ctx)
    # B608
    wrapper = None; stmt = ""; repl = False
    if par["k"] == "BinOp":
        top_i = len(anc) - 1
        while anc[top_i - 1]["k"] == "BinOp": top_i -= 1
        top = anc[top_i]
        bits = [n]
        def get(m):
            if m is par: return
            for side in ("left", "right"):
                c = kid(m, side)
                if c["k"] == "BinOp": get(c); bits.append(None)
                else: bits.append(c)
        get(top)
        stmt = " ".join(strval(b) for b in bits if b is not None and is_str(b))
        wrapper = anc[top_i - 1]
    elif par["k"] == "Attribute" and par["a"]["attr"][1] in ("format", "replace"):
        stmt = s; wrapper = anc[-3] if len(anc) >= 3 else None; repl = par["a"]["attr"][1] == "replace"
    elif par["k"] == "JoinedStr":
        subs = [c for c in kid(par, "values") if is_str(c)]
        if subs and n is subs[0]:
            stmt = "".join(strval(c) for c in subs); wrapper = anc[-2]
    execute = False
    if wrapper is not None and wrapper["k"] == "Call":
        f = kid(wrapper, "func")
        nm = f["a"]["attr"][1] if f["k"] == "Attribute" else (f["a"]["id"][1] if f["k"] == "Name" else "")
        execute = nm in ("execute", "executemany")
    if SQL.search(stmt): emit("B608", "MEDIUM", "MEDIUM" if execute and not repl else "LOW", ctx)
def def_findings(n, anc, ctx, al, imports, emit):
    a = kid(n, "args"); params = kid(a, "args"); defaults = kid(a, "defaults")
    defs = [None] * (len(params) - len(defaults)) + list(defaults)
    for p, d in zip(params, defs):
        if d is None or (d["k"] == "Constant" and d["a"]["value"] == ["none"]): continue
        if is_str(d) and RE_C.search(p["a"]["arg"][1]): emit("B107", "LOW", "MEDIUM", ctx); break
    for d in defaults:   # B503
        if d["k"] == "Attribute":
            if d["a"]["attr"][1] in BAD_PROTO: emit("B503", "MEDIUM", "MEDIUM", ctx); break
HOOKS = {"call": plugin_findings, "str": str_findings, "def": def_findings}

def main():
    import ast, io, tokenize, glob, logging
    global pm_cfg
    from bandit.core import config as b_config, manager as b_manager, extension_loader as el
    from bandit.plugins import injection_shell
    tables = {k: [dict(id=r["id"], level=r["level"], qualnames=r["qualnames"]) for r in v] for k, v in el.MANAGER.blacklist.items()}
    cfg = {"shell_injection": injection_shell.gen_config("shell_injection"), "tmp_dirs": ["/tmp", "/var/tmp", "/dev/shm"]}
    pm_cfg = cfg
    UNMODELLED = {"B703", "B613"}
    files = sorted(glob.glob('/repo/examples/*.py')) + sorted(glob.glob('/repo/bandit/**/*.py', recursive=True)) + sorted(glob.glob('/repo/tests/**/*.py', recursive=True))
    bad = 0; total = 0; nfind = 0; ids = {}
    for f in files:
        data = open(f, 'rb').read()
        try: tree = ast.parse(data)
        except SyntaxError: continue
        comments = []
        try:
            for tt, tv, (ln, _), _, _ in tokenize.tokenize(io.BytesIO(data).readline):
                if tt == tokenize.COMMENT: comments.append((ln, tv))
        except tokenize.TokenError: pass
        try: mf, mc = pm.scan(pm.ser(tree), comments, tables, cfg, False, HOOKS)
        except Crash as e: print("model crash", f, e); continue
        m = b_manager.BanditManager(b_config.BanditConfig(), "file"); m.discover_files([f]); m.run_tests()
        rf = sorted((r.test_id, r.severity, r.confidence, r.lineno, tuple(r.linerange), r.col_offset) for r in m.results if r.test_id not in UNMODELLED)
        for r in rf: ids[r[0]] = ids.get(r[0], 0) + 1
        total += 1; nfind += len(rf)
        if sorted(mf) != rf:
            bad += 1
            if bad <= 8:
                print("MISMATCH", f); print("  model-only", sorted(set(mf) - set(rf))[:4]); print("  real-only ", sorted(set(rf) - set(mf))[:4])
    print("files", total, "findings", nfind, "mismatching files", bad)
    print("ids covered:", " ".join(f"{k}:{v}" for k, v in sorted(ids.items())))
if __name__ == "__main__": main()
