"""B703 (django mark_safe data-flow) and B613 transcribed on the serialised tree; compared on the mark_safe examples."""
import sys, os
sys.path.insert(0, os.path.dirname(os.path.abspath(__file__)))
import pymodel as pm, pymodel2 as p2
from pymodel import kid, is_str, strval

def nm(n): return n["a"]["id"][1]
class Crash(Exception): pass

def is_assigned(node, var):
    k = node["k"]
    if k == "Expr": return is_assigned(kid(node, "value"), var)
    if k == "FunctionDef":
        # params are ast.arg, never ast.Name: the "is param" early-return never triggers
        return is_assigned_in(kid(node, "body"), var)
    if k == "With":
        assigned = False
        for it in kid(node, "items"):
            ov = kid(it, "optional_vars")
            if ov is not None and ov["k"] == "Name" and nm(ov) == var: assigned = node
            else: assigned = is_assigned_in(kid(node, "body"), var)
        return assigned
    if k == "Try":
        return is_assigned_in(kid(node, "body"), var) + is_assigned_in(kid(node, "handlers"), var) + is_assigned_in(kid(node, "orelse"), var) + is_assigned_in(kid(node, "finalbody"), var)
    if k == "ExceptHandler": return is_assigned_in(kid(node, "body"), var)
    if k in ("If", "For", "While"): return is_assigned_in(kid(node, "body"), var) + is_assigned_in(kid(node, "orelse"), var)
    if k == "AugAssign":
        t = kid(node, "target")
        if t["k"] == "Name" and nm(t) == var: return kid(node, "value")
        return False
    if k == "Assign" and kid(node, "targets"):
        t = kid(node, "targets")[0]; v = kid(node, "value")
        if t["k"] == "Name":
            if nm(t) == var: return v
        elif t["k"] == "Tuple" and v["k"] == "Tuple":
            for pos, e in enumerate(kid(t, "elts")):
                if e["k"] != "Name": raise Crash("name.id")
                if nm(e) == var: return kid(v, "elts")[pos]
        return False
    return False
def is_assigned_in(items, var):
    out = []
    for it in items:
        a = is_assigned(it, var)
        if a:
            if isinstance(a, list): out.extend(a)
            else: out.append(a)
    return out
def params(fn): return [a["a"]["arg"][1] for a in kid(kid(fn, "args"), "args")]
def evaluate_var(x, parent, until):
    secure = False
    if x["k"] == "Name":
        if parent["k"] == "FunctionDef" and nm(x) in params(parent): return False
        for node in kid(parent, "body"):
            if node["p"][0] >= until: break
            to = is_assigned(node, nm(x))
            if to:
                if isinstance(to, list):
                    ns = 0
                    for t in to:
                        if is_str(t): ns += 1
                        elif t["k"] == "Name":
                            if evaluate_var(t, parent, node["p"][0]): ns += 1
                            else: break
                        else: break
                    if ns == len(to): secure = True
                    else: secure = False; break
                elif is_str(to): secure = True
                elif to["k"] == "Name": secure = evaluate_var(to, parent, to["p"][0])
                elif to["k"] == "Call": secure = evaluate_call(to, parent)
                else: secure = False; break
    return secure
def evaluate_call(call, parent):
    if not (call["k"] == "Call" and kid(call, "func")["k"] == "Attribute"): return False
    f = kid(call, "func")
    if not (is_str(kid(f, "value")) and f["a"]["attr"][1] == "format"): return False
    if kid(call, "keywords"): return False
    args = list(kid(call, "args")); ns = 0
    for a in args:      # list may grow while iterating (Starred), as in the original
        if is_str(a): ns += 1
        elif a["k"] == "Name":
            if evaluate_var(a, parent, call["p"][0]): ns += 1
            else: break
        elif a["k"] == "Call":
            if evaluate_call(a, parent): ns += 1
            else: break
        elif a["k"] == "Starred" and kid(a, "value")["k"] in ("List", "Tuple"):
            args.extend(kid(kid(a, "value"), "elts")); ns += 1
        else: break
    return ns == len(args)
def b703(n, anc, ctx, q, name, al, imports, emit):
    if not any("django.utils.safestring" in i for i in imports): return
    if name not in ("mark_safe", "SafeText", "SafeUnicode", "SafeString", "SafeBytes"): return
    args = kid(n, "args")
    if not args: raise Crash("args[0]")
    x = args[0]
    if is_str(x): return
    encl = next(a for a in reversed(anc) if a["k"] in ("Module", "FunctionDef"))
    secure = False
    if x["k"] == "Name":
        if not (encl["k"] == "FunctionDef" and nm(x) in params(encl)):
            secure = evaluate_var(x, encl, n["p"][0])
    elif x["k"] == "Call": secure = evaluate_call(x, encl)
    elif x["k"] == "BinOp" and kid(x, "op")["k"] == "Mod" and is_str(kid(x, "left")):
        r = kid(x, "right")
        fake = {"k": "Call", "p": x["p"], "a": {}, "c": [["func", False, [{"k": "Attribute", "p": None, "a": {"attr": ["str", "format"]}, "c": [["value", False, [kid(x, "left")]]]}]],
                ["args", True, kid(r, "elts") if r["k"] == "Tuple" else [r]], ["keywords", True, []]]}
        secure = evaluate_call(fake, encl)
    if not secure: emit("B703", "MEDIUM", "HIGH", ctx)

def main():
    import ast, io, tokenize, glob
    from bandit.core import config as b_config, manager as b_manager, extension_loader as el
    from bandit.plugins import injection_shell
    tables = {k: [dict(id=r["id"], level=r["level"], qualnames=r["qualnames"]) for r in v] for k, v in el.MANAGER.blacklist.items()}
    cfg = {"shell_injection": injection_shell.gen_config("shell_injection"), "tmp_dirs": ["/tmp", "/var/tmp", "/dev/shm"]}
    p2.pm_cfg = cfg
    def call_hook(*a):
        p2.plugin_findings(*a); b703(*a)
    hooks = dict(p2.HOOKS, call=call_hook)
    bad = tot = nf = 0
    for f in sorted(glob.glob('/repo/examples/*.py')):
        data = open(f, 'rb').read()
        try: tree = ast.parse(data)
        except SyntaxError: continue
        comments = [(ln, tv) for tt, tv, (ln, _), _, _ in tokenize.tokenize(io.BytesIO(data).readline) if tt == tokenize.COMMENT]
        mf, _ = pm.scan(pm.ser(tree), comments, tables, cfg, False, hooks)
        m = b_manager.BanditManager(b_config.BanditConfig(), "file"); m.discover_files([f]); m.run_tests()
        rf = sorted((r.test_id, r.severity, r.confidence, r.lineno, tuple(r.linerange), r.col_offset) for r in m.results if r.test_id != "B613")
        tot += 1; nf += sum(1 for r in rf if r[0] == "B703")
        if sorted(mf) != rf:
            bad += 1
            if bad <= 6: print("MISMATCH", f, "\n  model-only", sorted(set(mf) - set(rf))[:4], "\n  real-only ", sorted(set(rf) - set(mf))[:4])
    print("files", tot, "B703 findings", nf, "mismatching files", bad)
if __name__ == "__main__": main()
