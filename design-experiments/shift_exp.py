import ast, glob, os, tempfile, logging, sys, linecache
logging.disable(logging.CRITICAL)
from bandit.core import config as b_config, manager as b_manager
def scan(data, d, name):
    p=os.path.join(d,name); open(p,'wb').write(data); linecache.clearcache()
    m=b_manager.BanditManager(b_config.BanditConfig(),"file"); m.discover_files([p]); m.run_tests()
    return sorted((r.test_id,r.severity,r.confidence,r.lineno,tuple(r.linerange),r.col_offset) for r in m.results), dict(m.metrics.data["_totals"]), m.skipped
d=tempfile.mkdtemp()
bad=0; n=0
for f in sorted(glob.glob('/repo/examples/*.py')):
    data=open(f,'rb').read()
    try: t=ast.parse(data)
    except SyntaxError: continue
    base,bm,_=scan(data,d,"a.py")
    lines=data.split(b"\n")
    pts=sorted({s.lineno for s in ast.walk(t) if isinstance(s,ast.stmt)})
    for L in pts[:12]:
        for ins in (b"", b"# ordinary comment", b"    "):
            # insert before line L (1-based), only if L is a statement start at column 0 or any stmt start
            new=b"\n".join(lines[:L-1]+[ins]+lines[L-1:])
            try: ast.parse(new)
            except SyntaxError: continue
            got,gm,sk=scan(new,d,"a.py")
            exp=sorted((i,s,c,(ln+1 if ln>=L else ln),tuple(x+1 if x>=L else x for x in lr),co) for i,s,c,ln,lr,co in base)
            n+=1
            if got!=exp:
                bad+=1
                if bad<=6: print(os.path.basename(f),L,ins, "\n  exp-only",sorted(set(exp)-set(got))[:3],"\n  got-only",sorted(set(got)-set(exp))[:3])
print("cases",n,"bad",bad)
