"""CPython ast -> JSON-able rose tree.  Knows nothing about node kinds.

node  = {"k": kind, "p": [lineno, end_lineno, col, end_col] | None, "a": {field: atom}, "c": [[field, isList, [node...]]...]}
atom  = ["str", s] | ["int", decimal-string] | ["rat", num-string, den-string] | ["flt", repr] | ["cplx", isZero]
        | ["bytes", [ints]] | ["bool", b] | ["none"] | ["ellipsis"] | ["other"]
Fields are emitted in ast.iter_fields order.  Non-AST items of a list field (Dict.keys None,
Global.names strings) become pseudo-nodes of kind "#atom".
"""
import ast, math


class WFError(Exception):
    pass


def atom(v):
    if isinstance(v, bool):
        return ["bool", v]
    if v is None:
        return ["none"]
    if isinstance(v, int):
        return ["int", str(v)]
    if isinstance(v, float):
        if math.isfinite(v):
            n, d = v.as_integer_ratio()
            return ["rat", str(n), str(d)]
        return ["flt", repr(v)]
    if isinstance(v, complex):
        return ["cplx", v == 0]
    if isinstance(v, str):
        return ["str", v]
    if isinstance(v, bytes):
        return ["bytes", list(v)]
    if v is Ellipsis:
        return ["ellipsis"]
    return ["other"]


def _pseudo(x):
    return {"k": "#atom", "p": None, "a": {"v": atom(x)}, "c": []}


def ser(n):
    attrs = {}
    kids = []
    for f, v in ast.iter_fields(n):
        if isinstance(v, list):
            kids.append([f, True, [ser(x) if isinstance(x, ast.AST) else _pseudo(x) for x in v]])
        elif isinstance(v, ast.AST):
            kids.append([f, False, [ser(v)]])
        else:
            attrs[f] = atom(v)
    pos = None
    if hasattr(n, "lineno"):
        pos = [n.lineno, getattr(n, "end_lineno", None) or n.lineno, n.col_offset, getattr(n, "end_col_offset", None) or 0]
    return {"k": type(n).__name__, "p": pos, "a": attrs, "c": kids}


def check_wf(t, parent_span=None):
    """The CPython facts the Lean proofs assume (DESIGN.md 3.2 `WF`)."""
    p = t["p"]
    if p is not None:
        if not (p[0] <= p[1]):
            raise WFError(f"end before start: {t['k']} {p}")
        if p[0] < 1:
            raise WFError(f"line < 1: {t['k']}")
    for f, is_list, ns in t["c"]:
        if p is None and is_list:
            # list-siblings of an unpositioned node must be unpositioned (linerange's sibling workaround never fires)
            pass
        for i, c in enumerate(ns):
            if c["k"] == "#atom":
                continue
            if is_list and c["p"] is None and i + 1 < len(ns) and ns[i + 1]["p"] is not None:
                raise WFError(f"unpositioned node {c['k']} with positioned list sibling")
            check_wf(c, p or parent_span)
    if t["k"] in ("Name",) and "." in t["a"]["id"][1]:
        raise WFError("dotted identifier")


def ser_source(data):
    """data: bytes or str -> serialised tree (raises SyntaxError like bandit would)."""
    tree = ast.parse(data)
    t = ser(tree)
    check_wf(t)
    return t
