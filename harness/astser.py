"""CPython ast -> JSON-able rose tree.  Knows nothing about node kinds.

node  = {"k": kind, "p": [lineno, end_lineno, col, end_col] | None, "a": {field: atom}, "c": [[field, isList, [node...]]...]}
atom  = ["str", s] | ["int", decimal-string] | ["rat", num-string, den-string] | ["flt", repr] | ["cplx", isZero]
        | ["bytes", [ints]] | ["bool", b] | ["none"] | ["ellipsis"] | ["other"]
Fields are emitted in ast.iter_fields order.  Non-AST items of a list field (Dict.keys None,
Global.names strings) become pseudo-nodes of kind "#atom".
"""
import ast, sys, math


class WFError(Exception):
    pass


def atom(v):
    if isinstance(v, bool):
        return ["bool", v]
    if v is None:
        return ["none"]
    if isinstance(v, int):
        if v.bit_length() > 14000:
            # beyond the interpreter's int -> str digit limit (4300 decimal digits): the model gets the low 64 bits with bit 64 set and the sign — every modelled
            # decision on an integer compares it with small thresholds or tests its low bits, so the substitute decides alike
            w = (abs(v) & ((1 << 64) - 1)) | (1 << 64)
            return ["int", str(-w if v < 0 else w)]
        return ["int", str(v)]
    if isinstance(v, float):
        if math.isfinite(v):
            n, d = v.as_integer_ratio()
            return ["rat", str(n), str(d)]
        return ["flt", repr(v)]
    if isinstance(v, complex):
        return ["cplx", v == 0]
    if isinstance(v, str):
        return ["str", v]
    if isinstance(v, bytes):
        return ["bytes", list(v)]
    if v is Ellipsis:
        return ["ellipsis"]
    return ["other"]


def _pseudo(x):
    return {"k": "#atom", "p": None, "a": {"v": atom(x)}, "c": []}


def ser(n):
    attrs = {}
    kids = []
    for f, v in ast.iter_fields(n):
        if isinstance(v, list):
            kids.append([f, True, [ser(x) if isinstance(x, ast.AST) else _pseudo(x) for x in v]])
        elif isinstance(v, ast.AST):
            kids.append([f, False, [ser(v)]])
        else:
            attrs[f] = atom(v)
    pos = None
    if hasattr(n, "lineno"):
        pos = [n.lineno, getattr(n, "end_lineno", None) or n.lineno, n.col_offset, getattr(n, "end_col_offset", None) or 0]
    return {"k": type(n).__name__, "p": pos, "a": attrs, "c": kids}


def check_wf(t, spans=()):
    """The CPython facts the Lean proofs assume (`Props.C10.TreeWF`, `Node.spanOK`):
    * a span is non-empty and starts at line >= 1;
    * an unpositioned list member has unpositioned list-siblings (linerange's sibling workaround never fires);
    * no node has the pseudo-kind `File`;
    * the first line of every positioned node lies inside the span of every positioned ancestor — except below the
      `decorator_list` of a function / class definition (decorators precede the `def` line; `Node.spanOK` is false for
      such a definition and the theorems that assume it say nothing about it)."""
    p = t["p"]
    if t["k"] == "File":
        raise WFError("node of pseudo-kind File")
    if p is not None:
        if not (p[0] <= p[1]):
            raise WFError(f"end before start: {t['k']} {p}")
        if p[0] < 1:
            raise WFError(f"line < 1: {t['k']}")
        for sp in spans:
            if not (sp[0] <= p[0] <= sp[1]):
                raise WFError(f"{t['k']} at line {p[0]} outside an ancestor's span {sp}")
    for f, is_list, ns in t["c"]:
        below = () if f == "decorator_list" else (spans + ((p,) if p is not None else ()))
        for i, c in enumerate(ns):
            if c["k"] == "#atom":
                continue
            if is_list and c["p"] is None and i + 1 < len(ns) and ns[i + 1]["p"] is not None:
                raise WFError(f"unpositioned node {c['k']} with positioned list sibling")
            check_wf(c, below)
    if t["k"] in ("Name",) and "." in t["a"]["id"][1]:
        raise WFError("dotted identifier")


def ser_source(data):
    """data: bytes or str -> serialised tree (raises SyntaxError like bandit would)."""
    tree = ast.parse(data)
    # serialisation recurses once per nesting level: lift the interpreter's limit for its duration only (never while the real code runs)
    old = sys.getrecursionlimit()
    sys.setrecursionlimit(max(old, 100000))
    try:
        t = ser(tree)
        check_wf(t)
    finally:
        sys.setrecursionlimit(old)
    return t
