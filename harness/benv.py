"""Bootstrap for every harness process: make `import bandit` resolve to /repo's working tree and
make the entry-point registry follow /repo/setup.cfg as it is *now* (not the stale metadata of the
editable install).  Import this module before anything from bandit."""
import configparser, os, sys, tempfile, atexit, shutil, logging

REPO = os.environ.get("BANDIT_REPO", "/repo")
VERIF = os.path.dirname(os.path.dirname(os.path.abspath(__file__)))

_scratch = None


def entry_points_from_setup_cfg(repo=REPO):
    cp = configparser.ConfigParser()
    cp.read(os.path.join(repo, "setup.cfg"))
    out = {}
    if cp.has_section("entry_points"):
        for group, body in cp.items("entry_points"):
            items = []
            for line in body.splitlines():
                line = line.strip()
                if not line or line.startswith("#"):
                    continue
                name, _, target = line.partition("=")
                items.append((name.strip(), target.strip()))
            out[group] = items
    return out


def install(repo=REPO):
    """Create a scratch dist-info from setup.cfg and put it (and the repo) first on sys.path."""
    global _scratch
    if _scratch is not None:
        return _scratch
    _scratch = tempfile.mkdtemp(prefix="bverif_ep_")
    atexit.register(shutil.rmtree, _scratch, True)
    di = os.path.join(_scratch, "bandit-0.0.0.dist-info")
    os.makedirs(di)
    with open(os.path.join(di, "METADATA"), "w") as f:
        f.write("Metadata-Version: 2.1\nName: bandit\nVersion: 0.0.0\n")
    eps = entry_points_from_setup_cfg(repo)
    with open(os.path.join(di, "entry_points.txt"), "w") as f:
        for group, items in eps.items():
            f.write(f"[{group}]\n")
            for name, target in items:
                f.write(f"{name} = {target}\n")
            f.write("\n")
    sys.path.insert(0, repo)
    sys.path.insert(0, _scratch)
    os.environ["PYTHONPATH"] = os.pathsep.join([_scratch, repo] + [p for p in os.environ.get("PYTHONPATH", "").split(os.pathsep) if p])
    os.environ["PATH"] = "/venv/bin" + os.pathsep + os.environ.get("PATH", "")
    return _scratch


def quiet_logging():
    logging.disable(logging.CRITICAL)


install()
