"""Relations between runs of the command-line tool that differ in ONE kind of option.

Each property harness varies its own options around its own oracle.  The seeded changes that slipped through them lived where two option families meet:
-q with --exit-zero (C03-m8), thresholds with the metrics block (C12-m8), a baseline with the exit status (C03-m10), SARIF with two findings on a line
(C03-m7).  This module draws whole option vectors — format x severity/confidence thresholds (flags or names) x verbosity x --exit-zero x -n x -a x
stdout/-o x baseline x selection x --ignore-nosec — over one small project and checks relations that hold between runs, whatever the options mean:

  R1 (C03)  exit status = 1 iff the report the run wrote lists a finding and --exit-zero is absent
  R2 (C09)  the findings listed (file, id, severity, confidence, line) do not depend on the format, on -q/-v/-d, on -n, on -a, on stdout vs -o
  R3 (C03)  the findings listed under thresholds (s, c) are those of the run with default thresholds that rank >= (s, c)   [runs without a baseline]
  R4 (C12)  the metrics block (JSON, YAML) does not depend on thresholds, baseline, format, verbosity, -n, -a
  R5 (C02)  with --ignore-nosec the findings are a superset of those without, and the difference is what the nosec counters count

The reference of a vector is the JSON run with the same *semantic* options (thresholds, baseline, selection, nosec mode) and neutral presentation options;
references are cached.  `owner` selects which relations are reported by the calling check (a violation of a sibling's relation is left to the sibling)."""
import json, os, re

RANKS = ["UNDEFINED", "LOW", "MEDIUM", "HIGH"]
NAMES = ["all", "low", "medium", "high"]
TEMPLATE = "{relpath}|{test_id}|{severity}|{confidence}|{line}|{msg}"
FILES = {
    "a.py": "import pickle\nimport subprocess\nassert x\npassword = 'pw'\nsubprocess.Popen(cmd, shell=True)\nsubprocess.Popen('ls', shell=True)\ndata = pickle.loads(blob)\n",
    "b.py": "exec(c)\nimport hashlib\nh = hashlib.md5(d); g = hashlib.sha1(e)\nq = 'SELECT * FROM t WHERE a = %s' % v\ntry:\n    f()\nexcept Exception:\n    pass\n",
    "pkg/c.py": "import telnetlib  # nosec\neval(e)  # nosec B307\nassert y  # nosec B999\nimport yaml\nyaml.load(s)\nbind = '0.0.0.0'\n",
    "pkg/d.py": "x = 1\n# only a comment\n\ny = 2\n",
    "pkg/e.py": "import requests\nrequests.get(url,\n             verify=False)\ntmp = '/tmp/x'\ncur.execute('UPDATE t SET a = ' + v)\n",
    "pkg/broken.py": "def (:\n    pass\n",
}
OWNERS = {"R1": "C03", "R2": "C09", "R3": "C03", "R4": "C12", "R5": "C02"}


def _parse(fmt, text):
    from props import c03
    return sorted(c03.parse_report(fmt, text))


def gen_vector(rng, formats):
    fmt = rng.choice(formats)
    v = {"fmt": fmt, "sev": rng.choice([0, 0, 1, 2, 3]), "conf": rng.choice([0, 0, 1, 2, 3]), "sev_name": rng.random() < 0.3, "conf_name": rng.random() < 0.3,
         "verb": rng.choice(["", "", "-q", "-v", "-d"]), "exit_zero": rng.random() < 0.3, "n": rng.choice([None, 0, 1, 3, 7]), "agg": rng.choice([None, "file", "vuln"]),
         "to_file": rng.random() < 0.5 or fmt == "xml", "baseline": None, "select": rng.choice([None, None, ("-t", "B101,B602,B301,B324,B608"), ("-s", "B101,B404"), ("-s", "B001")]),
         "ignore_nosec": rng.random() < 0.25}
    if fmt in ("json", "txt", "html") and rng.random() < 0.35:
        v["baseline"] = rng.choice(["own", "partial", "empty"])
    return v


def argv_of(v, root, outpath, baselines, presentation=True):
    a = []
    if v["sev"]:
        a += ["--severity-level", NAMES[v["sev"]]] if (v["sev_name"] and presentation) else ["-" + "l" * v["sev"]]
    if v["conf"]:
        a += ["--confidence-level", NAMES[v["conf"]]] if (v["conf_name"] and presentation) else ["-" + "i" * v["conf"]]
    fmt = v["fmt"] if presentation else "json"
    a += ["-f", fmt] + (["--msg-template", TEMPLATE] if fmt == "custom" else [])
    if presentation:
        if v["verb"]:
            a.append(v["verb"])
        if v["exit_zero"]:
            a.append("--exit-zero")
        if v["n"] is not None:
            a += ["-n", str(v["n"])]
        if v["agg"]:
            a += ["-a", v["agg"]]
    if v["baseline"]:
        a += ["-b", baselines[(v["baseline"], v["select"], v["ignore_nosec"])]]
    if v["select"]:
        a += list(v["select"])
    if v["ignore_nosec"]:
        a.append("--ignore-nosec")
    to_file = v["to_file"] if presentation else True
    if to_file:
        a += ["-o", outpath]
    return a + ["-r", root], to_file


def run(res, ctx, C, scratch, rng, n, owner, formats=None):
    from bandit.core import extension_loader
    avail = set(extension_loader.MANAGER.formatter_names)
    formats = [f for f in (formats or ["json", "yaml", "csv", "xml", "html", "sarif", "txt", "custom"]) if f in avail]
    if "sarif" in formats:
        try:
            import sarif_om, jschema_to_python  # noqa: F401
        except ImportError:
            formats.remove("sarif")
    root = os.path.join(scratch.root, "clirel", "proj")
    for rel, body in FILES.items():
        os.makedirs(os.path.dirname(os.path.join(root, rel)), exist_ok=True)
        with open(os.path.join(root, rel), "w") as fh:
            fh.write(body)
    outp = os.path.join(scratch.root, "clirel", "report.out")
    cwd = os.path.join(scratch.root, "clirel")

    def execute(argv, to_file, fmt):
        if os.path.exists(outp):
            os.remove(outp)
        r = C.run_cli(argv, cwd=cwd)
        text = (open(outp, encoding="utf-8").read() if os.path.exists(outp) else "") if to_file else r["out"]
        return r, text

    # baselines per (kind, selection, nosec mode): written by the tool itself
    baselines = {}

    def baseline_for(kind, select, ign):
        key = (kind, select, ign)
        if key in baselines:
            return
        p = os.path.join(cwd, "base_%d.json" % len(baselines))
        argv = ["-f", "json", "-o", p] + (list(select) if select else []) + (["--ignore-nosec"] if ign else []) + ["-r", root]
        C.run_cli(argv, cwd=cwd)
        data = json.load(open(p))
        if kind == "partial":
            data["results"] = data["results"][::2]
        elif kind == "empty":
            data["results"] = []
        with open(p, "w") as fh:
            json.dump(data, fh)
        baselines[key] = p

    refs = {}

    def reference(v):
        key = (v["sev"], v["conf"], v["baseline"], v["select"], v["ignore_nosec"])
        if key not in refs:
            argv, to_file = argv_of(v, root, outp, baselines, presentation=False)
            r, text = execute(argv, to_file, "json")
            try:
                doc = json.loads(text)
                refs[key] = {"findings": _parse("json", text), "metrics": doc["metrics"], "exit": r["exit"], "argv": argv}
            except Exception as e:
                refs[key] = {"error": "%s: %s" % (type(e).__name__, e), "exit": r["exit"], "exc": r["exc"], "argv": argv}
        return refs[key]

    shown = lambda argv: [a.replace(scratch.root, "{TMP}") for a in argv]
    n_rel = 0
    for k in range(n):
        v = gen_vector(rng, formats)
        if v["baseline"]:
            baseline_for(v["baseline"], v["select"], v["ignore_nosec"])
        argv, to_file = argv_of(v, root, outp, baselines)
        r, text = execute(argv, to_file, v["fmt"])
        res.case(("clirel", json.dumps(v, sort_keys=True)), True)
        res.count("clirel:" + v["fmt"])
        base = {"project": FILES, "argv": shown(argv), "exit": r["exit"], "exc": r["exc"]}
        if r["exc"] is not None or r["exit"] not in (0, 1):
            if OWNERS["R1"] == owner:
                res.violation("R1: a run over a healthy project ended with a traceback / an error status", dict(base, stderr=r["err"][-300:]))
            continue
        try:
            got = _parse(v["fmt"], text)
        except Exception as e:
            if owner in ("C09", "C03"):
                res.violation("R2/R3: the run wrote no report that can be parsed back", dict(base, error="%s: %s" % (type(e).__name__, e), head=text[:300]))
            continue
        if v["fmt"] == "custom":
            got = sorted(got)
        # R1
        n_rel += 1
        want_exit = 1 if (got and not v["exit_zero"]) else 0
        if r["exit"] != want_exit and OWNERS["R1"] == owner:
            res.violation("R1: exit status does not go with the report (1 iff it lists a finding and --exit-zero is absent)", dict(base, findings_in_report=len(got), expected_exit=want_exit))
        ref = reference(v)
        if "error" in ref:
            if owner in ("C03", "C09"):
                res.violation("the reference run (same thresholds / baseline / selection, JSON to a file) produced no report", dict(base, reference=ref))
            continue
        # R2
        n_rel += 1
        if got != ref["findings"] and v["fmt"] == "sarif" and sorted(f[:4] for f in got) == sorted(f[:4] for f in ref["findings"]):
            # SARIF carries the start of the finding's line range, not its line (listed known finding): only the line of multi-line findings differs
            if OWNERS["R2"] == owner:
                res.known_finding("C09-sarif-line-is-range-start")
        elif got != ref["findings"] and OWNERS["R2"] == owner:
            res.violation("R2: the findings a report lists depend on presentation options (format / verbosity / -n / -a / stdout vs -o)",
                          dict(base, reference_argv=shown(ref["argv"]), only_here=[list(x) for x in got if x not in ref["findings"]][:8],
                               only_in_reference=[list(x) for x in ref["findings"] if x not in got][:8]))
        # R3
        if not v["baseline"] and (v["sev"] or v["conf"]):
            v0 = dict(v, sev=0, conf=0)
            r0 = reference(v0)
            if "error" not in r0:
                n_rel += 1
                exp = [f for f in r0["findings"] if RANKS.index(f[2]) >= max(v["sev"], 0) and RANKS.index(f[3]) >= max(v["conf"], 0)] if True else None
                # level k keeps rank index >= k (k = 1 LOW …); the default (0) keeps everything incl. UNDEFINED
                exp = [f for f in r0["findings"] if RANKS.index(f[2]) >= v["sev"] and RANKS.index(f[3]) >= v["conf"]]
                got_cmp = sorted(f[:4] for f in got) if v["fmt"] == "sarif" else got
                exp_cmp = sorted(f[:4] for f in exp) if v["fmt"] == "sarif" else sorted(exp)
                if (sorted(exp) != ref["findings"] or got_cmp != exp_cmp) and OWNERS["R3"] == owner:
                    res.violation("R3: the findings listed under thresholds are not the findings of the default run that reach the thresholds",
                                  dict(base, thresholds=[RANKS[v["sev"]], RANKS[v["conf"]]], reference_argv=shown(ref["argv"]), expected=[list(x) for x in sorted(exp)][:12],
                                       listed_by_reference=[list(x) for x in ref["findings"]][:12], listed_by_this_run=[list(x) for x in got][:12]))
        # R4
        if v["fmt"] in ("json", "yaml"):
            try:
                if v["fmt"] == "json":
                    mm = json.loads(text)["metrics"]
                else:
                    import yaml
                    mm = yaml.safe_load(text)["metrics"]
            except Exception:
                mm = None
            m0 = reference(dict(v, sev=0, conf=0, baseline=None))
            if mm is not None and "error" not in m0:
                n_rel += 1
                if mm != m0["metrics"] and OWNERS["R4"] == owner:
                    diff = {os.path.basename(f): {kk: [m0["metrics"].get(f, {}).get(kk), mm.get(f, {}).get(kk)] for kk in set(m0["metrics"].get(f, {})) | set(mm.get(f, {}))
                                                  if m0["metrics"].get(f, {}).get(kk) != mm.get(f, {}).get(kk)} for f in set(mm) | set(m0["metrics"]) if mm.get(f) != m0["metrics"].get(f)}
                    res.violation("R4: the metrics block depends on thresholds / baseline / presentation options", dict(base, differences_reference_vs_this_run=diff))
        # R5
        if not v["baseline"] and not v["sev"] and not v["conf"]:
            a = reference(dict(v, sev=0, conf=0, baseline=None, ignore_nosec=False))
            b = reference(dict(v, sev=0, conf=0, baseline=None, ignore_nosec=True))
            if "error" not in a and "error" not in b:
                n_rel += 1
                withheld = list(b["findings"])
                bad = False
                for f in a["findings"]:
                    if f in withheld:
                        withheld.remove(f)
                    else:
                        bad = True
                tot = a["metrics"].get("_totals", {})
                if (bad or tot.get("nosec", 0) + tot.get("skipped_tests", 0) != len(withheld)) and OWNERS["R5"] == owner:
                    res.violation("R5: findings with nosec handling are not a sub-multiset of those under --ignore-nosec, or the counters differ from the number withheld",
                                  dict(base, withheld=len(withheld), nosec=tot.get("nosec"), skipped_tests=tot.get("skipped_tests")))
    res.extra["clirel_relations_checked"] = res.extra.get("clirel_relations_checked", 0) + n_rel
    return n_rel


def family(res, ctx, C, owner, n_quick, n_thorough):
    """what a property harness calls at the end of its run (skipped on --replay)"""
    if ctx.get("replay"):
        return
    rng = C.rng_for(res.seed, owner, "clirel")
    scratch = C.Scratch()
    try:
        run(res, ctx, C, scratch, rng, n_thorough if res.tier == "thorough" else n_quick, owner)
    finally:
        scratch.close()
