"""Shared harness machinery: Lean driver pipe, real-bandit runners, evidence, verdict plumbing."""
import benv  # noqa: F401  must be first
import ast, io, json, os, random, shutil, subprocess, sys, tempfile, time, tokenize, hashlib, logging, linecache, fcntl, re

import astser

VERIF = benv.VERIF
REPO = benv.REPO
LEAN_DIR = os.path.join(VERIF, "lean")
DRIVER = os.path.join(LEAN_DIR, ".lake", "build", "bin", "driver")
ALLOWED_AXIOMS = {"propext", "Classical.choice", "Quot.sound"}


# ----------------------------------------------------------------------------- logging capture
class _ErrCapture(logging.Handler):
    def __init__(self):
        super().__init__(level=logging.WARNING)
        self.records = []

    def emit(self, record):
        self.records.append(record)


_capture = _ErrCapture()


def setup_logging():
    lg = logging.getLogger("bandit")
    lg.handlers[:] = [_capture]
    lg.propagate = False
    lg.setLevel(logging.WARNING)
    logging.getLogger("stevedore").setLevel(logging.CRITICAL)


def take_log():
    r = _capture.records[:]
    _capture.records.clear()
    return r


# ----------------------------------------------------------------------------- Lean driver
_limit_lock = __import__("threading").Lock()
_limit_users = [0, None]


def dumps_deep(req):
    """json.dumps of a request whose tree may be nested more deeply than the C encoder's fixed recursion budget allows (a 400-term `a + 1 + 1 …` is 400
    levels, three JSON levels each).  Fallback: the pure-Python encoder under a raised interpreter limit — raised only while serialising, never while the
    real code runs."""
    try:
        return json.dumps(req, ensure_ascii=True)
    except RecursionError:
        pass
    with _limit_lock:
        if _limit_users[0] == 0:
            _limit_users[1] = sys.getrecursionlimit()
            sys.setrecursionlimit(200000)
        _limit_users[0] += 1
    try:
        return "".join(json.JSONEncoder(ensure_ascii=True).iterencode(req))
    finally:
        with _limit_lock:
            _limit_users[0] -= 1
            if _limit_users[0] == 0:
                sys.setrecursionlimit(_limit_users[1])


# Lean's `Char` has no surrogate code points: a lone surrogate in a request (an undecodable byte of a file name, `os.fsdecode` writes U+DC80..U+DCFF) would
# silently become U+FFFD inside the driver.  Such code points travel as the private-use characters U+F780..U+F7FF and are mapped back in the answers; the model
# treats a file name as an opaque string, so the renaming is invisible to it.  (Only escapes that are not the low half of a surrogate pair are renamed.)
_LONE_LOW = re.compile(r"(?<!\\ud[89ab][0-9a-f]{2})\\udc([89a-f][0-9a-f])")
_PUA_BACK = {0xF700 + i: 0xDC00 + i for i in range(0x80, 0x100)}


def _enc_req(req):
    return _LONE_LOW.sub(r"\\uf7\1", dumps_deep(req))


_PUA_RE = re.compile("[\uf780-\uf7ff]")


def _dec_line(line):
    return json.loads(line.translate(_PUA_BACK)) if _PUA_RE.search(line) else json.loads(line)


class Driver:
    def __init__(self):
        if not os.path.exists(DRIVER):
            raise RuntimeError("driver not built: " + DRIVER)
        self.p = subprocess.Popen([DRIVER], stdin=subprocess.PIPE, stdout=subprocess.PIPE, text=True, bufsize=1 << 20)
        self.n = 0

    def ask(self, req):
        self.p.stdin.write(_enc_req(req) + "\n")
        self.p.stdin.flush()
        line = self.p.stdout.readline()
        if not line:
            raise RuntimeError("driver died on request: " + dumps_deep(req)[:500])
        self.n += 1
        return _dec_line(line)

    def ask_many(self, reqs):
        """Pipeline many requests (writer thread avoids pipe deadlock).  Large batches of stateless `scan` requests are split over a pool of
        helper driver processes (same binary; the answers are a function of the request alone)."""
        import threading
        if len(reqs) >= 96 and all(r.get("op") == "scan" for r in reqs) and not getattr(self, "_helper", False):
            k = min(int(os.environ.get("VERIF_DRIVERS", "8")), max(1, len(reqs) // 48))
            if k > 1:
                if not hasattr(self, "_pool"):
                    self._pool = []
                while len(self._pool) < k - 1:
                    h = Driver()
                    h._helper = True
                    self._pool.append(h)
                ds = [self] + self._pool[:k - 1]
                size = (len(reqs) + k - 1) // k
                parts = [reqs[i * size:(i + 1) * size] for i in range(k)]
                outs = [None] * k
                errs = []

                def work(j):
                    try:
                        outs[j] = ds[j]._ask_many_one(parts[j]) if parts[j] else []
                    except BaseException as e:      # noqa
                        errs.append(e)
                ts = [threading.Thread(target=work, args=(j,)) for j in range(k)]
                for t in ts:
                    t.start()
                for t in ts:
                    t.join()
                if errs:
                    raise errs[0]
                return [x for o in outs for x in o]
        return self._ask_many_one(reqs)

    def _ask_many_one(self, reqs):
        import threading
        werr = []

        def w():
            try:
                for r in reqs:
                    self.p.stdin.write(_enc_req(r) + "\n")
                self.p.stdin.flush()
            except BaseException as e:      # noqa: never leave the reader waiting for answers that will not come
                werr.append(e)
                try:
                    self.p.stdin.close()
                except Exception:
                    pass
        t = threading.Thread(target=w)
        t.start()
        out = []
        for _ in reqs:
            line = self.p.stdout.readline()
            if not line:
                t.join()
                raise RuntimeError("driver died" + (" (request could not be written: %r)" % werr[0] if werr else ""))
            out.append(_dec_line(line))
        t.join()
        self.n += len(reqs)
        return out

    def close(self):
        for h in getattr(self, "_pool", []):
            h.close()
        try:
            self.p.stdin.close()
            self.p.wait(timeout=10)
        except Exception:
            self.p.kill()


# ----------------------------------------------------------------------------- inputs
def comments_of(data: bytes):
    """Comment tokens exactly as manager._parse_file collects them (partial on TokenError)."""
    out = []
    try:
        # newline-normalised like the bytes manager._parse_file hands to tokenize since /repo 1cb0176 (a lone CR is a line end for the parser)
        for tt, tv, (ln, _), _, _ in tokenize.tokenize(io.BytesIO(data.replace(b"\r\n", b"\n").replace(b"\r", b"\n")).readline):
            if tt == tokenize.COMMENT:
                out.append([ln, tv])
    except tokenize.TokenError:
        pass
    return out


def decoded_lines(data: bytes):
    """Text lines as trojansource sees them (open(fname) in text mode with the detected encoding)."""
    try:
        enc, _ = tokenize.detect_encoding(io.BytesIO(data).readline)
        # universal-newline lines (\n, \r\n, \r) — NOT str.splitlines(), which also breaks at \f, \v, U+2028 … (those are not line ends for
        # Python's parser nor for a text-mode file)
        return io.TextIOWrapper(io.BytesIO(data), encoding=enc).readlines()
    except Exception:
        return None


def decoded_text(data: bytes):
    """The decoded text with the file's own line ends (newline=''): the model splits it into lines itself (Bandit/Lines.lean `uniLines`)."""
    try:
        enc, _ = tokenize.detect_encoding(io.BytesIO(data).readline)
        # errors="replace" like trojansource itself (since /repo fix: bytes the encoding cannot decode are accepted by the parser inside a comment)
        return io.TextIOWrapper(io.BytesIO(data), encoding=enc, newline="", errors="replace").read()
    except Exception:
        return None


def scan_request(data: bytes, fname="x.py", ignore_nosec=False, plugin_cfg=None, select=None, stdin=False):
    req = {"op": "scan", "tree": astser.ser_source(data), "comments": comments_of(data),
           "ignore_nosec": ignore_nosec, "fname": fname, "stdin": stdin}
    dt = decoded_text(data)
    if dt is not None:
        req["text"] = dt
    if plugin_cfg:
        req["plugin_cfg"] = plugin_cfg
    if select is not None:
        req["select"] = sorted(select)
    return req


# ----------------------------------------------------------------------------- real bandit
class Scratch:
    """A per-run scratch directory; every case gets a fresh path under it."""
    def __init__(self):
        self.root = tempfile.mkdtemp(prefix="bverif_")
        self.k = 0

    def fresh(self, name="x.py", data=b""):
        self.k += 1
        d = os.path.join(self.root, f"c{self.k}")
        os.makedirs(d)
        p = os.path.join(d, name)
        with open(p, "wb") as f:
            f.write(data)
        return p

    def close(self):
        shutil.rmtree(self.root, ignore_errors=True)


def finding_tuple(r):
    return (r.test_id, r.severity, r.confidence, r.lineno, list(r.linerange), r.col_offset)


def real_scan(path, ignore_nosec=False, profile=None, config_file=None, debug=False):
    """Scan one file through the stable entry points.  Returns dict(findings, nosec, skipped_tests,
    skipped, errors(list of logged internal errors), metrics, mgr)."""
    from bandit.core import config as b_config, manager as b_manager
    linecache.clearcache()
    take_log()
    conf = b_config.BanditConfig(config_file)
    mgr = b_manager.BanditManager(conf, "file", profile=profile, ignore_nosec=ignore_nosec)
    mgr.discover_files([path])
    mgr.run_tests()
    logs = take_log()
    errors = [r.getMessage() for r in logs if r.levelno >= logging.ERROR]
    fm = None
    for k, v in mgr.metrics.data.items():
        if k != "_totals":
            fm = v
    return {"findings": sorted(finding_tuple(r) for r in mgr.results),
            "nosec": mgr.metrics.data["_totals"].get("nosec", 0),
            "skipped_tests": mgr.metrics.data["_totals"].get("skipped_tests", 0),
            "skipped": list(mgr.skipped), "errors": errors, "metrics": dict(mgr.metrics.data), "mgr": mgr}


def model_findings(resp):
    return sorted((f[0], f[1], f[2], f[3], f[4], f[5]) for f in resp["findings"])


def crashed_tests(errors):
    out = []
    for e in errors:
        m = re.match(r"Bandit internal error running: (\S+) ", e)
        if m:
            out.append(m.group(1))
    return sorted(out)


# ----------------------------------------------------------------------------- result bookkeeping
class Result:
    """Collects everything a check run learns; turned into evidence + exit status by `finish`."""
    def __init__(self, pid, tier, seed):
        self.pid = pid
        self.tier = tier
        self.seed = seed
        self.t0 = time.time()
        self.evaluations = 0
        self.nontrivial = set()
        self.samples = []
        self.violations = []       # (what, replay-dict)
        self.known = {}            # finding id -> count
        self.notes = []
        self.extra = {}
        self.obligations = []      # theorem names
        self.discharged = []
        self.broken = []           # (kind, detail) broken obligations / correspondence
        self.exhaustive = False
        self.rule = ""
        self.assumptions = []
        self.hist = {}

    def case(self, key, nontrivial=True, sample=None):
        self.evaluations += 1
        if nontrivial:
            self.nontrivial.add(key if isinstance(key, (str, int, tuple)) else json.dumps(key, sort_keys=True, default=str))
        if sample is not None and len(self.samples) < 6:
            self.samples.append(sample)

    def count(self, k, n=1):
        self.hist[k] = self.hist.get(k, 0) + n

    def violation(self, what, replay):
        self.violations.append((what, replay))

    def known_finding(self, fid):
        self.known[fid] = self.known.get(fid, 0) + 1

    def break_(self, kind, detail):
        self.broken.append((kind, detail))


def rng_for(seed, *salt):
    h = hashlib.sha256(("%s|%s" % (seed, "|".join(map(str, salt)))).encode()).digest()
    return random.Random(int.from_bytes(h[:8], "big"))


# ----------------------------------------------------------------------------- batching
def batch_real_scan(scratch, sources, ignore_nosec=False, profile=None, config_file=None, prefix="m"):
    """sources: list of bytes.  Writes each to its own fresh file, scans them in ONE manager run
    (files are independent: C08 checks that separately), returns list of per-file dicts."""
    from bandit.core import config as b_config, manager as b_manager
    linecache.clearcache()
    take_log()
    scratch.k += 1
    d = os.path.join(scratch.root, f"b{scratch.k}")
    os.makedirs(d)
    paths = []
    for i, data in enumerate(sources):
        p = os.path.join(d, f"{prefix}{i:05d}.py")
        with open(p, "wb") as f:
            f.write(data)
        paths.append(p)
    conf = b_config.BanditConfig(config_file)
    mgr = b_manager.BanditManager(conf, "file", profile=profile, ignore_nosec=ignore_nosec)
    mgr.discover_files(paths)
    mgr.run_tests()
    logs = take_log()
    by = {p: {"findings": [], "errors": [], "skipped": None, "path": p, "texts": []} for p in paths}
    for r in mgr.results:
        by[r.fname]["findings"].append(finding_tuple(r))
        by[r.fname]["texts"].append((r.test_id, r.lineno, r.text))
    for name, reason in mgr.skipped:
        if name in by:
            by[name]["skipped"] = reason
    for rec in logs:
        if rec.levelno >= logging.ERROR:
            msg = rec.getMessage()
            m = re.match(r"Bandit internal error running: (\S+) on file (\S+) at line", msg)
            if m and m.group(2) in by:
                by[m.group(2)]["errors"].append(m.group(1))
    out = []
    for p in paths:
        e = by[p]
        e["findings"].sort()
        e["errors"].sort()
        md = mgr.metrics.data.get(p, {})
        e["nosec"] = md.get("nosec", 0)
        e["skipped_tests"] = md.get("skipped_tests", 0)
        e["metrics"] = md
        out.append(e)
    shutil.rmtree(d, ignore_errors=True)
    return out


def norm_findings(fs):
    return sorted((f[0], f[1], f[2], f[3], tuple(f[4]), f[5]) for f in fs)


def compare_scan(real, model, blacklist_ids=None):
    """Project the real findings on the IDs the model knows; returns None if equal else a diff dict."""
    modelled = set(model.get("modelled", []))
    if "B001" in modelled and blacklist_ids:
        modelled |= set(blacklist_ids)
    rf = norm_findings([f for f in real["findings"] if f[0] in modelled])
    mf = norm_findings(model["findings"])
    diff = {}
    if rf != mf:
        diff["real_only"] = [list(x) for x in sorted(set(rf) - set(mf))][:6]
        diff["model_only"] = [list(x) for x in sorted(set(mf) - set(rf))][:6]
        if not diff["real_only"] and not diff["model_only"]:
            diff["multiplicity"] = True
    fm = func_ids()
    rc = sorted(e for e in real["errors"] if fm.get(e, e) in modelled or e not in fm)
    mc = sorted(model.get("crashes", []))
    if rc != mc:
        diff["real_crashes"] = rc
        diff["model_crashes"] = mc
    return diff or None


def blacklist_ids():
    from bandit.core import extension_loader
    return set(extension_loader.MANAGER.blacklist_by_id)


_func_ids = None


def func_ids():
    """check function __name__ -> test id (crash reports name the function)"""
    global _func_ids
    if _func_ids is None:
        from bandit.core import extension_loader
        _func_ids = {p.plugin.__name__: p.plugin._test_id for p in extension_loader.MANAGER.plugins}
        _func_ids["blacklist"] = "B001"
    return _func_ids


# ----------------------------------------------------------------------------- CLI in-process
class _KeepOpen(io.StringIO):
    """stdout stand-in that survives `with fileobj:` in the formatters"""
    def close(self):
        pass

    def isatty(self):
        return False

    name = "<stdout>"


def run_cli(argv, stdin_bytes=None, cwd=None, entry="main", clear_linecache=True):
    """Run a bandit console script in-process.  Returns dict(exit, out, err, exc).
    exit is the SystemExit code (None if main returned); exc is the class name of any other
    exception that escaped (a traceback in real life)."""
    import contextlib
    if clear_linecache:
        linecache.clearcache()
    take_log()
    if entry == "main":
        from bandit.cli import main as m
    elif entry == "baseline":
        from bandit.cli import baseline as m
    elif entry == "config_generator":
        from bandit.cli import config_generator as m
    else:
        raise ValueError(entry)
    out, err = _KeepOpen(), _KeepOpen()
    old = (sys.argv, sys.stdin, sys.stdout, sys.stderr, os.getcwd())
    root = logging.getLogger()
    old_handlers, old_level = root.handlers[:], root.level
    res = {"exit": None, "out": "", "err": "", "exc": None}
    rfd = None
    try:
        sys.argv = ["bandit"] + list(argv)
        sys.stdout, sys.stderr = out, err
        if cwd:
            os.chdir(cwd)
        if stdin_bytes is not None:
            # manager reads os.fdopen(sys.stdin.fileno()): give it a real fd
            r, w = os.pipe()
            os.write(w, stdin_bytes) if len(stdin_bytes) < 60000 else None
            if len(stdin_bytes) >= 60000:
                import threading
                threading.Thread(target=lambda: (os.write(w, stdin_bytes), os.close(w))).start()
            else:
                os.close(w)
            sys.stdin = os.fdopen(r, "r")
        try:
            m.main()
        except SystemExit as e:
            res["exit"] = e.code if isinstance(e.code, int) or e.code is None else 1
            if e.code is None:
                res["exit"] = 0
        except BaseException as e:  # noqa: a traceback for the user
            res["exc"] = type(e).__name__
            res["exc_msg"] = str(e)[:300]
    finally:
        sys.argv, sys.stdin, sys.stdout, sys.stderr = old[0], old[1], old[2], old[3]
        os.chdir(old[4])
        root.handlers[:] = old_handlers
        root.setLevel(old_level)
        logging.captureWarnings(False)
        setup_logging()
    res["out"] = out.getvalue()
    res["err"] = err.getvalue()
    return res
