"""Hints from what changed: literals of the lines by which /repo's working tree differs from the commit the model was last tied to.

Part of the failing-input search, not of any verdict.  When the code under /repo is the code the model was written against (the recorded commit, nothing
uncommitted), there are no hints and every generator behaves exactly as without this module.  When something changed, the string and integer literals on the
added lines are offered to the generators as extra alphabet: file names, argument values, profile names, nesting depths.  A change that special-cases names
starting with `@`, paths containing a backslash, or depths above some number usually spells that character or number out — and a generator that never
produces it cannot show the difference.

`MODEL_COMMIT` is the /repo commit recorded in published/model_commit.txt (rewritten by tools/gen_manifest.py when the model is re-validated)."""
import io, os, re, subprocess, tokenize

_cache = {}


def _added_lines(repo):
    base = None
    here = os.path.dirname(os.path.dirname(os.path.abspath(__file__)))
    p = os.path.join(here, "published", "model_commit.txt")
    if os.path.exists(p):
        base = open(p).read().strip() or None
    diffs = []
    try:
        diffs.append(subprocess.run(["git", "-C", repo, "diff", "HEAD", "--", "bandit"], capture_output=True, text=True, timeout=30).stdout)
        if base:
            r = subprocess.run(["git", "-C", repo, "diff", base, "HEAD", "--", "bandit"], capture_output=True, text=True, timeout=30)
            if r.returncode == 0:
                diffs.append(r.stdout)
    except Exception:
        return []
    out = []
    for d in diffs:
        for line in d.splitlines():
            if line.startswith("+") and not line.startswith("+++"):
                out.append(line[1:])
    return out


def hints(repo):
    """-> {"strings": [...], "ints": [...]} (both empty on the recorded tree)"""
    if repo in _cache:
        return _cache[repo]
    strings, ints = [], []
    for line in _added_lines(repo):
        try:
            toks = list(tokenize.generate_tokens(io.StringIO(line.strip() + "\n").readline))
        except Exception:
            toks = []
            for m in re.finditer(r"""(?:[rbuRBU]{0,2})('(?:[^'\\]|\\.)*'|"(?:[^"\\]|\\.)*")""", line):
                toks.append(type("T", (), {"type": tokenize.STRING, "string": m.group(0)}))
            for m in re.finditer(r"\b\d+\b", line):
                toks.append(type("T", (), {"type": tokenize.NUMBER, "string": m.group(0)}))
        for t in toks:
            if t.type == tokenize.STRING:
                try:
                    v = eval(t.string, {"__builtins__": {}})      # a literal token only
                except Exception:
                    continue
                if isinstance(v, bytes):
                    try:
                        v = v.decode("latin-1")
                    except Exception:
                        continue
                if isinstance(v, str) and 0 < len(v) <= 24 and v not in strings:
                    strings.append(v)
            elif t.type == tokenize.NUMBER:
                try:
                    n = int(t.string, 0)
                except ValueError:
                    continue
                if n not in ints and 1 < abs(n) < 10 ** 7:
                    ints.append(n)
    # tuples / sets of one-character strings are usually written out: also offer each character of short strings
    for s in list(strings):
        if len(s) <= 6:
            for ch in s:
                if not ch.isalnum() and ch not in strings:
                    strings.append(ch)
    _cache[repo] = {"strings": strings[:40], "ints": ints[:20]}
    return _cache[repo]


def file_names(repo, stem="h"):
    """hint strings turned into valid single path components (prefix / infix / suffix of a .py name), for the file-name pools"""
    out = []
    for s in hints(repo)["strings"]:
        if "/" in s or s in (".", "..") or any(ord(ch) < 0x20 or ch == "\x7f" for ch in s):
            continue                # control characters (a line end above all) are legal in a name but make the line-oriented listings the harness reads back ambiguous:
                                    # a change that merely contains "\r" or "\n" must not make a check misread its own observations
        for nm in (s + stem + ".py", stem + s + ".py", stem + s + "x.py"):
            if nm not in out and len(nm.encode()) < 200:
                out.append(nm)
    return out[:30]


def expr_sources(repo):
    """hint literals as Python expression sources, for the argument pools"""
    h = hints(repo)
    out = [repr(s) for s in h["strings"]] + [repr(s.encode("latin-1", "replace")) for s in h["strings"][:10]]
    for n in h["ints"]:
        out += [str(n), str(n - 1), str(n + 1)]
    return out[:60]
