"""Histories in one process: seeded sequences of `write a version of a file` / `construct a scanner and scan` / `write a report` steps, every observable
compared with what a FRESH interpreter produces for the same (file contents, configuration, selection, format).

bandit is a library as well as a command: several scanner objects live in one process (editor integrations, pre-commit runners, the unit tests themselves).
Whatever a step observes must be a function of its own inputs.  The reference for every observation comes from a pristine subprocess (nothing scanned,
nothing constructed, nothing cached before), computed once per distinct key and shared by all histories.

A manager is always constructed and run at once (construct -> discover -> run -> reports): the known finding C08-shared-plugin-config (settings live on the
shared check functions, so a manager constructed *between* another's construction and run changes it) is therefore never in play here.

Seeded changes that needed such a history and slipped through the single-scan checks: C08-m9 (Issue.as_dict memoised: a YAML report written before a JSON
report of the same results leaks its in-place edits), C18-m9 (a call index cached on the shared blacklist function by the first, restricted, scan),
C19-m10 (B613 read linecache, which still held the text of the previous version of the path), C13-m10 (plugin defaults generated once per process)."""
import json, os, re, subprocess, sys, hashlib
from concurrent.futures import ThreadPoolExecutor

FORMATS = ["json", "yaml", "csv", "xml", "sarif"]

# versions of three files; consecutive versions differ in what the state-carrying mechanisms key on: bidi characters appear and disappear, the first
# finding of a rule changes confidence / severity, calls of blacklisted names come and go
VERSIONS = {
    "a.py": ["import pickle\nimport subprocess\ndata = pickle.loads(blob)\nsubprocess.Popen(cmd, shell=True)\n",
             "import pickle\nimport subprocess\n# note ‮ hidden ⁦ text ⁩\ndata = pickle.loads(blob)\nsubprocess.Popen('ls', shell=True)\nimport marshal\nmarshal.loads(b)\n",
             "import subprocess\nsubprocess.Popen('ls', shell=True)\ntmp = '/tmp/x'\nscratch = '/scratch/y'\n"],
    "b.py": ["q = 'SELECT a FROM t WHERE b = %s' % x\ncur.execute('UPDATE t SET c = ' + y)\n",
             "cur.execute('SELECT a FROM t WHERE b = %s' % x)\nq = 'DELETE FROM t WHERE c = ' + y\nimport telnetlib\ntelnetlib.Telnet(h)\n",
             "s = 'plain'  # ⁧ isolate\nimport hashlib\nhashlib.md5(d)\nhashlib.new('sha1')\neval(e)\n"],
    "c.py": ["try:\n    f()\nexcept Exception:\n    pass\nassert x\nexec(c)\n",
             "try:\n    f()\nexcept ValueError:\n    pass\nimport random\nrandom.random()\nimport yaml\nyaml.load(s)\n",
             "x = 1\n",
             # not valid Python 3: skipped — the report of such a scan (its metrics block too) is that of a scan that found nothing (seeded change C08-m14 shared
             # one totals dict between all Metrics objects of the process)
             "print 'python 2'\nimport pickle\n"],
    # two texts of one layout that differ only in what flows into mark_safe: whatever is remembered about one must not be looked up for the other (seeded change
    # C08-m13 cached B703 verdicts per (scope name, scope line, variable, line) for the whole process — without the file)
    "d.py": ["from django.utils.safestring import mark_safe\n\n\ndef render(request):\n    label = '<b>static</b>'\n    return mark_safe(label)\n",
             "from django.utils.safestring import mark_safe\n\n\ndef render(request):\n    label = request.GET['q']\n    return mark_safe(label)\n",
             "from django.utils.safestring import mark_safe\n\n\ndef render(request):\n    label = '<i>%s</i>' % request.user\n    return mark_safe(label)\n"],
    "e.py": ["from django.utils.safestring import mark_safe\n\n\ndef render(request):\n    label = request.GET['q']\n    return mark_safe(label)\n",
             "from django.utils.safestring import mark_safe\n\n\ndef render(request):\n    label = '<b>static</b>'\n    return mark_safe(label)\n"],
}
PROFILES = {"all": {}, "only_B301": {"include": ["B301"]}, "no_B403_B404": {"exclude": ["B403", "B404"]}, "only_B613_B608": {"include": ["B613", "B608"]},
            "bl_subset": {"include": ["B302", "B312", "B324", "B602"]}}
CONFIGS = {"none": None, "custom": {"hardcoded_tmp_directory": {"tmp_dirs": ["/scratch"]}, "try_except_pass": {"check_typed_exception": True}}}

_REF_SCRIPT = r"""
import sys, json, os
sys.path[:0] = %(path)r
from bandit.core import config as b_config, manager as b_manager
spec = json.load(open(sys.argv[1]))
prof = {k: set(v) for k, v in spec["profile"].items()}
m = b_manager.BanditManager(b_config.BanditConfig(spec["config"]), "file", profile=prof)
m.discover_files([spec["file"]]); m.run_tests()
out = {"findings": sorted([r.test_id, r.severity, r.confidence, r.lineno, list(r.linerange), r.col_offset, r.text] for r in m.results), "reports": {}}
for fmt in spec["formats"]:
    p = sys.argv[1] + ".ref." + fmt
    try:
        m2 = b_manager.BanditManager(b_config.BanditConfig(spec["config"]), "file", profile=prof)
        m2.discover_files([spec["file"]]); m2.run_tests()
        m2.output_results(3, "LOW", "LOW", open(p, "w", encoding="utf-8"), fmt)
        out["reports"][fmt] = open(p, encoding="utf-8").read()
    except Exception as e:
        out["reports"][fmt] = "ERROR %%s" %% e
json.dump(out, sys.stdout)
"""


def strip_volatile(fmt, text):
    if fmt == "json":
        return re.sub(r'"generated_at": "[^"]*"', '"generated_at": ""', text)
    if fmt == "yaml":
        return re.sub(r"generated_at: .*", "generated_at:", text)
    if fmt == "sarif":
        return re.sub(r'"endTimeUtc": "[^"]*"', '"endTimeUtc": ""', text)
    return text


def fixed_histories():
    """histories every run includes: the minimal sequences behind the state-carrying changes seen so far"""
    st = lambda f, v, p="all", c="none", fm=("json",): {"file": f, "version": v, "profile": p, "config": c, "formats": list(fm)}
    return [
        [st("a.py", 0), st("c.py", 3, fm=("json", "yaml")), st("c.py", 2, fm=("json",)), st("a.py", 1, fm=("yaml", "json"))],            # findings, then a skipped file: totals start from zero
        [st("d.py", 0), st("e.py", 0), st("d.py", 1), st("e.py", 1)],                                                                 # same layout, different data flow
        [st("a.py", 0, p="only_B301"), st("b.py", 1), st("a.py", 1, p="bl_subset"), st("a.py", 1)],                                   # narrow selection first
        [st("a.py", 2, c="custom"), st("a.py", 2), st("c.py", 0, c="custom"), st("c.py", 0)],                                         # settings, then defaults
        [st("b.py", 0, fm=("yaml", "json", "csv", "csv")), st("b.py", 1, fm=("csv", "json"))],                                        # several reports from one scanner
    ]


def gen_history(rng, nsteps, files=None, profiles=None, configs=None, formats=None):
    files = files or sorted(VERSIONS)
    profiles = profiles or sorted(PROFILES)
    configs = configs or sorted(CONFIGS)
    formats = formats or FORMATS
    h = []
    cur = {f: 0 for f in files}
    for _ in range(nsteps):
        f = rng.choice(files)
        if rng.random() < 0.55:
            cur[f] = rng.choice([v for v in range(len(VERSIONS[f])) if v != cur[f]])
        k = rng.choice([0, 1, 2, 2, 3])
        h.append({"file": f, "version": cur[f], "profile": rng.choice(profiles), "config": rng.choice(configs), "formats": [rng.choice(formats) for _ in range(k)]})
    return h


def run(res, ctx, C, scratch, rng, n_histories, nsteps, formats=None, sarif=True, tag="history", histories=None):
    """-> number of observations compared.  Violations are recorded on `res` with a replayable history."""
    from bandit.core import config as b_config, manager as b_manager
    import yaml, linecache
    fmts = [f for f in (formats or FORMATS) if f != "sarif" or sarif]
    hdir = os.path.join(scratch.root, "histories")
    os.makedirs(hdir, exist_ok=True)
    cfgfiles = {}
    for k, v in CONFIGS.items():
        cfgfiles[k] = None
        if v is not None:
            cfgfiles[k] = os.path.join(hdir, k + ".yaml")
            with open(cfgfiles[k], "w") as fh:
                yaml.safe_dump(v, fh)
    hs = histories or (fixed_histories() + [gen_history(rng, nsteps, formats=fmts) for _ in range(n_histories)])
    # ---- references from pristine interpreters, one per distinct (file, version, profile, config)
    keys = {}
    for h in hs:
        for st in h:
            k = (st["file"], st["version"], st["profile"], st["config"])
            keys.setdefault(k, set()).update(st["formats"])
    refdir = os.path.join(hdir, "ref")
    os.makedirs(refdir, exist_ok=True)
    script = os.path.join(hdir, "ref_scan.py")
    with open(script, "w") as fh:
        fh.write(_REF_SCRIPT % {"path": [os.environ["PYTHONPATH"].split(os.pathsep)[0], C.REPO]})

    def pristine(item):
        (f, v, p, c), fs = item
        d = os.path.join(refdir, hashlib.sha1(repr((f, v, p, c)).encode()).hexdigest()[:12])
        os.makedirs(d, exist_ok=True)
        # the reference scans the file under the SAME path the history uses (reports quote the path), one directory per key is not possible: so the
        # reference file lives at the history's path and references are computed before any history runs
        return (f, v, p, c), d, fs
    work = [pristine(it) for it in keys.items()]
    refs = {}
    # all references for one path must be computed while that path holds that version: group by (file, version)
    by_fv = {}
    for key, d, fs in work:
        by_fv.setdefault((key[0], key[1]), []).append((key, fs))
    for (f, v), items in sorted(by_fv.items()):
        path = os.path.join(hdir, f)
        with open(path, "w", encoding="utf-8") as fh:
            fh.write(VERSIONS[f][v])

        def one(it):
            key, fs = it
            spec = {"file": path, "profile": PROFILES[key[2]], "config": cfgfiles[key[3]], "formats": sorted(fs)}
            sp = os.path.join(refdir, hashlib.sha1(repr(key).encode()).hexdigest()[:12] + ".json")
            with open(sp, "w") as fh:
                json.dump(spec, fh)
            p = subprocess.run([sys.executable, script, sp], capture_output=True, text=True, timeout=300, env=dict(os.environ, PYTHONHASHSEED="0"))
            try:
                return key, json.loads(p.stdout)
            except ValueError:
                return key, {"error": p.stderr[-400:]}
        with ThreadPoolExecutor(8) as ex:
            for key, out in ex.map(one, items):
                refs[key] = out
    n_obs = 0
    for hi, h in enumerate(hs):
        for si, st in enumerate(h):
            key = (st["file"], st["version"], st["profile"], st["config"])
            ref = refs.get(key)
            if ref is None or "error" in ref:
                res.break_("history:reference-scan-failed", {"step": st, "error": (ref or {}).get("error")})
                continue
            path = os.path.join(hdir, st["file"])
            with open(path, "w", encoding="utf-8") as fh:
                fh.write(VERSIONS[st["file"]][st["version"]])
            C.take_log()
            try:
                m = b_manager.BanditManager(b_config.BanditConfig(cfgfiles[st["config"]]), "file", profile={k: set(v) for k, v in PROFILES[st["profile"]].items()})
                m.discover_files([path]); m.run_tests()
            except Exception as e:
                res.violation("a scan that succeeds in a fresh interpreter raised after other scans in the same process", {"history": h[:si + 1], "exception": "%s: %s" % (type(e).__name__, e)})
                continue
            C.take_log()
            got = sorted([r.test_id, r.severity, r.confidence, r.lineno, list(r.linerange), r.col_offset, r.text] for r in m.results)
            n_obs += 1
            res.case((tag, hi, si, "findings"), bool(ref["findings"]))
            res.count(tag + ":scan")
            replay = {"history (each step: write this version of the file, construct a manager with this profile and configuration, scan, write these reports)": h[:si + 1],
                      "versions": {f: VERSIONS[f] for f in sorted({s["file"] for s in h[:si + 1]})}, "profiles": PROFILES, "configs": CONFIGS}
            if got != ref["findings"]:
                res.violation("a file's findings depend on what was scanned, constructed or reported earlier in the same process (they differ from a fresh interpreter's)",
                              dict(replay, step=si, in_this_process=got, fresh_interpreter=ref["findings"]))
                continue
            for fmt in st["formats"]:
                outp = os.path.join(hdir, "report.out")
                try:
                    m.output_results(3, "LOW", "LOW", open(outp, "w", encoding="utf-8"), fmt)
                    text = open(outp, encoding="utf-8").read()
                except Exception as e:
                    text = "ERROR %s" % e
                want = ref["reports"].get(fmt)
                n_obs += 1
                res.case((tag, hi, si, fmt, st["formats"].index(fmt)), True)
                res.count(tag + ":report:" + fmt)
                if want is None:
                    continue
                a, b = strip_volatile(fmt, text), strip_volatile(fmt, want)
                if a != b:
                    i = next((j for j in range(min(len(a), len(b))) if a[j] != b[j]), 0)
                    res.violation("a report depends on which scans / reports came earlier in the same process (it differs from the report a fresh interpreter writes)",
                                  dict(replay, step=si, format=fmt, reports_written_by_this_manager_before=st["formats"][:st["formats"].index(fmt)],
                                       first_difference_at=i, in_this_process=a[max(0, i - 150):i + 150], fresh_interpreter=b[max(0, i - 150):i + 150]))
                    break
    res.extra[tag + "_observations"] = res.extra.get(tag + "_observations", 0) + n_obs
    return n_obs
