"""Metamorphic corpus: bandit's own example files (they exist to trigger each check, with realistic argument shapes) put through seeded
AST transformations, so that model and implementation are compared on the *neighbourhood* of every construct the checks key on rather
than on the construct alone.

Why: the template generators of the per-family harnesses vary one dimension around one call.  The seeded changes they missed needed an
ordinary construct in an unusual *form*: an `async def` docstring (C16-m8), a default carried by a positional-only parameter (C15-m7), a
callee reached through a submodule (C17-m8) or called by a bare / derived name (C06-m8), a list where a name is expected (C06-m7), an
import bound inside a function (C01-m7).  Every transformation below produces valid Python from valid Python; nothing is assumed about
the meaning of the result — the oracle is the Lean model (correspondence) and, for C06, "no check raises".

Every random choice comes from the rng passed in.  `corpus(rng, n)` -> list of (source, seed name, [transformation labels])."""
import ast, copy, glob, os

EXPR_POOL = ["'lit'", "b'by'", "b'\\\\'", "b'share\\\\'", "b'\\\\u'", "b'/tmp/\\\\x'", "0", "1", "1024", "2047", "0o777", "0o644", "2.5", "3j", "1024j", "-1", "[]", "['a', 'b']", "[x, 1]", "()", "('a',)", "{1, 2}", "{}", "{'k': 'v'}", "{**d}", "name",
             "obj.attr", "mod.sub.attr", "call()", "obj.m(1)", "'a' + b", "'a %s' % b", "f'{x}'", "'{}'.format(x)", "None", "True", "False", "...", "lambda: 0",
             "[i for i in y]", "(x if c else y)", "not x", "a[0]", "a.b(t)", "(w_ := 3)", "'/tmp/x'", "'0.0.0.0'", "''", "'SELECT * FROM t WHERE a = %s' % v", "ssl.PROTOCOL_SSLv3",
             "['METHOD_MD5']", "{'a': 1}", "'md5'", "'sha256'", "yaml.SafeLoader", "x.y.z()", "-(1)", "1 << 10", "'*'", "'ls *'", "[1][0]", "(yield_)", "await_"]
KW_POOL = ["shell", "verify", "timeout", "usedforsecurity", "name", "key_size", "bits", "curve", "ssl_version", "method", "Loader", "weights_only", "members", "filter",
           "autoescape", "debug", "mpModel", "sql", "select", "where", "params", "tables", "order_by", "password", "token", "mode", "salt", "authKey", "privKey", "safe", "check_hostname"]
DOC_POOL = ["/tmp/scratch", "0.0.0.0", "/var/tmp", "SELECT * FROM users WHERE id = %s", "password", "/dev/shm/x", "delete from t where x"]
NAME_AFFIXES = [("", "_tree"), ("my_", ""), ("", "2"), ("_", ""), ("do_", "_all")]


def _e(src):
    return ast.parse(src, mode="eval").body


def seeds(repo):
    out = []
    for f in sorted(glob.glob(os.path.join(repo, "examples", "*.py"))):
        try:
            data = open(f, "rb").read()
            src = data.decode("utf-8")
            ast.parse(src)
        except (SyntaxError, UnicodeDecodeError, ValueError):
            continue
        if len(src) < 8000:
            out.append((os.path.basename(f), src))
    return out


def _dotted(node):
    """'a.b.c' for a Name/Attribute chain, else None"""
    parts = []
    while isinstance(node, ast.Attribute):
        parts.append(node.attr)
        node = node.value
    if isinstance(node, ast.Name):
        parts.append(node.id)
        return ".".join(reversed(parts))
    return None


def _mk_dotted(s):
    parts = s.split(".")
    n = ast.Name(id=parts[0], ctx=ast.Load())
    for p in parts[1:]:
        n = ast.Attribute(value=n, attr=p, ctx=ast.Load())
    return n


class _Replace(ast.NodeTransformer):
    """replace every Load-expression whose dotted name starts with `old` (component-wise) by the same chain rooted in `new`"""
    def __init__(self, old, new):
        self.old, self.new = old, new

    def _try(self, node):
        d = _dotted(node)
        if d is not None and isinstance(getattr(node, "ctx", None), ast.Load) and (d == self.old or d.startswith(self.old + ".")):
            rest = d[len(self.old):]
            return ast.copy_location(_mk_dotted(self.new + rest), node)
        return None

    def visit_Attribute(self, node):
        r = self._try(node)
        if r is not None:
            return r
        return self.generic_visit(node)

    def visit_Name(self, node):
        r = self._try(node)
        return r if r is not None else node


def _stmt_lists(tree):
    out = []
    for n in ast.walk(tree):
        for f in ("body", "orelse", "finalbody"):
            v = getattr(n, f, None)
            if isinstance(v, list) and v and isinstance(v[0], ast.stmt):
                out.append((n, f, v))
    return out


def _in_loop_handlers(tree):
    out = []
    def go(n, in_loop):
        for c in ast.iter_child_nodes(n):
            il = in_loop
            if isinstance(c, (ast.For, ast.While, ast.AsyncFor)):
                il = True
            elif isinstance(c, (ast.FunctionDef, ast.AsyncFunctionDef, ast.ClassDef, ast.Lambda)):
                il = False
            if isinstance(c, ast.ExceptHandler):
                out.append((c, il))
            go(c, il)
    go(tree, False)
    return out


class Transformer:
    def __init__(self, rng, extra_exprs=()):
        self.r = rng
        self.k = 0
        self.extra = list(extra_exprs)

    def fresh(self, p="v"):
        self.k += 1
        return f"{p}{self.k}_"

    def pool(self):
        if self.extra and self.r.random() < 0.35:       # literals of changed lines (harness/diffhints.py): empty on the recorded tree
            try:
                return _e(self.r.choice(self.extra))
            except SyntaxError:
                pass
        return _e(self.r.choice(EXPR_POOL))

    # each t_* returns a label or None (not applicable)
    def t_async_toggle(self, tree):
        c = [n for n in ast.walk(tree) if isinstance(n, (ast.FunctionDef, ast.AsyncFunctionDef, ast.For, ast.With))]
        if not c:
            return None
        n = self.r.choice(c)
        new = {ast.FunctionDef: ast.AsyncFunctionDef, ast.AsyncFunctionDef: ast.FunctionDef, ast.For: ast.AsyncFor, ast.With: ast.AsyncWith}[type(n)]
        n.__class__ = new
        return "async_toggle:" + new.__name__

    def t_posonly_shift(self, tree):
        c = [n for n in ast.walk(tree) if isinstance(n, (ast.FunctionDef, ast.AsyncFunctionDef, ast.Lambda)) and n.args.args]
        if not c:
            return None
        n = self.r.choice(c)
        k = self.r.randint(1, len(n.args.args))
        n.args.posonlyargs = n.args.posonlyargs + n.args.args[:k]
        n.args.args = n.args.args[k:]
        return "posonly_shift"

    def t_kwonly_shift(self, tree):
        c = [n for n in ast.walk(tree) if isinstance(n, (ast.FunctionDef, ast.AsyncFunctionDef, ast.Lambda)) and n.args.args and not n.args.vararg]
        if not c:
            return None
        n = self.r.choice(c)
        a = n.args
        k = self.r.randint(1, len(a.args))
        moved = a.args[-k:]
        nd = len(a.defaults)
        defs = []
        for i, arg in enumerate(moved):
            idx_from_end = k - i            # this arg is idx_from_end-th from the end
            defs.append(a.defaults[nd - idx_from_end] if idx_from_end <= nd else None)
        a.args = a.args[:-k]
        a.defaults = a.defaults[: max(0, nd - k)]
        a.kwonlyargs = moved + a.kwonlyargs
        a.kw_defaults = defs + a.kw_defaults
        return "kwonly_shift"

    def t_add_param_default(self, tree):
        c = [n for n in ast.walk(tree) if isinstance(n, (ast.FunctionDef, ast.AsyncFunctionDef))]
        if not c:
            return None
        n = self.r.choice(c)
        nm = self.r.choice(["password", "token", "secret", "pwd", "host", "path", "version", "use_token", "max_pass", "q"])
        val = self.r.choice([self.pool(), _e("'hunter2'"), _e("False"), _e("0"), _e("b'abc'"), _e("ssl.PROTOCOL_TLSv1"), _e("'/tmp/f'"), _e("'0.0.0.0'"), _e("None"), _e("1.5")])
        where = self.r.choice(["posonly", "args", "kwonly"])
        a = n.args
        if where == "kwonly":
            a.kwonlyargs.append(ast.arg(arg=nm + self.fresh("")))
            a.kw_defaults.append(val)
        elif where == "args":
            a.args.append(ast.arg(arg=nm + self.fresh("")))
            a.defaults.append(val)
        else:
            # a positional-only parameter with a default: everything after it must have a default too
            if len(a.defaults) < len(a.args):
                missing = len(a.args) - len(a.defaults)
                a.defaults = [_e("None") for _ in range(missing)] + a.defaults
            a.posonlyargs.append(ast.arg(arg=nm + self.fresh("")))
            a.defaults.insert(max(0, len(a.defaults) - len(a.args)), val)
        return "add_param_default:" + where

    def _imports(self, tree):
        return [n for n in ast.walk(tree) if isinstance(n, (ast.Import, ast.ImportFrom))]

    def t_import_alias(self, tree):
        c = [(n, a) for n in self._imports(tree) if isinstance(n, ast.Import) for a in n.names if a.asname is None]
        if not c:
            return None
        n, a = self.r.choice(c)
        al = self.fresh("al")
        a.asname = al
        _Replace(a.name, al).visit(tree)
        return "import_alias"

    def t_import_to_from(self, tree):
        c = [(n, a) for n in self._imports(tree) if isinstance(n, ast.Import) and len(n.names) == 1 for a in n.names if a.asname is None]
        if not c:
            return None
        n, a = self.r.choice(c)
        if "." in a.name:
            p, m = a.name.rsplit(".", 1)
            new = ast.ImportFrom(module=p, names=[ast.alias(name=m, asname=None)], level=0)
            _Replace(a.name, m).visit(tree)
        else:
            used = sorted({x.attr for x in ast.walk(tree) if isinstance(x, ast.Attribute) and isinstance(x.value, ast.Name) and x.value.id == a.name})
            if not used:
                return None
            new = ast.ImportFrom(module=a.name, names=[ast.alias(name=u, asname=None) for u in used], level=0)
            for u in used:
                _Replace(a.name + "." + u, u).visit(tree)
        for par, f, lst in _stmt_lists(tree):
            for i, s in enumerate(lst):
                if s is n:
                    lst[i] = ast.copy_location(new, n)
        return "import_to_from"

    def t_from_to_import(self, tree):
        c = [n for n in self._imports(tree) if isinstance(n, ast.ImportFrom) and n.level == 0 and n.module and all(a.name != "*" for a in n.names)]
        if not c:
            return None
        n = self.r.choice(c)
        for a in n.names:
            _Replace(a.asname or a.name, n.module + "." + a.name).visit(tree)
        new = ast.Import(names=[ast.alias(name=n.module, asname=None)])
        for par, f, lst in _stmt_lists(tree):
            for i, s in enumerate(lst):
                if s is n:
                    lst[i] = ast.copy_location(new, n)
        return "from_to_import"

    def t_from_submodule(self, tree):
        c = [n for n in self._imports(tree) if isinstance(n, ast.ImportFrom) and n.level == 0 and n.module]
        if not c:
            return None
        n = self.r.choice(c)
        k = self.r.randrange(3)
        if k == 0:
            n.module = n.module + "." + self.r.choice(["environment", "sub", "impl", "core", n.module.split(".")[-1].lower()])
        elif k == 1 and "." in n.module:
            n.module = n.module.rsplit(".", 1)[0]
        else:
            n.module = self.r.choice(["vendored", "six.moves", "compat"]) + "." + n.module
        return "from_submodule"

    def t_import_from_as(self, tree):
        c = [(n, a) for n in self._imports(tree) if isinstance(n, ast.ImportFrom) for a in n.names if a.asname is None and a.name != "*"]
        if not c:
            return None
        n, a = self.r.choice(c)
        al = self.fresh("fn")
        a.asname = al
        _Replace(a.name, al).visit(tree)
        return "import_from_as"

    def t_import_into_scope(self, tree):
        """move a module-level import into a new function together with everything below it"""
        body = tree.body
        idx = [i for i, s in enumerate(body) if isinstance(s, (ast.Import, ast.ImportFrom)) and i + 1 < len(body)]
        if not idx:
            return None
        i = self.r.choice(idx)
        rest = body[i:]
        filler = self.r.choice([None, "class", "def", "class_method"])
        inner = [rest[0]]
        if filler == "class":
            inner.append(ast.parse("class Between_:\n    pass\n").body[0])
        elif filler == "def":
            inner.append(ast.parse("def between_(v):\n    return v\n").body[0])
        elif filler == "class_method":
            nm = (rest[0].names[0].asname or rest[0].names[0].name).split(".")[0]
            inner.append(ast.parse(f"class Between_:\n    def {nm if nm != '*' else 'm'}(self):\n        return 1\n").body[0])
        inner += rest[1:]
        kind = self.r.choice(["def", "async def", "class", "if", "try"])
        wrap = ast.parse({"def": "def scope_():\n    pass\n", "async def": "async def scope_():\n    pass\n", "class": "class Scope_:\n    pass\n", "if": "if cond_:\n    pass\n",
                          "try": "try:\n    pass\nexcept ImportError:\n    raise\n"}[kind]).body[0]
        wrap.body = inner
        tree.body = body[:i] + [wrap]
        return f"import_into_scope:{kind}:{filler}"

    def _calls(self, tree):
        return [n for n in ast.walk(tree) if isinstance(n, ast.Call)]

    def t_callee_shape(self, tree):
        c = self._calls(tree)
        if not c:
            return None
        n = self.r.choice(c)
        k = self.r.randrange(7)
        f = n.func
        if k == 0 and isinstance(f, ast.Attribute):
            n.func = ast.Name(id=f.attr, ctx=ast.Load())
            return "callee:bare"
        if k == 1:
            last = f.attr if isinstance(f, ast.Attribute) else (f.id if isinstance(f, ast.Name) else None)
            if last is None:
                return None
            pre, suf = self.r.choice(NAME_AFFIXES)
            n.func = ast.Name(id=pre + last + suf, ctx=ast.Load())
            return "callee:bare_affixed"
        if k == 2:
            d = _dotted(f)
            if d is None:
                return None
            n.func = _mk_dotted("obj_." + d)
            return "callee:obj_prefixed"
        if k == 3 and isinstance(f, ast.Attribute):
            f.value = ast.Call(func=f.value, args=[], keywords=[])
            return "callee:receiver_called"
        if k == 4 and isinstance(f, ast.Attribute):
            f.value = ast.Subscript(value=f.value, slice=_e("0"), ctx=ast.Load())
            return "callee:receiver_subscripted"
        if k == 5 and isinstance(f, ast.Attribute):
            pre, suf = self.r.choice(NAME_AFFIXES)
            f.attr = pre + f.attr + suf
            return "callee:attr_affixed"
        if k == 6 and isinstance(f, ast.Attribute):
            f.attr = f.attr.swapcase()
            return "callee:attr_case"
        return None

    def t_arg_replace(self, tree):
        c = [n for n in self._calls(tree) if n.args or n.keywords]
        if not c:
            return None
        n = self.r.choice(c)
        slots = [("a", i) for i in range(len(n.args))] + [("k", i) for i in range(len(n.keywords))]
        kind, i = self.r.choice(slots)
        v = self.pool()
        if kind == "a":
            n.args[i] = v
        else:
            n.keywords[i].value = v
        return "arg_replace:" + type(v).__name__

    def t_arg_drop(self, tree):
        c = [n for n in self._calls(tree) if n.args or n.keywords]
        if not c:
            return None
        n = self.r.choice(c)
        if n.args and (not n.keywords or self.r.random() < 0.6):
            del n.args[self.r.randrange(len(n.args))]
            return "arg_drop:positional"
        del n.keywords[self.r.randrange(len(n.keywords))]
        return "arg_drop:keyword"

    def t_arg_insert(self, tree):
        c = self._calls(tree)
        if not c:
            return None
        n = self.r.choice(c)
        if self.r.random() < 0.5:
            n.args.insert(self.r.randint(0, len(n.args)), self.pool())
            return "arg_insert:positional"
        have = {k.arg for k in n.keywords}
        kw = self.r.choice([k for k in KW_POOL if k not in have])
        n.keywords.append(ast.keyword(arg=kw, value=self.pool()))
        return "arg_insert:keyword"

    def t_arg_pos_kw(self, tree):
        c = [n for n in self._calls(tree) if n.args or any(k.arg for k in n.keywords)]
        if not c:
            return None
        n = self.r.choice(c)
        kws = [k for k in n.keywords if k.arg]
        if n.args and not isinstance(n.args[-1], ast.Starred) and (not kws or self.r.random() < 0.5):
            have = {k.arg for k in n.keywords}
            v = n.args.pop()
            n.keywords.append(ast.keyword(arg=self.r.choice([k for k in KW_POOL if k not in have]), value=v))
            return "arg:pos_to_kw"
        if kws:
            k = self.r.choice(kws)
            n.keywords.remove(k)
            if any(isinstance(a, ast.Starred) for a in n.args):
                return None
            n.args.append(k.value)
            return "arg:kw_to_pos"
        return None

    def t_kw_unpack(self, tree):
        c = [n for n in self._calls(tree) if any(k.arg for k in n.keywords)]
        if not c:
            return None
        n = self.r.choice(c)
        named = [k for k in n.keywords if k.arg]
        n.keywords = [k for k in n.keywords if not k.arg] + [ast.keyword(arg=None, value=ast.Dict(keys=[ast.Constant(value=k.arg) for k in named], values=[k.value for k in named]))]
        return "kw_unpack"

    def t_kw_star_first(self, tree):
        """a `**mapping` expansion in FRONT of (or between) the named keywords: valid since PEP 448, and the named keywords after it count as before (seeded changes
        C15-m18 / C16-m17 stopped reading keywords at the first expansion)"""
        c = [n for n in self._calls(tree) if any(k.arg for k in n.keywords)]
        if not c:
            return None
        n = self.r.choice(c)
        pos = self.r.randint(0, max(0, len(n.keywords) - 1))
        n.keywords.insert(pos, ast.keyword(arg=None, value=ast.Name(id="opts_", ctx=ast.Load())))
        return "kw_star_first"

    def t_kw_rename(self, tree):
        c = [n for n in self._calls(tree) if any(k.arg for k in n.keywords)]
        if not c:
            return None
        n = self.r.choice(c)
        k = self.r.choice([k for k in n.keywords if k.arg])
        have = {x.arg for x in n.keywords}
        k.arg = self.r.choice([x for x in KW_POOL if x not in have] + [k.arg + "_", k.arg.upper()])
        return "kw_rename"

    def t_wrap_stmt(self, tree):
        lists = _stmt_lists(tree)
        if not lists:
            return None
        par, f, lst = self.r.choice(lists)
        i = self.r.randrange(len(lst))
        s = lst[i]
        kind = self.r.choice(["def", "async def", "class", "if", "else", "try", "except", "finally", "with", "for", "while", "method", "match"])
        tmpl = {"def": "def w_():\n    pass\n", "async def": "async def w_():\n    pass\n", "class": "class W_:\n    pass\n", "if": "if c_:\n    pass\n",
                "else": "if c_:\n    pass\nelse:\n    pass\n", "try": "try:\n    pass\nexcept E_:\n    raise\n", "except": "try:\n    pass\nexcept E_ as e_:\n    pass\n",
                "finally": "try:\n    pass\nfinally:\n    pass\n", "with": "with c_() as h_:\n    pass\n", "for": "for i_ in s_:\n    pass\n", "while": "while c_:\n    pass\n",
                "method": "class W_:\n    def m_(self):\n        pass\n", "match": "match s_:\n    case 1:\n        pass\n"}[kind]
        w = ast.parse(tmpl).body[0]
        if kind == "else":
            w.orelse = [s]
        elif kind == "except":
            w.handlers[0].body = [s]
        elif kind == "finally":
            w.finalbody = [s]
        elif kind == "method":
            w.body[0].body = [s]
        elif kind == "match":
            w.cases[0].body = [s]
        else:
            w.body = [s]
        lst[i] = w
        return "wrap_stmt:" + kind

    def t_expr_context(self, tree):
        """move the value of an expression statement / assignment into another expression position"""
        c = [(lst, i) for _, _, lst in _stmt_lists(tree) for i, s in enumerate(lst) if isinstance(s, ast.Expr) and isinstance(s.value, ast.Call)]
        if not c:
            return None
        lst, i = self.r.choice(c)
        v = lst[i].value
        kind = self.r.choice(["decorator", "default", "kwdefault", "lambda", "listcomp", "fstring", "with", "await", "ifexp", "dictval", "subscript", "walrus", "starred", "return_ann",
                              "assert", "return", "yield", "cond", "augassign", "del_sub", "raise", "keyword", "class_base", "class_kw", "comp_iter", "comp_cond", "boolop", "compare"])
        tm = {"decorator": "@H_\ndef g_():\n    pass\n", "default": "def g_(a=H_):\n    pass\n", "kwdefault": "def g_(*, a=H_):\n    pass\n", "lambda": "h_ = lambda: H_\n",
              "listcomp": "y_ = [H_ for _ in range(3)]\n", "fstring": "s_ = f'{H_}'\n", "with": "with H_ as h_:\n    pass\n", "await": "async def co_():\n    await H_\n",
              "ifexp": "z_ = 1 if H_ else 2\n", "dictval": "d_ = {'k': H_}\n", "subscript": "d_ = q_[H_]\n", "walrus": "if (w_ := H_):\n    pass\n", "starred": "print(*H_)\n",
              "return_ann": "def g_() -> H_:\n    pass\n", "assert": "assert H_, 'm'\n", "return": "def g_():\n    return H_\n", "yield": "def g_():\n    yield H_\n",
              "cond": "while H_:\n    break\n", "augassign": "t_ += H_\n", "del_sub": "del d_[H_]\n", "raise": "raise E_(H_)\n", "keyword": "f_(k=H_)\n", "class_base": "class K_(H_):\n    pass\n",
              "class_kw": "class K_(metaclass=H_):\n    pass\n", "comp_iter": "y_ = [i_ for i_ in H_]\n", "comp_cond": "y_ = [i_ for i_ in s_ if H_]\n", "boolop": "b_ = a_ and H_ or c_\n",
              "compare": "if H_ == 'x':\n    pass\n"}[kind]
        w = ast.parse(tm).body[0]

        class Sub(ast.NodeTransformer):
            def visit_Name(self, node):
                return v if node.id == "H_" else node
        lst[i] = Sub().visit(w)
        return "expr_context:" + kind

    def t_str_variant(self, tree):
        c = []
        for n in ast.walk(tree):
            for f, val in ast.iter_fields(n):
                if isinstance(n, ast.JoinedStr) or isinstance(n, ast.Expr):
                    continue
                if isinstance(val, ast.Constant) and isinstance(val.value, str):
                    c.append((n, f, None))
                elif isinstance(val, list):
                    for i, x in enumerate(val):
                        if isinstance(x, ast.Constant) and isinstance(x.value, str) and not isinstance(n, (ast.JoinedStr, ast.Dict)) :
                            c.append((n, f, i))
        c = [x for x in c if not isinstance(x[0], (ast.MatchValue, ast.MatchMapping, ast.FormattedValue, ast.TypeAlias))]
        if not c:
            return None
        n, f, i = self.r.choice(c)
        old = getattr(n, f) if i is None else getattr(n, f)[i]
        s = old.value
        k = self.r.randrange(9)
        if k == 0:
            try:
                new = ast.Constant(value=s.encode("ascii"))
            except UnicodeEncodeError:
                return None
            lab = "bytes"
        elif k == 1:
            new = ast.JoinedStr(values=[ast.Constant(value=s), ast.FormattedValue(value=ast.Name(id="v_", ctx=ast.Load()), conversion=-1)])
            lab = "fstring"
        elif k == 2:
            new = ast.BinOp(left=ast.Constant(value=s), op=ast.Add(), right=ast.Name(id="v_", ctx=ast.Load()))
            lab = "concat"
        elif k == 3:
            new = ast.BinOp(left=ast.Constant(value=s + " %s"), op=ast.Mod(), right=ast.Name(id="v_", ctx=ast.Load()))
            lab = "percent"
        elif k == 4:
            new = ast.Call(func=ast.Attribute(value=ast.Constant(value=s + "{}"), attr="format", ctx=ast.Load()), args=[ast.Name(id="v_", ctx=ast.Load())], keywords=[])
            lab = "format"
        elif k == 5:
            new = ast.Constant(value=s.swapcase())
            lab = "case"
        elif k == 6:
            new = ast.Constant(value=" " + s)
            lab = "leading_blank"
        elif k == 7:
            new = ast.Constant(value=s + self.r.choice(["x", "/", " ", ".0", "\n"]))
            lab = "suffix"
        else:
            new = ast.Constant(value=self.r.choice(DOC_POOL + ["", "md5", "SHA1", "0.0.0.0", "/tmp", "*", "ls *", "True"]))
            lab = "other_string"
        if i is None:
            setattr(n, f, new)
        else:
            getattr(n, f)[i] = new
        return "str_variant:" + lab

    def t_num_variant(self, tree):
        c = [n for n in ast.walk(tree) if isinstance(n, ast.Constant) and type(n.value) is int]
        if not c:
            return None
        n = self.r.choice(c)
        v = n.value
        n.value = self.r.choice([v - 1, v + 1, 0, 1, 2 * v, v // 2, -v, 0o777, 0o755, 0o644, 0o20, 0o2, 0o10, 0o1, 0o700, 1023, 1024, 2047, 2048, 223, 224, 159, 160, 511, 512, 4096, 65537, 2.0 * v, 10**30])
        return "num_variant"

    def t_const_swap(self, tree):
        c = [k for n in self._calls(tree) for k in n.keywords if isinstance(k.value, ast.Constant) and (k.value.value is None or isinstance(k.value.value, (bool, int)))]
        if not c:
            return None
        k = self.r.choice(c)
        k.value = _e(self.r.choice(["True", "False", "None", "0", "1", "''", "[]", "()", "{}", "[0]", "name_", "not x_", "0.0", "'False'"]))
        return "const_swap"

    def t_target_variant(self, tree):
        c = [s for s in ast.walk(tree) if isinstance(s, ast.Assign) and len(s.targets) == 1 and isinstance(s.targets[0], ast.Name)]
        if not c:
            return None
        s = self.r.choice(c)
        nm = s.targets[0].id
        k = self.r.randrange(7)
        if k == 0:
            s.targets = [ast.Attribute(value=ast.Name(id="o_", ctx=ast.Load()), attr=nm, ctx=ast.Store())]
            return "target:attribute"
        if k == 1:
            s.targets = [ast.Subscript(value=ast.Name(id="d_", ctx=ast.Load()), slice=ast.Constant(value=nm), ctx=ast.Store())]
            return "target:subscript"
        if k == 2:
            s.targets = [ast.Tuple(elts=[ast.Name(id=nm, ctx=ast.Store()), ast.Name(id="other_", ctx=ast.Store())], ctx=ast.Store())]
            s.value = ast.Tuple(elts=[s.value, _e("'second'")], ctx=ast.Load())
            return "target:tuple"
        if k == 3:
            s.targets = [ast.Name(id="first_", ctx=ast.Store()), ast.Name(id=nm, ctx=ast.Store())]
            return "target:chained"
        if k == 4:
            s.targets = [ast.Tuple(elts=[ast.Starred(value=ast.Name(id="rest_", ctx=ast.Store()), ctx=ast.Store()), ast.Name(id=nm, ctx=ast.Store())], ctx=ast.Store())]
            s.value = ast.Tuple(elts=[_e("'a'"), _e("'b'"), s.value], ctx=ast.Load())
            return "target:starred"
        if k == 5:
            s.targets = [ast.Name(id=self.r.choice(["password", "token", "secret_key", "pwd", "passwd", "x", "data"]), ctx=ast.Store())]
            return "target:renamed"
        # the same name twice in one target list, with another name between (found by tools/mutation: B703's tuple walk stopped / did not stop at the first match)
        s.targets = [ast.Tuple(elts=[ast.Name(id=nm, ctx=ast.Store()), ast.Name(id="other_", ctx=ast.Store()), ast.Name(id=nm, ctx=ast.Store())], ctx=ast.Store())]
        s.value = ast.Tuple(elts=[s.value, _e("'lit'"), _e("other_")] if self.r.random() < 0.5 else [_e("'lit'"), _e("other_"), s.value], ctx=ast.Load())
        return "target:duplicate_name"

    def t_handler_variant(self, tree):
        c = _in_loop_handlers(tree)
        if not c:
            return None
        h, in_loop = self.r.choice(c)
        k = self.r.randrange(8)
        if k == 0:
            h.type = None
            h.name = None
            return "handler:bare"
        if k == 1:
            h.type = _e("(KeyError, ValueError)")
            return "handler:tuple"
        if k == 2:
            h.type = _e("socket.error")
            return "handler:attribute"
        if k == 3:
            h.type = _e("Exception")
            return "handler:Exception"
        if k == 4:
            h.type = _e("BaseException")
            return "handler:BaseException"
        if k == 5:
            h.body = [ast.Pass()]
            return "handler:body_pass"
        if k == 6 and in_loop:
            h.body = [ast.Continue()]
            return "handler:body_continue"
        if k == 7:
            h.body = h.body + [ast.Pass()]
            return "handler:body_plus_pass"
        return None

    def t_docstring(self, tree):
        c = [n for n in ast.walk(tree) if isinstance(n, (ast.Module, ast.FunctionDef, ast.AsyncFunctionDef, ast.ClassDef))]
        n = self.r.choice(c)
        s = ast.Expr(value=ast.Constant(value=self.r.choice(DOC_POOL)))
        pos = self.r.choice([0, 0, len(n.body)])
        n.body.insert(pos, s)
        return f"docstring:{type(n).__name__}:{'first' if pos == 0 else 'last'}"

    def t_dup_stmt(self, tree):
        lists = _stmt_lists(tree)
        par, f, lst = self.r.choice(lists)
        i = self.r.randrange(len(lst))
        if isinstance(lst[i], (ast.FunctionDef, ast.AsyncFunctionDef, ast.ClassDef)):
            return None
        lst.insert(i, copy.deepcopy(lst[i]))
        return "dup_stmt"

    def t_nest_call(self, tree):
        c = self._calls(tree)
        if len(c) < 2:
            return None
        a, b = self.r.sample(c, 2)
        if any(x is a for x in ast.walk(b)) or any(x is b for x in ast.walk(a)):
            return None
        a.args.append(copy.deepcopy(b))
        return "nest_call"

    def kinds(self):
        return [m for m in dir(self) if m.startswith("t_")]

    def apply(self, tree, n):
        labels = []
        tries = 0
        while len(labels) < n and tries < 12:
            tries += 1
            k = self.r.choice(self.kinds())
            try:
                lab = getattr(self, k)(tree)
            except (IndexError, ValueError, AttributeError, KeyError, RecursionError):
                lab = None
            if lab:
                labels.append(lab)
        return labels


def corpus(rng, n, repo, want=None):
    """n transformed programs; `want(seed_source)` optionally restricts the seeds (e.g. to those mentioning a family's names).
    The first transformation kind is drawn uniformly and a seed is searched to which it applies, so that rarely applicable kinds
    (positional-only shift, handler variants) are as frequent as the others; 0-2 further random transformations follow."""
    sd = seeds(repo)
    if want:
        sd = [s for s in sd if want(s[1])] or sd
    out, tries = [], 0
    import diffhints
    tr = Transformer(rng, diffhints.expr_sources(repo))
    kinds = tr.kinds()
    while len(out) < n and tries < n * 4:
        tries += 1
        k = rng.choice(kinds)
        labels = None
        for _ in range(8):
            name, src = rng.choice(sd)
            tree = ast.parse(src)
            try:
                lab = getattr(tr, k)(tree)
            except (IndexError, ValueError, AttributeError, KeyError, RecursionError):
                lab = None
            if lab:
                labels = [lab] + tr.apply(tree, rng.choice([0, 0, 1, 2]))
                break
        if not labels:
            continue
        try:
            ast.fix_missing_locations(tree)
            new = ast.unparse(tree) + "\n"
            ast.parse(new)
        except Exception:
            continue
        if len(new) > 20000:
            continue
        out.append((new, name, labels))
    return out


SWEEP_KINDS = ["'lit'", "b'by'", "b'\\\\'", "b'C:\\\\Users\\\\me\\\\'", "b'\\\\x'", "b'/tmp/x\\\\N{'", "'C:\\\\tmp\\\\'", "7", "2.5", "2j", "None", "True", "[]", "['METHOD_MD5', 1]", "()", "('a', b)", "{1, 2}", "{}", "{'a': 1}", "name_", "obj_.attr", "call_()", "'a' + b_",
               "f'{x_}'", "lambda: 0", "*rest_", "[i for i in y_]", "(w_ := 3)", "a_[0]", "-1", "...",
               # an integer literal beyond the interpreter's int -> str digit limit (4300): valid Python, but str() / ast.unparse of it raise (found on the unchanged tree:
               # B103, B609 and B202 formatted such an argument into their messages); alone and inside a list
               "0x1" + "f" * 4000, "['chmod', 0x1" + "f" * 4000 + ", '*']",
               # string literals that parsers of other notations choke on (seeded change C06-m18 ran urllib.parse.urlsplit on a literal URL: ValueError on an unbalanced `[`)
               "'http://[fe80::1%25eth0/status'", "'ftp://[2001:db8::1/dump.tar'", "'%(x'", "'{'", "'{0'", "'\\\\'", "'(?P<'", "'\\x00'", "'a' * 3"]


NASTY_QUICK = ["'http://[fe80::1%25eth0/status'", "'%(x'", "'{'", "'\\x00'"]


def arg_sweep(repo, kinds=None):
    """Every distinct (callee spelling, argument slot) of every call in the example files x one representative of every expression kind in
    that slot (the other arguments stay as the example wrote them): small programs made of the file's import statements and the one call.
    -> list of (source, seed name, [label]) in a deterministic order.  `kinds`: restrict to these AST node kinds of the substituted value."""
    out, seen = [], set()
    reps = []
    import diffhints
    for kind in SWEEP_KINDS + diffhints.expr_sources(repo)[:12]:
        try:
            v = _e(kind[1:]) if kind.startswith("*") else _e(kind)
        except SyntaxError:
            continue
        nm = "Starred" if kind.startswith("*") else type(v).__name__
        if kinds is None or nm in kinds:
            if nm == "Constant":
                nm = "Constant-" + type(v.value).__name__        # one representative per Python type of constant (str, bytes, int, float, NoneType, bool, ellipsis)
            if len(kind) > 1000:
                nm += "-huge"
            if kind in NASTY_QUICK:
                nm += "-nasty%d" % NASTY_QUICK.index(kind)       # kept apart from the plain string in the quick tier's one-per-kind selection
            reps.append((kind, nm))
    for name, src in seeds(repo):
        tree = ast.parse(src)
        imports = [ast.unparse(n) for n in tree.body if isinstance(n, (ast.Import, ast.ImportFrom))]
        pre = "\n".join(dict.fromkeys(imports))
        pre = pre + "\n" if pre else ""
        for call in [n for n in ast.walk(tree) if isinstance(n, ast.Call)]:
            try:
                callee = ast.unparse(call.func)
                pos = [ast.unparse(a) for a in call.args]
                kws = [(k.arg, ast.unparse(k.value)) for k in call.keywords]
            except Exception:
                continue
            if len(callee) > 60 or "\n" in callee or "(" in callee or any("\n" in a for a in pos) or any("\n" in v for _, v in kws):
                continue
            variants = [callee]
            if isinstance(call.func, ast.Attribute):
                variants += [call.func.attr, call.func.attr + "_tree"]        # the same function by its bare name / a project helper named after it
            slots = [("a", i) for i in range(len(pos))] + [("k", k) for k, _ in kws if k] + [("a", len(pos))]
            for vi, cal in enumerate(variants):
                for slot in slots:
                    key = (cal, slot, len(pos) if vi else -1)
                    if key in seen:
                        continue
                    seen.add(key)
                    for kind, nm in reps:
                        if slot[0] == "a":
                            if slot[1] < len(pos):
                                p2, k2 = pos[:slot[1]] + [kind] + pos[slot[1] + 1:], kws
                            elif vi == 0:
                                continue              # one more positional is only interesting for the derived names
                            else:
                                p2, k2 = [kind], kws  # the derived name called with this ONE argument
                        else:
                            if kind.startswith("*"):
                                continue
                            p2, k2 = pos, [(k, kind if k == slot[1] else v) for k, v in kws]
                        args = p2 + [(f"{k}={v}" if k else f"**{v}") for k, v in k2]
                        text = f"{pre}r_ = {cal}({', '.join(args)})\n"
                        out.append((text, name, ["arg_sweep:%s:%s" % (slot[0], nm)]))
    ok = []
    for t in out:
        try:
            ast.parse(t[0])
            ok.append(t)
        except SyntaxError:
            pass
    return ok


def run(res, ctx, d, scratch, rng, n, C, tag, owner_ids=None, crash_oracle=False, want=None, chunk=400):
    """Model vs implementation on n transformed programs.  `owner_ids`: compare only findings with these ids (and crashes of the checks
    that report them); None = everything.  crash_oracle: a check raising is reported as a violation of C06 (concrete replay)."""
    progs = corpus(rng, n, C.REPO, want=want) if not isinstance(n, list) else n
    fm = C.func_ids()
    blids = C.blacklist_ids()
    for off in range(0, len(progs), chunk):
        part = progs[off:off + chunk]
        sources = [p[0].encode() for p in part]
        try:
            real = C.batch_real_scan(scratch, sources)
        except BaseException as e:
            if crash_oracle:
                res.violation("an exception escaped the scan of valid Python files", {"exception": type(e).__name__, "programs": [p[0] for p in part][:20]})
            else:
                res.break_("correspondence:metamorph", {"exception escaped the scan": type(e).__name__})
            continue
        model = d.ask_many([C.scan_request(s) for s in sources]) if d is not None else None
        for i, (src, seed, labels) in enumerate(part):
            r = real[i]
            res.case((tag, src), bool(r["findings"]), sample={"program": src, "seed": seed, "transformations": labels, "real_findings": [list(f[:4]) for f in r["findings"]][:8]} if (off + i) % 997 == 0 else None)
            for l in labels:
                res.count(tag + ":" + l.split(":")[0])
            if crash_oracle and (r["errors"] or r["skipped"]):
                res.violation("a check raised on a syntactically valid file (internal error logged / file skipped)",
                              {"program": src, "crashed_checks": r["errors"], "skipped": r["skipped"], "seed": seed, "transformations": labels})
            if model is None:
                continue
            m = model[i]
            if "error" in m:
                res.break_("driver-error", m["error"])
                continue
            rr = {"findings": r["findings"], "errors": r["errors"]}
            mm = m
            if owner_ids is not None:
                own = set(owner_ids)
                rr = {"findings": [f for f in r["findings"] if f[0] in own], "errors": [e for e in r["errors"] if fm.get(e, e) in own or (e == "blacklist" and own & blids)]}
                mm = dict(m, findings=[f for f in m["findings"] if f[0] in own], crashes=[c for c in m.get("crashes", []) if fm.get(c, c) in own or (c == "blacklist" and own & blids)])
            diff = C.compare_scan(rr, mm, blids)
            if diff:
                res.break_("correspondence:" + tag, {"program": src, "seed": seed, "transformations": labels, "diff": diff})
    res.extra[tag + "_programs"] = res.extra.get(tag + "_programs", 0) + len(progs)
    return progs


def config_variants(rng, k, sections=None):
    """k settings files derived from the plugins' generated defaults, each changing ONE value of ONE section to a corner: a list emptied, cut to its first
    element, extended; a number set to 0, to its neighbour, doubled; a flag flipped.  The section stays complete (a section lacking keys makes checks raise:
    configuration validation, not these properties).  -> list of (label, {section: settings})"""
    import sys
    from bandit.core import extension_loader as el
    out = []
    for plg in el.MANAGER.plugins:
        fn = plg.plugin
        sec = getattr(fn, "_takes_config", None)
        mod = sys.modules.get(fn.__module__)
        if not sec or not hasattr(mod, "gen_config") or (sections and sec not in sections):
            continue
        base = mod.gen_config(sec)
        if not isinstance(base, dict):
            continue
        for key, val in base.items():
            alts = []
            if isinstance(val, bool):
                alts = [("flipped", not val)]
            elif isinstance(val, int):
                alts = [("zero", 0), ("plus1", val + 1), ("minus1", max(val - 1, 0)), ("doubled", val * 2)]
            elif isinstance(val, list):
                alts = [("empty", []), ("first-only", val[:1]), ("last-only", val[-1:]), ("extended", val + ["proj.util.helper", "/srv/tmp"]), ("reversed", val[::-1])]
            for lab, nv in alts:
                if nv != val:
                    out.append(("%s.%s:%s" % (sec, key, lab), {sec: dict(base, **{key: nv})}))
    seen, uniq = set(), []
    for lab, cfg in out:
        if lab not in seen:
            seen.add(lab)
            uniq.append((lab, cfg))
    rng.shuffle(uniq)
    return uniq[:k] if k else uniq


QUICK_SWEEP_KINDS = {"Constant", "List", "Tuple", "Dict", "Set", "Name", "Attribute", "Call", "BinOp", "Starred", "JoinedStr"}


def run_under_configs(res, ctx, d, scratch, rng, C, owner_ids, n_progs, n_cfgs, crash_oracle=False, sections=None, want=None):
    """the transformed-example corpus under settings files that move one value to a corner (config_variants): model vs implementation"""
    import yaml
    progs = corpus(rng, n_progs, C.REPO, want=want)
    sources = [p[0].encode() for p in progs]
    fm, blids = C.func_ids(), C.blacklist_ids()
    for lab, cfg in config_variants(rng, n_cfgs, sections):
        cf = scratch.fresh("settings.yaml", yaml.safe_dump(cfg).encode())
        try:
            real = C.batch_real_scan(scratch, sources, config_file=cf)
        except BaseException as e:
            res.break_("correspondence:settings", {"settings": cfg, "exception escaped the scan": "%s: %s" % (type(e).__name__, e)})
            continue
        model = d.ask_many([C.scan_request(s, plugin_cfg=cfg) for s in sources]) if d is not None else None
        for i, (src, seed, labels) in enumerate(progs):
            r = real[i]
            res.case(("settings", lab, src), bool(r["findings"]))
            res.count("settings:" + lab.split(":")[1])
            if crash_oracle and (r["errors"] or r["skipped"]):
                res.violation("a check raised on a syntactically valid file under a complete settings section", {"program": src, "settings": cfg, "crashed_checks": r["errors"], "skipped": r["skipped"]})
            if model is None or "error" in model[i]:
                if model is not None:
                    res.break_("driver-error", model[i]["error"])
                continue
            rr, mm = {"findings": r["findings"], "errors": r["errors"]}, model[i]
            if owner_ids is not None:
                own = set(owner_ids)
                rr = {"findings": [f for f in r["findings"] if f[0] in own], "errors": [e for e in r["errors"] if fm.get(e, e) in own or (e == "blacklist" and own & blids)]}
                mm = dict(mm, findings=[f for f in mm["findings"] if f[0] in own], crashes=[c for c in mm.get("crashes", []) if fm.get(c, c) in own or (c == "blacklist" and own & blids)])
            diff = C.compare_scan(rr, mm, blids)
            if diff:
                res.break_("correspondence:settings", {"program": src, "settings": cfg, "variant": lab, "seed": seed, "transformations": labels, "diff": diff})
    res.extra["settings_variants"] = len(config_variants(rng, 0, sections))


def hint_calls(repo, rng, limit):
    """Calls synthesised from the literals of the lines by which /repo differs from the recorded commit (harness/diffhints.py; nothing on the recorded tree): every
    identifier-like literal is imported, called as a function / a method / by its dotted spelling, and used as a keyword name, with one value of every expression kind
    in each slot.  A change that keys new behaviour on a method name, an import and an argument shape ("generate_key" + "OpenSSL" + a dict display: seeded change
    C06-m16) spells those names out; no example file contains them."""
    import diffhints, re as _re
    idents = [s_ for s_ in diffhints.hints(repo)["strings"] if _re.fullmatch(r"[A-Za-z_][A-Za-z0-9_]*(\.[A-Za-z_][A-Za-z0-9_]*)*", s_) and not __import__("keyword").iskeyword(s_.split(".")[0])][:16]
    if not idents:
        return []
    pre = "".join(f"import {m}\n" for m in idents)
    simple = [i for i in idents if "." not in i][:8]
    vals = [k for k in SWEEP_KINDS if not k.startswith("*")]
    out = []
    for name in idents:
        last = name.split(".")[-1]
        for callee in dict.fromkeys([last, "obj_." + last, name, "obj_.attr_." + last]):
            for v in vals:
                out.append(f"{pre}r_ = {callee}({v})\n")
                out.append(f"{pre}r_ = {callee}({v}, {rng.choice(vals)})\n")
                out.append(f"{pre}r_ = {callee}({rng.choice(vals)}, {v})\n")
                for k in simple:
                    out.append(f"{pre}r_ = {callee}({k}={v})\n")
    rng.shuffle(out)
    ok = []
    for t in out[:limit * 2]:
        try:
            ast.parse(t)
            ok.append((t, "diffhints", ["hint_calls"]))
        except SyntaxError:
            pass
    return ok[:limit]


def family(res, ctx, C, owner_ids, n_quick, n_thorough, want=None, crash_oracle=False, sweep=False, sections=None, cfg_want=None):
    """What a per-family harness calls at the end of its run (skipped on --replay): the transformed-example corpus through model and
    implementation, compared on the family's own ids."""
    if ctx.get("replay"):
        return
    thorough = res.tier == "thorough"
    rng = C.rng_for(res.seed, res.pid, "metamorph")
    d = C.Driver() if ctx.get("driver_ok") else None
    scratch = C.Scratch()
    try:
        run(res, ctx, d, scratch, rng, n_thorough if thorough else n_quick, C, "metamorph", owner_ids=owner_ids, crash_oracle=crash_oracle, want=want, chunk=1000)
        if sections != "none":
            run_under_configs(res, ctx, d, scratch, rng, C, owner_ids, 200 if thorough else 60, 0 if thorough else 8, crash_oracle=crash_oracle, sections=sections, want=cfg_want)
        if sweep:
            # quick: one representative expression per node kind (11 kinds), every (callee, slot); thorough: all 25 shapes
            progs = arg_sweep(C.REPO, None if thorough else QUICK_SWEEP_KINDS)
            if not thorough:
                seenk, keep = set(), []
                for p in progs:
                    k = (p[0].rsplit("r_ = ", 1)[1].split("(", 1)[0], p[0].count(","), p[2][0])
                    if k not in seenk:
                        seenk.add(k)
                        keep.append(p)
                progs = keep
            run(res, ctx, d, scratch, rng, progs, C, "argsweep", owner_ids=owner_ids, crash_oracle=crash_oracle, chunk=3000)
            hp = hint_calls(C.REPO, rng, 6000 if thorough else 2500)
            if hp:
                run(res, ctx, d, scratch, rng, hp, C, "hintcalls", owner_ids=owner_ids, crash_oracle=crash_oracle, chunk=3000)
    finally:
        scratch.close()
        if d is not None:
            d.close()


if __name__ == "__main__":
    import random, sys, collections
    cs = corpus(random.Random(int(sys.argv[1]) if len(sys.argv) > 1 else 0), 400, "/repo")
    h = collections.Counter(l.split(":")[0] for _, _, ls in cs for l in ls)
    print(len(cs), "programs;", dict(h))
    print(cs[3][0][:600], cs[3][1:])
