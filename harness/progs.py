"""Shared program fragments: small statements that trigger known checks (used by several properties).
Each fragment: (name, prelude imports, statement lines)."""

FRAGMENTS = [
    ("assert", [], ["assert cond"]),
    ("exec", [], ["exec(code)"]),
    ("chmod", ["import os"], ["os.chmod('/etc/x', 0o777)"]),
    ("bind_all", [], ["host = '0.0.0.0'"]),
    ("password_assign", [], ["password = 'hunter2'"]),
    ("password_kw", [], ["connect(password='hunter2')"]),
    ("password_default", [], ["def login(user, password='hunter2'):", "    return user"]),
    ("tmp", [], ["path = '/tmp/scratch'"]),
    ("except_pass", [], ["try:", "    work()", "except Exception:", "    pass"]),
    ("except_continue", [], ["for i in items:", "    try:", "        work()", "    except Exception:", "        continue"]),
    ("flask_debug", ["from flask import Flask"], ["app.run(debug=True)"]),
    ("paramiko_exec", ["import paramiko"], ["client.exec_command(cmd)"]),
    ("popen_shell", ["import subprocess"], ["subprocess.Popen(cmd, shell=True)"]),
    ("popen_shell_lit", ["import subprocess"], ["subprocess.Popen('ls -l', shell=True)"]),
    ("call_noshell", ["import subprocess"], ["subprocess.call(['ls', '-l'])"]),
    ("other_shell", [], ["runner(cmd, shell=True)"]),
    ("os_system", ["import os"], ["os.system(cmd)"]),
    ("os_exec", ["import os"], ["os.execl('/bin/ls', 'ls')"]),
    ("partial_path", ["import subprocess"], ["subprocess.call(['ls'])"]),
    ("wildcard", ["import os"], ["os.system('tar cf x.tar *')"]),
    ("logging_listen", ["import logging.config"], ["logging.config.listen(9999)"]),
    ("mako", ["from mako.template import Template"], ["Template('hello')"]),
    ("pickle_loads", ["import pickle"], ["pickle.loads(blob)"]),
    ("md5", ["import hashlib"], ["hashlib.md5(data)"]),
    ("eval", [], ["eval(expr)"]),
    ("yaml_load", ["import yaml"], ["yaml.load(stream)"]),
    ("mktemp", ["import tempfile"], ["tempfile.mktemp()"]),
    ("random", ["import random"], ["random.random()"]),
    ("telnet", ["import telnetlib"], ["telnetlib.Telnet(host)"]),
    ("import_multi", ["import pickle, subprocess"], ["x = 1"]),
    ("urlopen", ["import urllib.request"], ["urllib.request.urlopen(url)"]),
    ("marshal", ["import marshal"], ["marshal.loads(blob)"]),
    ("xml_parse", ["import xml.etree.ElementTree as ET"], ["ET.parse(source)"]),
    ("requests_noverify", ["import requests"], ["requests.get(url, verify=False)"]),
    ("ssl_wrap", ["import ssl"], ["ssl.wrap_socket(sock)"]),
    ("sql", [], ["cur.execute('SELECT * FROM t WHERE id = %s' % uid)"]),
    ("jinja", ["import jinja2"], ["jinja2.Environment(autoescape=False)"]),
    ("rsa_small", ["from Crypto.PublicKey import RSA"], ["RSA.generate(512)"]),
    # aliased / from-imported spellings: what a call check finds depends on the alias table built by the import visits
    ("popen_alias", ["import subprocess as sp"], ["sp.Popen(cmd, shell=True)"]),
    ("popen_from", ["from subprocess import Popen"], ["Popen(cmd, shell=True)"]),
    ("call_from_as", ["from subprocess import call as run_it"], ["run_it(['ls'])"]),
    ("os_system_from", ["from os import system"], ["system(cmd)"]),
    ("md5_from", ["from hashlib import md5"], ["md5(data)"]),
    ("pickle_alias", ["import pickle as pk"], ["pk.loads(blob)"]),
    ("et_alias", ["import xml.etree.ElementTree as ET2"], ["ET2.fromstring(text)"]),
    ("yaml_alias", ["import yaml as y"], ["y.load(stream)"]),
    ("paramiko_from", ["from paramiko import SSHClient"], ["c.exec_command(cmd)"]),
    ("chmod_from", ["from os import chmod"], ["chmod('/etc/x', 0o777)"]),
]


def make_program(rng, k=None):
    """A seeded mix of fragments -> (source, fragment names)."""
    n = k or rng.randint(3, 9)
    frs = rng.sample(FRAGMENTS, n)
    pre, body = [], []
    for name, imports, lines in frs:
        for i in imports:
            if i not in pre:
                pre.append(i)
        body += lines
    return "\n".join(pre + body) + "\n", [f[0] for f in frs]
