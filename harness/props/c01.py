"""C01 — blacklisted calls/imports under every import spelling and context.

Exhaustive over (rule, qualname) x spellings; contexts sampled in quick, exhaustive in thorough.
Oracle = generator knowledge (which rule, which line) ; correspondence = Lean model vs real bandit."""
import common as C
import metamorph
import scopegen

LEVEL = "proof"

CONTEXTS = [
    ("stmt", "{pre}{call}\n", 0),
    ("assign", "{pre}x = {call}\n", 0),
    ("arg", "{pre}print({call})\n", 0),
    ("kwarg", "{pre}print(end={call})\n", 0),
    ("decorator", "{pre}@{call}\ndef g():\n    pass\n", 0),
    ("default", "{pre}def g(a={call}):\n    pass\n", 0),
    ("kwdefault", "{pre}def g(*, a={call}):\n    pass\n", 0),
    ("listcomp", "{pre}y = [{call} for _ in range(3)]\n", 0),
    ("genexp_cond", "{pre}y = list(i for i in range(3) if {call})\n", 0),
    ("lambda", "{pre}h = lambda: {call}\n", 0),
    ("classbody", "{pre}class K:\n    v = {call}\n", 1),
    ("nested_def", "{pre}def outer():\n    def inner():\n        return {call}\n    return inner\n", 2),
    ("fstring", "{pre}s = f\"{{{call}}}\"\n", 0),
    ("with", "{pre}with {call} as h:\n    pass\n", 0),
    ("async_await", "{pre}async def co():\n    await {call}\n", 1),
    ("try_finally", "{pre}try:\n    pass\nfinally:\n    {call}\n", 3),
    ("ifexp", "{pre}z = 1 if {call} else 2\n", 0),
    ("dictval", "{pre}d = {{'k': {call}}}\n", 0),
    ("subscript", "{pre}d = q[{call}]\n", 0),
    ("multiline_outer", "{pre}print(\n    1,\n    {call},\n)\n", 2),
    ("walrus", "{pre}if (w := {call}):\n    pass\n", 0),
    ("starred", "{pre}print(*{call})\n", 0),
    ("return_ann", "{pre}def g() -> {call}:\n    pass\n", 0),
    # list-valued AST fields whose FIRST element is None or a non-call and the call comes later (seeded change C01-m20 skipped a child list after looking
    # at its first element only: arguments.kw_defaults = [None, call], Dict.keys = [None, call])
    ("kwdefault_after_required", "{pre}def g(*, k, a={call}):\n    pass\n", 0),
    ("lambda_kwdefault_after_required", "{pre}h = lambda *, k, a={call}: 0\n", 0),
    ("dictkey_after_spread", "{pre}d = {{**q, {call}: 1}}\n", 0),
    ("dictval_after_spread", "{pre}d = {{**q, 'k': {call}}}\n", 0),
    ("third_default", "{pre}def g(a, b=1, c={call}):\n    pass\n", 0),
    ("second_base", "{pre}class K(B, {call}):\n    pass\n", 0),
    ("second_with_item", "{pre}with q as h, {call} as j:\n    pass\n", 0),
    ("second_target_value", "{pre}a, b = 1, {call}\n", 0),
]

ARG_LAYOUTS = [("()", 0), ("(a)", 0), ("(a, b=1)", 0), ("(\n    a,\n    b,\n)", 0), ("(*a, **k)", 0)]


def call_spellings(q):
    """(label, prelude, callee) for qualname q = c1.c2...cn"""
    parts = q.split(".")
    out = []
    if len(parts) == 1:
        out.append(("bare", "", q))
        return out
    mod, f = ".".join(parts[:-1]), parts[-1]
    out.append(("import_m", f"import {mod}\n", q))
    out.append(("import_m_as", f"import {mod} as al\n", f"al.{f}"))
    out.append(("from_m_import_f", f"from {mod} import {f}\n", f))
    out.append(("from_m_import_f_as", f"from {mod} import {f} as gg\n", "gg"))
    if len(parts) >= 3:
        p, m = ".".join(parts[:-2]), parts[-2]
        out.append(("from_p_import_m", f"from {p} import {m}\n", f"{m}.{f}"))
        out.append(("from_p_import_m_as", f"from {p} import {m} as al\n", f"al.{f}"))
    top = parts[0]
    out.append(("import_top_as", f"import {top} as tp\n", "tp." + ".".join(parts[1:])))
    # the root name is bound some other way, or not at all: an unbound name resolves to itself (Props.C01.unbound_resolves_self), so the call is
    # still the blacklisted qualified name (seeded change C01-m3 required the root module to be among the visited imports)
    out.append(("unbound_root", "", q))
    out.append(("bound_by_dunder_import", f"{top} = __import__('{top}')\n", q))
    out.append(("bound_by_import_module", f"import importlib\n{top} = importlib.import_module('{top}')\n", q))
    out.append(("bound_by_assignment", f"{top} = load_it()\n", q))
    # the alias table is "last binding in source order wins", wherever the import statement sits (seeded change C01-m6: an import inside an
    # `except` handler no longer re-bound a name that an earlier import had bound)
    out.append(("rebound_later", f"import json as al\nimport {mod} as al\n", f"al.{f}"))
    out.append(("rebound_in_handler", f"try:\n    import harmless_mod as al\nexcept ImportError:\n    import {mod} as al\n", f"al.{f}"))
    out.append(("rebound_from_in_handler", f"try:\n    from fastlib import {f}\nexcept ImportError:\n    from {mod} import {f}\n", f))
    out.append(("bound_in_else_branch", f"if flag:\n    import other_mod as al\nelse:\n    import {mod} as al\n", f"al.{f}"))
    return out


def call_near_misses(q):
    parts = q.split(".")
    out = []
    if len(parts) == 1:
        out.append(("suffix", "", q + "x"))
        out.append(("attr_of_obj", "", "obj." + q))
        out.append(("case_changed", "", q.swapcase()))
        out.append(("prefix_underscore", "", "_" + q))
        return out
    mod, f = ".".join(parts[:-1]), parts[-1]
    out.append(("suffix", f"import {mod}\n", q + "x"))
    out.append(("prefix", f"import {mod}\n", "x" + q))
    out.append(("other_module", f"import other\n", "other." + f))
    out.append(("nonimported_root", "", "obj." + q))
    out.append(("computed_callee", f"import {mod}\n", f"get({mod})." + f + "(1).other"))
    out.append(("subscript_root", f"import {mod}\n", f"tbl[0].{f}"))
    out.append(("shadow_alias", f"import {mod} as other_name\n", f"unrelated.{f}"))
    # a different identifier that only *looks* like the table name (seeded change C01-m8: the names were joined into an unescaped regex, so
    # `.` matched any character): every dot replaced by `_`, one dot replaced, a character dropped, doubled, or changed in case
    out.append(("dots_to_underscore", "", q.replace(".", "_")))
    if len(parts) >= 3:
        out.append(("one_dot_to_underscore", f"import {parts[0]}\n", parts[0] + "." + "_".join(parts[1:])))
        out.append(("first_dot_to_underscore", "", parts[0] + "_" + ".".join(parts[1:])))
    out.append(("char_dropped", f"import {mod}\n", mod + "." + (f[:-1] if len(f) > 1 else f + "_")))
    out.append(("case_changed", f"import {mod}\n", mod + "." + f.swapcase()))
    out.append(("char_doubled", f"import {mod}\n", mod + "." + f + f[-1]))
    return out


def import_spellings(q):
    out = [("import", f"import {q}\n"), ("import_as", f"import {q} as zz\n"),
           ("from_import", f"from {q} import thing\n"), ("from_import_as", f"from {q} import thing as tt\n"),
           ("import_sub", f"import {q}.sub\n"), ("from_sub_import", f"from {q}.sub import thing\n"),
           ("dunder_import", f"__import__('{q}')\n"),
           ("importlib_import_module", f"import importlib\nimportlib.import_module('{q}')\n"),
           ("importlib_dunder", f"import importlib\nimportlib.__import__('{q}')\n"),
           ("importlib_kw", f"import importlib\nimportlib.import_module(name='{q}')\n"),
           # the other arguments of the import functions do not change WHICH module is imported (seeded change C01-m15 matched `module.item` for each fromlist entry
           # instead of the module)
           # the builtin under its own name, bound explicitly: still the import function (seeded change C01-m18 recognised `__import__` by the alias-resolved
           # name, which `from builtins import __import__` turns into `builtins.__import__`)
           ("dunder_import_from_builtins", f"from builtins import __import__\n__import__('{q}')\n"),
           ("dunder_import_builtins_attr_bound", f"import builtins\n__import__ = builtins.__import__\n__import__('{q}')\n"),
           ("dunder_import_fromlist_kw", f"__import__('{q}', fromlist=['thing'])\n"),
           ("dunder_import_fromlist_tuple", f"__import__('{q}', fromlist=('alpha', 'beta'))\n"),
           ("dunder_import_five_args", f"__import__('{q}', globals(), locals(), ['thing'], 0)\n"),
           ("dunder_import_level_kw", f"__import__('{q}', level=0)\n"),
           ("importlib_package_kw", f"import importlib\nimportlib.import_module('{q}', package=None)\n"),
           ("importlib_dunder_fromlist", f"import importlib\nimportlib.__import__('{q}', fromlist=['thing'])\n"),
           ("import_multi", f"import os, {q}\n"),
           ("import_backslash", f"import os, \\\n    {q}\n"),
           ("from_paren_multiline", f"from {q} import (\n    alpha,\n    beta,\n)\n"),
           ("from_import_star", f"from {q} import *\n")]       # seeded change C01-m4: a wildcard special case returned before the tests ran
    if "." in q:
        p, m = q.rsplit(".", 1)
        out.append(("from_parent_import", f"from {p} import {m}\n"))
        out.append(("from_parent_paren_later_line", f"from {p} import (\n    zzz_other,\n    {m},\n)\n"))
    return out


def import_near_misses(q):
    out = [("suffix", f"import {q}x\n", "string-prefix"), ("prefix", f"import x{q}\n", None),
           ("suffix_from", f"from {q}x import a\n", "string-prefix"), ("dunder_suffix", f"__import__('{q}x')\n", None),
           ("dunder_nonliteral", f"__import__({q.replace('.', '_')})\n", None),
           ("attr_only", f"x = obj.{q}\n", None),
           ("import_case_changed", f"import {q.swapcase()}\n", None)]
    if "." in q:
        # C01-m8: `.` of a table name matched any character
        u = q.replace(".", "_")
        out += [("dunder_dots_to_underscore", f"__import__('{u}')\n", None),
                ("import_module_dots_to_underscore", f"import importlib\nimportlib.import_module('{u}')\n", None),
                ("import_dots_to_underscore", f"import {u}\n", None)]
    return out


def rules_tables():
    from bandit.core import extension_loader
    return extension_loader.MANAGER.blacklist


def _run_main(res, ctx):
    tabs = rules_tables()
    call_rules = [r for r in tabs.get("Call", [])]
    import_rules = [r for r in tabs.get("Import", [])]
    import_ids = {r["id"] for r in import_rules}
    blids = C.blacklist_ids()
    rng = C.rng_for(res.seed, "C01")
    thorough = res.tier == "thorough"
    res.rule = ("every (rule, qualified name) of the Call and Import tables x every import spelling binding a dotted prefix "
                "x contexts (quick: 3 seeded contexts + 1 argument layout per spelling; thorough: all %d contexts x %d layouts) "
                "+ near-miss names; a case is non-trivial when it is a distinct program text whose expected blacklist outcome is determined "
                "by the generator (a specific rule must fire on a specific line, or no blacklist finding may appear)" % (len(CONTEXTS), len(ARG_LAYOUTS)))
    cases = []  # (src, expect, meta)   expect = ("hit", id, sev, line) | ("miss",) | ("known", fid)

    def qual_owner(q, rules):
        return [r for r in rules if q in r["qualnames"]]

    all_call_q = {qq for rr in call_rules for qq in rr["qualnames"]}
    # ---- calls
    for r in call_rules:
        if r["id"] in import_ids:
            continue
        for q in r["qualnames"]:
            owners = qual_owner(q, call_rules)
            first = owners[0]
            for label, pre, callee in call_spellings(q):
                ctxs = CONTEXTS if thorough else rng.sample(CONTEXTS, 3)
                for cname, tmpl, off in ctxs:
                    lays = ARG_LAYOUTS if thorough else [rng.choice(ARG_LAYOUTS)]
                    for lay, _ in lays:
                        if cname == "decorator" and "\n" in lay:
                            pass
                        call = callee + lay
                        src = tmpl.format(pre=pre, call=call)
                        line = pre.count("\n") + 1 + off
                        cases.append((src, ("hit", first["id"], first.get("level", "MEDIUM"), line), dict(kind="call", rule=r["id"], q=q, spelling=label, context=cname, layout=lay)))
            # the callee expression itself is split over lines (a dotted name continued after a line break, inside parentheses or after a backslash): the
            # finding is reported where the CALL starts (seeded change C01-m16 reported the line on which the callee name ends)
            for label, pre, callee in call_spellings(q):
                if "." not in callee:
                    continue
                head, tail = callee.rsplit(".", 1)
                base = pre.count("\n") + 1
                splits = [("callee_split_paren", f"{pre}v = ({head}\n     .{tail}(a))\n", base),
                          ("callee_split_backslash", f"{pre}v = {head} \\\n    .{tail}(a)\n", base),
                          ("callee_split_dot_first", f"{pre}v = ({head}.\n     {tail}(a))\n", base),
                          ("callee_split_in_default", f"{pre}def g_(x=({head}\n        .{tail}(a))):\n    pass\n", base),
                          ("callee_split_in_list", f"{pre}vs = [\n    1,\n    {head}\n    .{tail}(a),\n]\n", base + 2)]
                for cname, src, line in (splits if thorough else rng.sample(splits, 2)):
                    cases.append((src, ("hit", first["id"], first.get("level", "MEDIUM"), line), dict(kind="call", rule=r["id"], q=q, spelling=label, context=cname, layout="(a)")))
            # a function that uses the module is defined ABOVE the module-level import statement (source order != execution order)
            if "." in q:
                mod = q.rsplit(".", 1)[0]
                cases.append((f"def early_(v):\n    return {q}(v)\nimport {mod}\n", ("hit", first["id"], first.get("level", "MEDIUM"), 2),
                              dict(kind="call", rule=r["id"], q=q, spelling="import_m_after_use", context="def-before-import")))
            # a method / nested def / nested class that merely has the same NAME as the bound name does not rebind it
            for label, pre, callee in call_spellings(q)[: (None if thorough else 3)]:
                bound = callee.split(".")[0]
                shadows = [f"class K_:\n    def {bound}(self, v):\n        return v\n",
                           f"def outer_():\n    def {bound}(v):\n        return v\n    return 1\n",
                           f"def outer2_():\n    class {bound}:\n        pass\n    return 1\n"]
                sh = rng.choice(shadows) if not thorough else None
                for shadow in ([sh] if sh else shadows):
                    pre2 = pre + shadow
                    src = pre2 + f"x = {callee}(a)\n"
                    line = pre2.count("\n") + 1
                    cases.append((src, ("hit", first["id"], first.get("level", "MEDIUM"), line), dict(kind="call", rule=r["id"], q=q, spelling=label + "+shadow", context="after-shadowing-def")))
            # the binding sits inside a scope, something is defined between it and the use, and the use sits in the same or a sibling scope further
            # down (seeded change C01-m7: aliases bound in a function were forgotten after a nested class statement)
            sp_all = call_spellings(q)
            for label, pre, callee in (sp_all if thorough else rng.sample(sp_all, min(3, len(sp_all)))):
                if "\n" in pre.rstrip("\n") and not pre.startswith(("import importlib", "import json")):
                    continue            # multi-statement preludes with their own control flow are placed as they are, above
                for _ in range(6 if thorough else 3):
                    bound = callee.split(".")[0]
                    src, line, lab = scopegen.place(rng, pre, f"x = {callee}(a)", names=(bound, callee.split(".")[-1]))
                    exp_ = ("hit", first["id"], first.get("level", "MEDIUM"), line) if scopegen.visible(lab) else ("corr-only",)
                    cases.append((src, exp_,
                                  dict(kind="call", rule=r["id"], q=q, spelling=label + "+placed", context="placed:" + lab["shape"] + ":" + lab["filler"], placed=lab)))
            for label, pre, callee in call_near_misses(q):
                if callee in all_call_q or any(callee.startswith(qq + ".") for qq in all_call_q if False):
                    continue            # the altered spelling happens to be another table entry (pickle.loads -> pickle.load)
                cname, tmpl, off = rng.choice(CONTEXTS)
                src = tmpl.format(pre=pre, call=callee + "(a)")
                cases.append((src, ("miss", pre.count("\n") + 1), dict(kind="call-nearmiss", rule=r["id"], q=q, spelling=label, context=cname)))
    # ---- depth: a blacklisted call far down a valid expression / statement nest is visited like any other (seeded change C01-m11 stopped descending at a quarter of
    #      the recursion limit: a call 250-900 levels deep was silently never visited, the file still listed as scanned).  Depths stay below what makes the
    #      unchanged visitor itself give up (about 900 levels: then the file is skipped, C04's business).
    deep_rules = [r for r in call_rules if r["id"] not in import_ids and any("." in q for q in r["qualnames"])]
    for r in (deep_rules if thorough else rng.sample(deep_rules, 3)):
        q = next(q for q in r["qualnames"] if "." in q)
        mod = q.rsplit(".", 1)[0]
        first = qual_owner(q, call_rules)[0]
        import diffhints
        hint_depths = tuple(sorted({n + 40 for n in diffhints.hints(C.REPO)["ints"] if 20 <= n <= 700}))[:3]      # numbers on changed lines as nesting depths (none on the recorded tree)
        for depth in (((60, 300, 420) if not thorough else (60, 150, 260, 300, 420, 600)) + hint_depths):
            shapes = [("binop-chain", f"import {mod}\nv = {q}(d)" + " + 1" * depth + "\n", 2),
                      ("binop-chain-multiline", f"import {mod}\nv = ({q}(d)\n" + "     + 1\n" * depth + ")\n", 2),
                      ("call-chain", f"import {mod}\nv = {q}(d)" + ".a()" * (depth // 2) + "\n", 2),
                      ("elif-ladder", f"import {mod}\nif c0:\n    pass\n" + "".join(f"elif c{i}:\n    pass\n" for i in range(1, depth)) + f"else:\n    v = {q}(d)\n", 2 * depth + 3),
                      ("nested-list", f"import {mod}\nv = " + "[" * (depth // 2) + f"{q}(d)" + "]" * (depth // 2) + "\n", 2)]
            for label, src, line in (shapes if thorough else rng.sample(shapes, 3)):
                try:
                    compile(src, "deep", "exec", flags=0x400, dont_inherit=True)     # PyCF_ONLY_AST: the parser's own nesting limits decide validity
                except (SyntaxError, RecursionError, MemoryError):
                    continue
                cases.append((src, ("hit", first["id"], first.get("level", "MEDIUM"), line), dict(kind="call", rule=r["id"], q=q, spelling="import_m+deep", context=f"deep:{label}:{depth}")))
    # ---- imports
    all_import_q = [(r, q) for r in import_rules for q in r["qualnames"]]
    for r, q in all_import_q:
        owners = qual_owner(q, import_rules)
        for label, src in import_spellings(q):
            # which rule is expected: the first rule (table order) any of whose qualnames is a dotted prefix of the imported name
            line = src.count("\n")
            exp = None
            name = q if label not in ("import_sub", "from_sub_import") else q + ".sub"
            if label in ("from_import", "from_import_as"):
                name = q + ".thing"
            if label == "from_paren_multiline":
                name = q + ".alpha"
            if label == "from_import_star":
                name = q + ".*"
            if label in ("import_backslash", "from_paren_multiline", "from_parent_paren_later_line"):
                line = 1          # the statement starts on its first physical line
            if label == "from_sub_import":
                name = q + ".sub.thing"
            for rr in import_rules:
                if any(name == qq or name.startswith(qq + ".") for qq in rr["qualnames"]):
                    exp = rr
                    break
            if label == "import_multi":
                line = 1
            cases.append((src, ("hit", exp["id"], exp.get("level", "MEDIUM"), line), dict(kind="import", rule=r["id"], q=q, spelling=label)))
        for label, src, region in import_near_misses(q):
            # a near miss of one qualname can still be a genuine hit of another (e.g. 'xmlrpc' vs 'xmlrpc.server'): only expect silence when no rule dotted-matches
            cases.append((src, ("miss-import", region), dict(kind="import-nearmiss", rule=r["id"], q=q, spelling=label)))

    # de-duplicate program texts
    seen = {}
    for src, exp, meta in cases:
        seen.setdefault(src, (exp, meta))
    progs = list(seen.items())
    sources = [s.encode() for s, _ in progs]
    scratch = C.Scratch()
    try:
        real = C.batch_real_scan(scratch, sources)
        model = None
        if ctx["driver_ok"]:
            d = C.Driver()
            reqs = [C.scan_request(s) for s in sources]
            model = d.ask_many(reqs)
            d.close()
    finally:
        scratch.close()

    import_q_all = [qq for rr in import_rules for qq in rr["qualnames"]]
    for i, (src, (exp, meta)) in enumerate(progs):
        rl = real[i]
        bl = [f for f in rl["findings"] if f[0] in blids]
        res.case(src, True, sample={"program": src, "expect": list(exp), "meta": meta, "real_blacklist_findings": [list(f[:4]) for f in bl]} if i % 997 == 0 else None)
        res.count(meta["kind"] + ":" + meta["spelling"])
        if "context" in meta:
            res.count("context:" + meta["context"])
        # (1) correspondence model vs implementation
        if model is not None:
            if "error" in model[i]:
                res.break_("driver-error", model[i]["error"])
            else:
                if str(meta.get("context", "")).startswith("deep:"):
                    # a deep nest: other checks (B703, B608) recurse to a depth proportional to the program and run into CPython's recursion limit, which the
                    # model does not have (known finding C06-recursion-limit, C06's business): compare the blacklist findings only
                    diff = C.compare_scan({"findings": [f for f in rl["findings"] if f[0] in blids], "errors": [e for e in rl["errors"] if e == "blacklist"]},
                                          dict(model[i], findings=[f for f in model[i]["findings"] if f[0] in blids], crashes=[c for c in model[i].get("crashes", []) if c == "blacklist"]), blids)
                else:
                    diff = C.compare_scan(rl, model[i], blids)
                if diff:
                    res.break_("correspondence", json_safe({"program": src, "diff": diff}))
                    res.count("correspondence-mismatch")
        if rl["errors"]:
            # a crash of a check on a generated program is C06's business; note it
            res.count("impl-check-crash")
        # (2) spec
        if exp[0] == "hit":
            _, rid, sev, line = exp
            ok = any(f[0] == rid and f[1] == sev and f[2] == "HIGH" and f[3] == line for f in bl)
            if not ok:
                res.violation(f"blacklisted name not reported as {rid}/{sev}/HIGH on line {line}",
                              {"program": src, "expected": list(exp), "real_blacklist_findings": [list(f) for f in bl], "meta": meta})
        elif exp[0] == "miss":
            bl = [f for f in bl if f[3] >= exp[1]]      # the prelude's own import may legitimately be reported
            if bl:
                res.violation("blacklist finding on a name that is not in the tables",
                              {"program": src, "real_blacklist_findings": [list(f) for f in bl], "meta": meta})
        elif exp[0] == "miss-import":
            # silence is required only if no qualname dotted-matches any imported/literal name in the program
            names = imported_names(src)
            genuine = any(n == qq or n.startswith(qq + ".") for n in names for qq in import_q_all + [q for r in call_rules for q in r["qualnames"]])
            if bl and not genuine:
                stringy = any(n.startswith(qq) for n in names for qq in import_q_all)
                if stringy and model is not None and "error" not in model[i] and not C.compare_scan(rl, model[i], blids):
                    res.known_finding("C01-import-string-prefix")
                else:
                    res.violation("blacklist finding on an import that denotes no blacklisted module",
                                  {"program": src, "real_blacklist_findings": [list(f) for f in bl], "meta": meta})
    res.exhaustive = thorough
    res.extra["programs"] = len(progs)
    res.extra["rules"] = {"call": len(call_rules), "import": len(import_rules)}


def imported_names(src):
    import ast
    out = []
    for n in ast.walk(ast.parse(src)):
        if isinstance(n, ast.Import):
            out += [a.name for a in n.names]
        elif isinstance(n, ast.ImportFrom):
            out += [(n.module or "") + "." + a.name for a in n.names]
        elif isinstance(n, ast.Call) and n.args and isinstance(n.args[0], ast.Constant) and isinstance(n.args[0].value, str):
            out.append(n.args[0].value)
        elif isinstance(n, ast.Call):
            out += [k.value.value for k in n.keywords if k.arg == "name" and isinstance(k.value, ast.Constant) and isinstance(k.value.value, str)]
    return out


def json_safe(x):
    return x


def run(res, ctx):
    _run_main(res, ctx)
    # the neighbourhood of every construct of bandit's example files (harness/metamorph.py): model vs implementation on this family's ids
    metamorph.family(res, ctx, C, C.blacklist_ids(), 700, 4000, sections="none")
