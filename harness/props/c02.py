"""C02 — nosec suppresses exactly the findings it names, on the lines it marks."""
import re
import common as C

LEVEL = "proof"

# statement layouts: list of physical lines; every layout yields several findings of distinct IDs
LAYOUTS = {
    "one_line": ["assert subprocess.Popen('ls', shell=True)"],
    "two_lines": ["assert subprocess.Popen('ls',", "    shell=True)"],
    "four_lines": ["assert subprocess.Popen(", "    'ls',", "    shell=True,", ")"],
    "five_lines": ["assert subprocess.Popen(", "    'ls'", "    ,", "    shell=True", ")"],
    "call_stmt": ["subprocess.call(", "    ['tar', 'x'],", "    shell=True)"],
    "password_kw": ["connect(host,", "        password='hunter2',", "        bind='0.0.0.0')"],
    "str_in_dict": ["cfg = {", "    'password': 'x',", "    'dir': '/tmp/x',", "}"],
    "pickle_two": ["data = pickle.loads(", "    blob)"],
    "except_pass": ["try:", "    pass", "except Exception:", "    pass"],
    "nested_later_line": ["subprocess.Popen('ls',", "                 shell=True, env=pickle.loads(blob))"],
    "nested_three": ["subprocess.call(cmd,", "                input=pickle.loads(b),", "                shell=True)"],
    # rules whose registered NAME contains capitals (seeded change C02-m4 lower-cased the queried name only)
    # plugins whose published name differs from the name of the function that implements them (B324 hashlib_insecure_functions / hashlib, B508 snmp_insecure_version /
    # snmp_insecure_version_check, B509 snmp_weak_cryptography / snmp_crypto_check): seeded change C02-m9 resolved nosec names through the function names
    "hash_md5": ["h = hashlib.md5(", "    data) or subprocess.Popen(c, shell=True)"],
    "snmp": ["c = pysnmp.hlapi.CommunityData('public',", "    mpModel=0) or pysnmp.hlapi.UsmUserData('u', 'a') or subprocess.Popen(c, shell=True)"],
    # a whole-file finding (B613 reports the line of the control character, its context is the file placeholder [0, 1]): the comment on the reported line counts
    # (seeded change C02-m11 consulted it only when the line lies in the context's range)
    "bidi": ["x = 1", "label = 'a\u202eb'", "y = 2  # \u2066 isolate", "z = 3"],
    # strings that are parameter defaults: their parent (`arguments`) has no position of its own, the lines searched for comments come from the neighbouring
    # nodes (seeded change C02-m12 gave such nodes the placeholder range)
    "def_defaults": ["def serve(host='0.0.0.0',", "          scratch='/tmp/x.sock',", "          port=8080):", "    return host"],
    "lambda_default": ["handler = lambda bind='0.0.0.0', tmp='/var/tmp/q': bind"],
    # a comment on a line of its own INSIDE the statement (the blank line takes the comment): it sits on a line of the flagged statement like any other
    # (seeded change C02-m13 dropped comments that have only white space before the `#`)
    "blank_inside": ["subprocess.Popen(", "", "    'ls *',", "    shell=True,", ")"],
    "blank_in_handler": ["try:", "    pass", "except Exception:", "", "    pass"],
    "blank_in_load": ["cfg = yaml.load(", "", "    data,", ")"],
    "et_parse": ["t = xml.etree.cElementTree.parse(", "    src) or xml.etree.ElementTree.parse(src) or subprocess.Popen(c, shell=True)"],
    # an outer node and the inner node it BEGINS with start at the same (line, column) but end on different lines: the inner call occupies line 1 only, a comment on
    # the continuation line is outside its span (seeded change C02-m15 cached the comment lookup per start position: the inner call inherited the outer call's lines)
    "chained_same_start": ["subprocess.Popen(cmd, shell=True).communicate(", "    input=pickle.loads(blob))"],
    "chained_three": ["subprocess.Popen('ls *', shell=True).communicate(", "    input=pickle.loads(blob),", "    timeout=eval(t))"],
    "call_of_call_same_start": ["subprocess.Popen(cmd, shell=True)(", "    pickle.loads(blob))"],
    "subscript_same_start": ["subprocess.Popen(cmd, shell=True)[", "    pickle.loads(blob)]"],
}
# the test IDs each layout triggers (for targeted two-comment enumeration)
LAYOUT_IDS = {"one_line": ["B101", "B602", "B607"], "four_lines": ["B101", "B602", "B607"], "nested_later_line": ["B602", "B607", "B301"],
              "nested_three": ["B602", "B301"], "password_kw": ["B106", "B104"], "call_stmt": ["B602", "B607"], "str_in_dict": ["B105", "B108"],
              "et_parse": ["B313", "B314", "B602"], "hash_md5": ["B324", "B602"], "snmp": ["B508", "B509", "B602"],
              "bidi": ["B613"], "def_defaults": ["B104", "B108"], "lambda_default": ["B104", "B108"],
              "blank_inside": ["B602", "B607"], "blank_in_handler": ["B110"], "blank_in_load": ["B506"],
              "chained_same_start": ["B602", "B301"], "chained_three": ["B602", "B607", "B301", "B307"], "call_of_call_same_start": ["B602", "B301"],
              "subscript_same_start": ["B602", "B301"]}
PRELUDE = ["import subprocess", "import pickle"]

TESTS_TEXTS = [
    "", " B101", " B602", " B607", " B404", " B101, B602", " B101,B602", " B101 B602", ": B101", ":B602", ": B101, B607",
    " assert_used", " subprocess_popen_with_shell_equals_true", " start_process_with_partial_path", " import_subprocess",
    " assert_used, B602", " B101 because it is fine", " because reasons", " B999", " B101 B999", " b101", " B104", " B105 B106",
    " hardcoded_password_funcarg", " hardcoded_bind_all_interfaces,hardcoded_password_funcarg", " B301", " pickle", " B403 B301",
    " B110", " try_except_pass", " B001", " blacklist",
    " B602: constant command", " B101: fine, B607", ": B602: checked", " subprocess_popen_with_shell_equals_true: reviewed", " B607:",
    " xml_bad_cElementTree", " xml_bad_ElementTree", " xml_bad_cElementTree, B602", " B313", " B314 xml_bad_cElementTree", " XML_BAD_CELEMENTTREE", " Assert_Used",
]
PREFIXES = ["# nosec", "#nosec", "#  nosec", "# noqa # nosec", "# type: ignore # nosec", "# pragma: no cover  #nosec"]
SUFFIXES = ["", " # noqa", " # pylint: disable=all"]
NON_NOSEC = ["# no sec", "# NOSEC", "# nose", "# ordinary comment", "# nosecurity issue here"]


def spec_names(comment, registry):
    """Documented grammar: after `# nosec[:]`, IDs / names separated by ', ' ',' ' '; trailing prose ignored;
    nothing valid named => bare.  Returns None (not a nosec comment) | set()."""
    m = re.search(r"#\s*nosec", comment)
    if not m:
        return None
    rest = comment[m.end():]
    if rest.startswith(":"):
        rest = rest[1:]
    rest = rest.split("#", 1)[0]
    out = set()
    # ':' is a documented separator too: `# nosec B602: constant command` names B602 (seeded change C02-m3 required whitespace/comma around a token)
    for tok in re.split(r"[,\s:]+", rest.strip()):
        if not tok:
            continue
        if tok in registry["ids"]:
            out.add(tok)
        elif tok in registry["names"]:
            out.add(registry["names"][tok])
    return out


def registry_maps():
    """IDs and documented names -> ID, read from what bandit PUBLISHES rather than from the lookup tables the nosec parser itself uses (seeded change C02-m9
    keyed `plugins_by_name` by the check function's __name__): plugin names are the entry-point names of setup.cfg, their IDs the `_test_id` of the function the
    entry point loads; blacklist names and IDs come from the rule tables."""
    import importlib, benv
    from bandit.core import extension_loader as el
    m = el.MANAGER
    ids = set(m.plugins_by_id) | set(m.blacklist_by_id) | set(m.builtin)
    names = {}
    for name, target in benv.entry_points_from_setup_cfg(C.REPO).get("bandit.plugins", []):
        mod, _, fn = target.partition(":")
        try:
            names[name] = getattr(importlib.import_module(mod), fn)._test_id
        except Exception:
            pass
    for rules in m.blacklist.values():
        for r in rules:
            names.setdefault(r["name"], r["id"])
    return {"ids": ids, "names": names}


def build_cases(res, rng, thorough):
    cases = []
    texts = []
    for pre in PREFIXES:
        for t in TESTS_TEXTS:
            for suf in SUFFIXES:
                texts.append(pre + t + suf)
    n_cases = 2500 if thorough else 450
    layouts = list(LAYOUTS.items())
    # deterministic corpus of the interesting corners first
    corpus = [
        ("four_lines", {2: "# nosec"}), ("four_lines", {4: "# nosec B602"}), ("four_lines", {2: "# nosec B101,B602"}),
        ("four_lines", {2: "# nosec", 4: "# nosec B101"}), ("four_lines", {3: "# nosec B607"}), ("one_line", {2: "# nosec B101, B602, B607"}),
        ("four_lines", {1: "# nosec"}), ("four_lines", {0: "# nosec"}), ("four_lines", {6: "# nosec"}), ("two_lines", {3: "# nosec: B602"}),
        ("password_kw", {3: "# nosec B106"}), ("password_kw", {4: "# nosec"}), ("str_in_dict", {3: "# nosec"}), ("str_in_dict", {4: "# nosec B108"}),
        ("except_pass", {4: "# nosec"}), ("except_pass", {5: "# nosec B110"}), ("pickle_two", {2: "# nosec B301"}), ("pickle_two", {3: "# nosec pickle"}),
        ("et_parse", {2: "# nosec xml_bad_cElementTree"}), ("et_parse", {3: "# nosec xml_bad_ElementTree"}), ("et_parse", {2: "# nosec B313", 3: "# nosec xml_bad_ElementTree"}),
        ("et_parse", {3: "# nosec B101, xml_bad_ElementTree"}), ("et_parse", {2: "# nosec xml_bad_celementtree"}),
        ("blank_inside", {3: "# nosec"}), ("blank_inside", {3: "# nosec B602"}), ("blank_in_handler", {5: "# nosec: try_except_pass"}), ("blank_in_handler", {5: "# nosec"}),
        ("blank_in_load", {3: "# nosec"}), ("blank_in_load", {3: "# nosec B506"}), ("blank_inside", {3: "# nosec B101"}),
        ("bidi", {3: "# nosec"}), ("bidi", {3: "# nosec B613"}), ("bidi", {4: "# nosec: trojansource"}), ("bidi", {3: "# nosec B101"}), ("bidi", {4: "# nosec B101, B613"}), ("bidi", {2: "# nosec"}),
        ("def_defaults", {2: "# nosec B104"}), ("def_defaults", {3: "# nosec"}), ("def_defaults", {3: "# nosec B104"}), ("def_defaults", {2: "# nosec B108", 3: "# nosec B108"}),
        ("lambda_default", {2: "# nosec B108, B104"}), ("lambda_default", {2: "# nosec hardcoded_tmp_directory"}),
    ]
    for lay, cm in corpus:
        cases.append((lay, cm, "corpus"))
    for _ in range(n_cases):
        lay, lines = rng.choice(layouts)
        total = len(PRELUDE) + len(lines) + 2     # + a trailing statement line and an extra
        k = rng.choice([1, 1, 1, 2, 2, 3])
        cm = {}
        for ln in rng.sample(range(0, total), min(k, total)):
            r = rng.random()
            if r < 0.8:
                cm[ln] = rng.choice(texts)
            elif r < 0.9:
                cm[ln] = rng.choice(NON_NOSEC)
            else:
                cm[ln] = "# nosec" + rng.choice(TESTS_TEXTS)
        cases.append((lay, cm, "random"))
    # structured: two comments on two different lines of the statement — (ordinary | bare | specific) x (bare | specific)
    first_kinds = ["# ordinary remark", "# noqa: E501", "# nosec", None]
    for lay, ids in LAYOUT_IDS.items():
        n = len(LAYOUTS[lay])
        base = len(PRELUDE)
        for i in range(n):
            for j in range(n):
                if i == j:
                    continue
                for a in first_kinds + ["# nosec " + x for x in ids]:
                    for b in ["# nosec"] + ["# nosec " + x for x in ids]:
                        if a is None:
                            continue
                        if not thorough and rng.random() > 0.35:
                            continue
                        cases.append((lay, {base + i: a, base + j: b}, "two-comments"))
    # every published plugin name whose check fires on these layouts, alone and next to another valid test (C02-m9: names that differ from the function's
    # __name__ were no longer resolved; alone that still withheld — as a bare nosec —, next to another test it did not)
    reg_names = registry_maps()["names"]
    by_id = {}
    for nme, tid in reg_names.items():
        by_id.setdefault(tid, []).append(nme)
    for lay, ids in LAYOUT_IDS.items():
        base = len(PRELUDE)
        for tid in ids:
            for nme in by_id.get(tid, []):
                for ln in range(len(LAYOUTS[lay])):
                    if not thorough and rng.random() > 0.5:
                        continue
                    cases.append((lay, {base + ln: "# nosec " + nme}, "by-name"))
                    cases.append((lay, {base + ln: "# nosec B999x, " + nme}, "by-name-mixed"))
                    cases.append((lay, {base + ln: "# nosec %s, %s" % (rng.choice([i for i in ids if i != tid] or ["B101"]), nme)}, "by-name-mixed"))
    # nosec text inside a string literal is inert — also on the interior lines of a multi-line string and after a backslash continuation, inside the line span
    # of a flagged expression (seeded change C02-m10: a tokenizer-free fast path took `# ... nosec` on a quote-free line for a comment)
    T3 = '"' * 3
    ML_STRINGS = [
        ['subprocess.Popen(' + T3, 'set -e', '# nosec', 'ls -l %s', T3 + ' % d, shell=True)'],
        ['subprocess.Popen(' + T3, 'tar xf a.tar  # nosec B602, B607', T3 + ', shell=True)'],
        ["q = '''SELECT a", '  FROM t  -- # nosec', "  WHERE b = %s''' % v"],
        ["cur.execute('SELECT a FROM t \\", '  # nosec B608 \\', "  WHERE b = ' + v)"],
        ['assert pickle.loads(' + T3, '# nosec', '#nosec B301', T3 + ')'],
    ]
    for ml in ML_STRINGS:
        cases.append(("raw", {-2: ml}, "string-literal-multiline"))
    # nosec text inside a string literal is inert
    cases.append(("one_line", {-1: 's = "# nosec"'}, "string-literal"))
    cases.append(("four_lines", {-1: "s = '''# nosec B101'''"}, "string-literal"))
    return cases


def render(lay, cm):
    if -2 in cm:
        return "\n".join(list(PRELUDE) + cm[-2] + ["done = 1"]) + "\n", {}
    lines = list(PRELUDE) + list(LAYOUTS[lay]) + ["done = 1", "z = 2"]
    out = []
    if -1 in cm:
        # a string literal containing nosec, placed right before the statement on its own line
        lines = list(PRELUDE) + [cm[-1]] + list(LAYOUTS[lay]) + ["done = 1", "z = 2"]
        return "\n".join(lines) + "\n", {}
    comments = {}
    for i, l in enumerate(lines):
        if i in cm:
            out.append(l + "  " + cm[i])
            comments[i + 1] = cm[i]
        else:
            out.append(l)
    return "\n".join(out) + "\n", comments


def key(f):
    return (f[0], f[3], f[5])


def _run_props(res, ctx):
    reg = registry_maps()
    rng = C.rng_for(res.seed, "C02")
    thorough = res.tier == "thorough"
    res.rule = ("statements with several findings of distinct test IDs laid out on 1-5 physical lines; nosec comment texts from the mini-language "
                "(6 prefixes x 32 test lists x 3 suffixes, plus non-nosec look-alikes) placed on 1-3 random lines of the program (import lines, every statement "
                "line, lines after it), a fixed corpus of corners first; each case is scanned with and without --ignore-nosec by real bandit and by the Lean model; "
                "non-trivial = distinct program text containing at least one nosec-looking comment or string")
    if ctx.get("replay"):
        rp = ctx["replay"]["replay"]
        progs = [(rp["program"], rp.get("comments", {}), {"layout": "replay"})]
    else:
        progs = []
        seen = set()
        for lay, cm, kind in build_cases(res, rng, thorough):
            src, comments = render(lay, cm)
            if src in seen:
                continue
            seen.add(src)
            progs.append((src, comments, {"layout": lay, "kind": kind}))
    sources = [p[0].encode() for p in progs]
    scratch = C.Scratch()
    try:
        real_n = C.batch_real_scan(scratch, sources, ignore_nosec=False)
        real_i = C.batch_real_scan(scratch, sources, ignore_nosec=True)
        model_n = model_i = None
        if ctx["driver_ok"]:
            d = C.Driver()
            model_n = d.ask_many([C.scan_request(s, ignore_nosec=False) for s in sources])
            model_i = d.ask_many([C.scan_request(s, ignore_nosec=True) for s in sources])
            d.close()
    finally:
        scratch.close()
    blids = C.blacklist_ids()
    from bandit.core import manager as b_manager
    impl_parse = getattr(b_manager, "_parse_nosec_comment", None)
    for i, (src, comments, meta) in enumerate(progs):
        rn, ri = real_n[i], real_i[i]
        comments = {int(k): v for k, v in comments.items()}
        res.case(src, True, sample={"program": src, "reported": [list(f[:4]) for f in rn["findings"]], "nosec": rn["nosec"], "skipped_tests": rn["skipped_tests"]} if i % 211 == 0 else None)
        res.count("layout:" + meta.get("layout", "?"))
        res.count("comments:%d" % len(comments))
        # ---- correspondence
        agree = True
        if model_n is not None:
            for tag, r, m in (("normal", rn, model_n[i]), ("ignore", ri, model_i[i])):
                if "error" in m:
                    res.break_("driver-error", m["error"]); agree = False; continue
                diff = C.compare_scan(r, m, blids)
                if tag == "normal" and not diff and (m["nosec"], m["skipped_tests"]) != (r["nosec"], r["skipped_tests"]):
                    diff = {"counters": {"real": [r["nosec"], r["skipped_tests"]], "model": [m["nosec"], m["skipped_tests"]]}}
                if diff:
                    agree = False
                    res.break_("correspondence", {"program": src, "mode": tag, "diff": diff})
        # ---- spec oracle on the implementation alone
        all_f = ri["findings"]
        rep = rn["findings"]
        # (a) reported ⊆ all, records unchanged
        extra = [f for f in rep if f not in all_f]
        if extra:
            res.violation("finding reported only when nosec handling is active, or changed by it", {"program": src, "extra": [list(f) for f in extra]})
            continue
        withheld = list(all_f)
        for f in rep:
            withheld.remove(f)
        # (b) counters
        if rn["nosec"] + rn["skipped_tests"] != len(withheld):
            res.violation("nosec + skipped_tests counters differ from the number of withheld findings",
                          {"program": src, "nosec": rn["nosec"], "skipped_tests": rn["skipped_tests"], "withheld": [list(f) for f in withheld]})
        if ri["nosec"] + ri["skipped_tests"] != 0:
            res.violation("counters non-zero under --ignore-nosec", {"program": src})
        # (c) withheld iff covered
        names = {ln: spec_names(txt, reg) for ln, txt in comments.items()}
        for f in all_f:
            L = sorted(set([f[3]] + list(f[4])))
            nosec_lines = [l for l in L if names.get(l) is not None]
            covered = any(len(names[l]) == 0 or f[0] in names[l] for l in nosec_lines)
            is_withheld = f in withheld
            if covered == is_withheld:
                res.count("spec-agree:" + ("withheld" if covered else "reported"))
                continue
            # classify the deviation
            region = None
            if len(nosec_lines) >= 2:
                region = "C02-two-nosec-comments"
            else:
                for l in nosec_lines:
                    txt = comments[l]
                    if re.search(r",[A-Za-z0-9_]", txt.split("nosec", 1)[1].split("#", 1)[0]):
                        region = "C02-comma-without-space"
            if region and agree and model_n is not None:
                res.known_finding(region)
            else:
                res.violation("withheld ≠ (a nosec comment on the finding's lines is bare or names its test)",
                              {"program": src, "comments": comments, "finding": list(f), "lines": L, "covered_by_spec": covered, "withheld_by_impl": is_withheld})
        # (d) optional accelerator: the comment parser itself against the model
    # ---- under a SELECTION: a comment that names only tests which are not selected stays a comment naming those tests — it does not become a blanket one
    #      (seeded change C02-m14 intersected the named ids with the selected ones; an empty intersection then read as a bare `# nosec`)
    sel_progs = [p for p in progs if p[1]][:: max(1, len([p for p in progs if p[1]]) // 160)][:160]
    scratch2 = C.Scratch()
    try:
        for prof in ({"exclude": {"B101"}, "include": set()}, {"include": {"B602", "B607", "B301"}, "exclude": set()}, {"exclude": {"B602", "B404", "B403"}, "include": set()}):
            srcs = [p[0].encode() for p in sel_progs]
            rn = C.batch_real_scan(scratch2, srcs, ignore_nosec=False, profile=prof)
            ri_ = C.batch_real_scan(scratch2, srcs, ignore_nosec=True, profile=prof)
            for (src, comments, meta), a, b in zip(sel_progs, rn, ri_):
                comments = {int(k): v for k, v in comments.items()}
                names = {ln: spec_names(txt, reg) for ln, txt in comments.items()}
                res.case(("selection", tuple(sorted(prof["include"])), tuple(sorted(prof["exclude"])), src), True)
                res.count("under-selection")
                withheld = list(b["findings"])
                for f in a["findings"]:
                    if f in withheld:
                        withheld.remove(f)
                for f in b["findings"]:
                    L = sorted(set([f[3]] + list(f[4])))
                    nosec_lines = [l for l in L if names.get(l) is not None]
                    if len(nosec_lines) >= 2:
                        continue                      # two comments on one finding: the listed known finding's region
                    covered = any(len(names[l]) == 0 or f[0] in names[l] for l in nosec_lines)
                    if covered != (f in withheld) and not any(re.search(r",[A-Za-z0-9_]", comments[l].split("nosec", 1)[1].split("#", 1)[0]) for l in nosec_lines):
                        res.violation("under a selection: withheld ≠ (a nosec comment on the finding's lines is bare or names its test)",
                                      {"program": src, "comments": comments, "selection": {k: sorted(v) for k, v in prof.items()}, "finding": list(f), "covered_by_spec": covered, "withheld_by_impl": f in withheld})
    finally:
        scratch2.close()
    # ---- line-end styles: the same program with CRLF and with lone-CR line ends has the same lines for the parser, so its comments mark the same findings (found on the
    #      unchanged tree: the comment pass read the bytes line by line with readline(), which ends a line at `\n` only, while the parser counts a lone `\r` as a line end:
    #      in a CR-only file every comment was attributed to line 1)
    nl_progs = [p for p in progs if p[1] and "\\\n" not in p[0]][:: max(1, len([p for p in progs if p[1]]) // 60)][:60]
    scratch4 = C.Scratch()
    try:
        lf = C.batch_real_scan(scratch4, [p[0].encode() for p in nl_progs], ignore_nosec=False)
        for style, nl in (("CRLF", "\r\n"), ("CR", "\r")):
            alt = C.batch_real_scan(scratch4, [p[0].replace("\n", nl).encode() for p in nl_progs], ignore_nosec=False)
            for (src, comments, meta), a, b in zip(nl_progs, lf, alt):
                res.case(("line-ends", style, src), True)
                res.count("line-end-style:" + style)
                fa = sorted(tuple(f[:4]) for f in a["findings"])
                fb = sorted(tuple(f[:4]) for f in b["findings"])
                if fa != fb or (a["nosec"], a["skipped_tests"]) != (b["nosec"], b["skipped_tests"]) or bool(a["skipped"]) != bool(b["skipped"]):
                    res.violation("the same program with %s line ends: nosec comments withhold other findings than with LF line ends" % style,
                                  {"program (LF)": src, "comments": {str(k): v for k, v in comments.items()}, "reported_LF": [list(x) for x in fa], "reported_" + style: [list(x) for x in fb],
                                   "counters_LF": [a["nosec"], a["skipped_tests"]], "counters_" + style: [b["nosec"], b["skipped_tests"]], "skipped_" + style: b["skipped"]})
    finally:
        scratch4.close()
    # ---- the counters of a whole RUN: programs with nosec comments scanned as directory targets given in different spellings (relative names that begin with `_`, `.`,
    #      a nested path, `./x`, an absolute path), alone and together — `_totals.nosec + _totals.skipped_tests` equals the number of findings the comments withheld
    #      (= findings with --ignore-nosec minus findings without); seeded change C02-m16 left every metrics block whose key starts with `_` out of the totals
    import json as _json, os as _os
    scratch3 = C.Scratch()
    try:
        with_comments = [p for p in progs if p[1]]
        picks = with_comments[:: max(1, len(with_comments) // 12)][:12]
        root3 = _os.path.join(scratch3.root, "targets"); _os.makedirs(root3)
        dirs3 = ["_vendor", "__generated__", ".hidden_pkg", "pkg/_private", "plain"]
        for di, dname in enumerate(dirs3):
            _os.makedirs(_os.path.join(root3, dname), exist_ok=True)
            for k, (src, _c, _m) in enumerate(picks[di::len(dirs3)] or picks[:1]):
                open(_os.path.join(root3, dname, "_m%d.py" % k if k % 2 else "m%d.py" % k), "w").write(src)
        target_sets = [[d] for d in dirs3] + [["./" + dirs3[0]], [_os.path.join(root3, dirs3[0])], ["_vendor", "plain"], list(dirs3)]
        for ts in target_sets:
            outs = {}
            for ign in (False, True):
                r = C.run_cli(["-r", "-f", "json", "-q"] + (["--ignore-nosec"] if ign else []) + ts, cwd=root3)
                try:
                    outs[ign] = _json.loads(r["out"])
                except Exception:
                    outs[ign] = None
            res.case(("run-counters", tuple(ts)), True)
            res.count("run-counter-target-sets")
            if outs[False] is None or outs[True] is None:
                res.violation("no JSON report for a directory target", {"targets": ts})
                continue
            withheld_n = len(outs[True]["results"]) - len(outs[False]["results"])
            tot = outs[False]["metrics"]["_totals"]
            per_file = {k: v for k, v in outs[False]["metrics"].items() if k != "_totals"}
            s_files = sum(v["nosec"] + v["skipped_tests"] for v in per_file.values())
            if tot["nosec"] + tot["skipped_tests"] != withheld_n or s_files != withheld_n:
                res.violation("the run's nosec + skipped_tests counters differ from the number of findings withheld by nosec comments",
                              {"targets": ts, "cwd_holds": dirs3, "withheld (ignore-nosec results minus normal results)": withheld_n, "totals": {"nosec": tot["nosec"], "skipped_tests": tot["skipped_tests"]},
                               "sum_over_files": s_files, "metric_keys": sorted(per_file)[:8]})
    finally:
        scratch3.close()
    # parser-level differential: every comment text through _parse_nosec_comment vs model
    if ctx["driver_ok"] and impl_parse is not None:
        d = C.Driver()
        alpha = ["#", " ", "  ", "\t", "nosec", "nosec:", "no sec", "NOSEC", "B101", "B602", "b101", "B1", "assert_used", "exec_used", "pickle", ",", ", ", ":",
                 "because", "x", "-", ";", "(", ")", "B101,B102", "B102,", "noqa", "'", "é", "B999", "_", "1", " ", "²", "٣", "ſ", "K", "B", "b"]
        n = 6000 if thorough else 1500
        texts = []
        for _ in range(n):
            c = "".join(rng.choice(alpha) for _ in range(rng.randint(1, 9)))
            texts.append(c if c.startswith("#") else "#" + c)
        outs = d.ask_many([{"op": "nosec", "text": t} for t in texts])
        d.close()
        bad = 0
        for t, o in zip(texts, outs):
            a = impl_parse(t)
            a = None if a is None else sorted(a)
            b = None if o is None else sorted(set(o))
            res.evaluations += 1
            if a != b:
                bad += 1
                if bad <= 3:
                    res.break_("correspondence:nosec-parser", {"comment": t, "impl": a, "model": b})
        res.extra["parser_texts"] = len(texts)
        res.extra["parser_mismatches"] = bad
    res.extra["programs"] = len(progs)


def run(res, ctx):
    import clirel
    _run_props(res, ctx)
    # relations between runs of the command-line tool that differ in one kind of option (harness/clirel.py): the relations this property owns
    clirel.family(res, ctx, C, "C02", 150, 900)
