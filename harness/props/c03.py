"""C03 — exit status and threshold filtering tell CI the truth.

`bandit.cli.main.main()` is driven in-process (C.run_cli) on generated programs whose findings
cover many (severity, confidence) rank pairs, over the finite option space
  4x4 thresholds x {count, name} spelling per threshold x 10 report formats x --exit-zero x {-, -q, -v}.
For every run:
  * the report is parsed back and compared (as a multiset of (file, id, severity, confidence, line))
    with filter(unfiltered) where `unfiltered` comes from BanditManager.results (no filter code involved)
    and the filter is the SPEC (rank order written here from the property text, not read from bandit);
  * the exit status is compared with the spec and with the Lean model (`cli` op of the driver,
    evaluated over the tables regenerated from /repo);
  * any exception other than SystemExit leaving main() is a traceback.
Streams: `natural` (real constructs), `injected` (all 16 rank pairs incl. UNDEFINED and HIGH/LOW, which no
shipped check produces, appended to manager.results behind run_tests()), `error` (usage/config errors must
exit 2 with a diagnostic), `observe` (-llll: outside the property's spellings, model replayed), `ini`
(INI level/confidence: regression of the fixed defect C03-ini-level-traceback; command line wins over INI)."""
import csv as _csv, io, itertools, json, os, re, shutil, tempfile, hashlib
import xml.etree.ElementTree as ET

import common as C

LEVEL = "proof"

# ---- the SPEC's vocabulary (from the property text / --help), deliberately not imported from bandit
RANKS = ["UNDEFINED", "LOW", "MEDIUM", "HIGH"]
RIDX = {r: i for i, r in enumerate(RANKS)}
NAMES = ["all", "low", "medium", "high"]
TEMPLATE = "{relpath}|{test_id}|{severity}|{confidence}|{line}"
ALL_FORMATS = ["json", "yaml", "csv", "xml", "html", "sarif", "txt", "screen", "custom", "custom-default"]
VERB = ["", "q", "v"]
KNOWN_INI = "C03-ini-level-traceback"

POOL = [
    "assert x", 'password = "x1"', "import pickle", "pickle.loads(d)", "subprocess.Popen(c, shell=True)",
    "subprocess.Popen('ls', shell=True)", "f(shell=True)", "s.bind(('0.0.0.0', 1))", "requests.get(u)", "hashlib.md5()",
    "eval(x)", "exec(x)", "tmp = '/tmp/x'", "app.run(debug=True)",
    "tarfile.open(p).extractall()", "try:\n    pass\nexcept Exception:\n    pass",
    "ssh.set_missing_host_key_policy(paramiko.AutoAddPolicy)", "jinja2.Environment(autoescape=False)",
    "jinja2.Environment(autoescape=x)", "yaml.load(x)", "os.chmod('f', 0o777)", "random.random()",
    "x = 1", "t.extractall(members=m)", "t.extractall(members=filt(t))", "cur.execute('SELECT * FROM t WHERE a = %s' % v)",
    "q = 'SELECT * FROM t WHERE a = %s' % v", "ssl.wrap_socket(ssl_version=ssl.PROTOCOL_SSLv2)", "os.system('rm ' + x)",
    "os.system('ls')", "os.popen('tar xf *')", "ssl.wrap_socket()", "def g(password='abc'):\n    pass", "os.execl(a, b)",
    "requests.get(u, verify=False)", "import telnetlib", "print('hello')", "def h():\n    return 1",
]
PRELUDE = ("import os, ssl, random, subprocess, hashlib, tarfile\nimport jinja2, yaml, paramiko, requests\n"
           "from flask import Flask\napp = Flask(__name__)\nt = tarfile.open(p)\n")
# one statement per natural rank pair (8 of the 9 pairs over LOW..HIGH exist in the shipped checks)
ALL_NATURAL = ["assert x", 'password = "x1"', "t.extractall(members=filt(t))", "f(shell=True)", "s.bind(('0.0.0.0', 1))",
               "pickle.loads(d)", "app.run(debug=True)", "hashlib.md5()", "x = 1", "assert y"]


# ----------------------------------------------------------------------------- report parsers
def _base(p):
    return os.path.basename(str(p))


ANSI = re.compile(r"\x1b\[[0-9;]*m")
TXT_RE = re.compile(r">> Issue: \[([^:\]]+):[^\]]*\].*?\n\s*Severity: (\w+)\s+Confidence: (\w+)\n.*?Location: ([^\n]*?):(\d*):(\d*)\n", re.S)
HTML_RE = re.compile(r"<b>Test ID:</b> ([^<]+)<br>\s*<b>Severity: </b>(\w+)<br>\s*<b>Confidence: </b>(\w+)<br>.*?"
                     r"<b>File: </b><a href=\"([^\"]*)\".*?<b>Line number: </b>(\d+)<br>", re.S)


def parse_report(fmt, text):
    """-> list of (file basename, test id, SEVERITY, CONFIDENCE|None, line)"""
    out = []
    if fmt == "json":
        for r in json.loads(text)["results"]:
            out.append((_base(r["filename"]), r["test_id"], r["issue_severity"], r["issue_confidence"], int(r["line_number"])))
    elif fmt == "yaml":
        import yaml
        for r in (yaml.safe_load(text) or {}).get("results", []) or []:
            out.append((_base(r["filename"]), r["test_id"], r["issue_severity"], r["issue_confidence"], int(r["line_number"])))
    elif fmt == "csv":
        for r in _csv.DictReader(io.StringIO(text)):
            out.append((_base(r["filename"]), r["test_id"], r["issue_severity"], r["issue_confidence"], int(r["line_number"])))
    elif fmt == "xml":
        root = ET.fromstring(text)
        n = 0
        for tc in root.iter("testcase"):
            err = tc.find("error")
            m = re.search(r"Test ID: (\S+) Severity: (\S+) Confidence: (\S+)\n", err.text)
            l = re.search(r"Location .*:(\d+)\s*$", err.text)
            out.append((_base(tc.get("classname")), m.group(1), m.group(2), m.group(3), int(l.group(1))))
            n += 1
        if int(root.get("tests")) != n:
            raise ValueError("xml: tests attribute %s != %d testcases" % (root.get("tests"), n))
    elif fmt == "html":
        for m in HTML_RE.finditer(text):
            out.append((_base(m.group(4)), m.group(1).strip(), m.group(2), m.group(3), int(m.group(5))))
        if len(out) != len(re.findall(r'<div id="issue-\d+">', text)):
            raise ValueError("html: issue blocks not all parsed")
    elif fmt == "sarif":
        doc = json.loads(text)
        for r in doc["runs"][0].get("results") or []:
            loc = r["locations"][0]["physicalLocation"]
            out.append((_base(loc["artifactLocation"]["uri"]), r["ruleId"], r["properties"]["issue_severity"],
                        r["properties"]["issue_confidence"], int(loc["region"]["startLine"])))
    elif fmt in ("txt", "screen"):
        t = ANSI.sub("", text)
        for m in TXT_RE.finditer(t):
            out.append((_base(m.group(4)), m.group(1), m.group(2).upper(), m.group(3).upper(), int(m.group(5))))
        if len(out) != t.count(">> Issue: ["):
            raise ValueError("text: issue blocks not all parsed")
    elif fmt == "custom":
        for ln in text.splitlines():
            if not ln.strip():
                continue
            p = ln.split("|")
            out.append((_base(p[0]), p[1], p[2], p[3], int(p[4])))
    elif fmt == "custom-default":
        for ln in text.splitlines():
            if not ln.strip():
                continue
            m = re.match(r"(.*?):(\d+): (\S+)\[bandit\]: (\w+): ", ln)
            out.append((_base(m.group(1)), m.group(3), m.group(4), None, int(m.group(2))))
    else:
        raise ValueError(fmt)
    return out


# ----------------------------------------------------------------------------- injection of synthetic findings
class Inject:
    """Behind the stable entry point BanditManager.run_tests(): after the real run, append findings of the given
    (severity, confidence) pairs to manager.results.  Everything downstream (filter_results, results_count, every
    formatter, the exit decision of main()) is the real code."""
    def __init__(self, pairs):
        self.pairs = pairs

    def __enter__(self):
        if not self.pairs:
            return self
        from bandit.core import manager as b_manager, issue as b_issue
        self.cls = b_manager.BanditManager
        self.orig = self.cls.run_tests
        pairs, orig = self.pairs, self.orig

        def run_tests(mgr):
            r = orig(mgr)
            if mgr.files_list:
                fname = sorted(mgr.files_list)[0]
                for k, (s, c) in enumerate(pairs):
                    i = b_issue.Issue(severity=s, cwe=703, confidence=c, text="synthetic %s/%s" % (s, c), test_id="B101",
                                      lineno=k + 1, col_offset=0, end_col_offset=1)
                    i.fname, i.test, i.linerange = fname, "assert_used", [k + 1]
                    mgr.results.append(i)
            return r
        self.cls.run_tests = run_tests
        return self

    def __exit__(self, *a):
        if self.pairs:
            self.cls.run_tests = self.orig


def unfiltered_scan(paths, recursive, inject):
    """manager.results of a plain run: the findings of the unfiltered run (no threshold code involved)"""
    from bandit.core import config as b_config, manager as b_manager
    import linecache
    linecache.clearcache()
    C.take_log()
    with Inject(inject):
        mgr = b_manager.BanditManager(b_config.BanditConfig(), "file")
        mgr.discover_files(paths, recursive)
        mgr.run_tests()
    C.take_log()
    return [(_base(r.fname), r.test_id, r.severity, r.confidence, int(r.lineno)) for r in mgr.results]


# ----------------------------------------------------------------------------- cases
def spell_count(k, letter, longopt, style):
    if k == 0:
        return []
    if style == 0:
        return ["-" + letter * k]
    if style == 1:
        return ["-" + letter] * k
    return ["--" + longopt] * k


def build_argv(o, targets, outpath):
    """o: dict(sev, conf, sev_sp, conf_sp, fmt, exit_zero, verb, style, stdout)"""
    a = []
    if o["sev_sp"] == "count":
        a += spell_count(o["sev"], "l", "level", o.get("style", 0))
    else:
        a += ["--severity-level", NAMES[o["sev"]]]
    if o["conf_sp"] == "count":
        a += spell_count(o["conf"], "i", "confidence", o.get("style", 0))
    else:
        a += ["--confidence-level", NAMES[o["conf"]]]
    fmt = o["fmt"]
    if fmt == "custom":
        a += ["-f", "custom", "--msg-template", TEMPLATE]
    elif fmt == "custom-default":
        a += ["-f", "custom"]
    else:
        a += ["-f", fmt]
    if o["exit_zero"]:
        a.append("--exit-zero")
    if o["verb"] == "q":
        a.append(["-q", "--quiet", "--silent"][o.get("style", 0) % 3])
    elif o["verb"] == "v":
        a.append(["-v", "--verbose"][o.get("style", 0) % 2])
    to_file = fmt == "xml" or (fmt != "screen" and not o.get("stdout"))
    if to_file:
        a += ["-o", outpath]
    if o.get("recursive"):
        a.append("-r")
    return a + list(targets), to_file


def model_args(o, extra=None):
    m = {"format": "custom" if o["fmt"].startswith("custom") else o["fmt"], "exit_zero": bool(o["exit_zero"]),
         "quiet": o["verb"] == "q", "verbose": o["verb"] == "v"}
    if o["sev_sp"] == "count":
        m["sev_flags"] = o["sev"]
    else:
        m["sev_name"] = NAMES[o["sev"]]
    if o["conf_sp"] == "count":
        m["conf_flags"] = o["conf"]
    else:
        m["conf_name"] = NAMES[o["conf"]]
    if o["fmt"] == "custom":
        m["msg_template"] = "ok"
    if extra:
        m.update(extra)
    return m


def spec_reported(unfiltered, s, c):
    return [f for f in unfiltered if RIDX[f[2]] >= s and RIDX[f[3]] >= c]


class Program:
    def __init__(self, files, inject=None, recursive=False, label=""):
        self.files, self.inject, self.recursive, self.label = files, inject, recursive, label
        self.dir = None
        self.unfiltered = None

    def key(self):
        return hashlib.sha256(json.dumps([self.files, self.inject, self.recursive], sort_keys=True).encode()).hexdigest()[:12]

    def materialise(self, root, n):
        self.dir = os.path.join(root, "p%d" % n)
        os.makedirs(os.path.join(self.dir, "src"))
        for name, text in self.files.items():
            p = os.path.join(self.dir, "src", name)
            os.makedirs(os.path.dirname(p), exist_ok=True)
            with open(p, "w", encoding="utf-8") as f:
                f.write(text)
        if self.recursive:
            self.targets = [os.path.join(self.dir, "src")]
        else:
            self.targets = [os.path.join(self.dir, "src", n) for n in sorted(self.files)]
        self.unfiltered = unfiltered_scan(self.targets, self.recursive, self.inject)

    def as_dict(self):
        return {"files": self.files, "inject": self.inject, "recursive": self.recursive, "label": self.label}


def gen_program(rng, i):
    n = rng.choice([0, 1, 1, 2, 3, 4, 6, 9])
    stmts = [rng.choice(POOL) for _ in range(n)]
    files = {}
    nfiles = rng.choice([1, 1, 1, 2])
    for k in range(nfiles):
        mine = stmts[k::nfiles]
        body = (PRELUDE if rng.random() < 0.8 else "") + "\n".join(mine) + ("\n" if mine else "")
        files["m%d.py" % k if k else "a.py"] = body or "\n"
    rec = nfiles == 2 and rng.random() < 0.5
    if rec:
        files = {("pkg/" + k if j else k): v for j, (k, v) in enumerate(sorted(files.items()))}
    return Program(files, None, rec, "random#%d" % i)


def run_regular(prog, o, scratch_out):
    """one regular invocation -> observation dict"""
    argv, to_file = build_argv(dict(o, recursive=prog.recursive), prog.targets, scratch_out)
    if to_file and os.path.exists(scratch_out):
        os.remove(scratch_out)
    with Inject(prog.inject):
        r = C.run_cli(argv)
    text = None
    if to_file:
        if os.path.exists(scratch_out):
            with open(scratch_out, encoding="utf-8") as f:
                text = f.read()
    else:
        text = r["out"]
    obs = {"argv": argv, "exit": r["exit"], "exc": r["exc"], "exc_msg": r.get("exc_msg"), "to_file": to_file}
    if r["exc"] is None and r["exit"] in (0, 1):
        try:
            obs["reported"] = sorted(parse_report(o["fmt"], text if text is not None else ""))
        except Exception as e:  # report not parsable
            obs["parse_error"] = "%s: %s" % (type(e).__name__, e)
            obs["text_head"] = (text or "")[:400]
    else:
        obs["stderr_tail"] = r["err"][-300:]
    return obs


def judge_regular(res, prog, o, obs, model, stream):
    """spec oracle on the implementation + correspondence with the Lean model"""
    exp = sorted(spec_reported(prog.unfiltered, o["sev"], o["conf"]))
    exp_exit = 1 if (exp and not o["exit_zero"]) else 0
    replay = {"stream": stream, "program": prog.as_dict(), "options": o, "argv_tail": [a for a in obs["argv"] if not a.startswith(os.path.dirname(prog.dir or "\0\0"))],
              "unfiltered": prog.unfiltered, "expected_reported": exp, "expected_exit": exp_exit,
              "observed": {k: obs.get(k) for k in ("exit", "exc", "exc_msg", "reported", "parse_error")}}
    bad = None
    if obs["exc"] is not None:
        bad = "traceback (%s) from main() on a valid invocation" % obs["exc"]
    elif obs["exit"] != exp_exit:
        bad = "exit status %r, the findings meeting the thresholds demand %d" % (obs["exit"], exp_exit)
    elif "parse_error" in obs:
        res.break_("report-unparsable", json.dumps(replay, default=str)[:1500])
    else:
        got = obs["reported"]
        want = exp
        if o["fmt"] == "custom-default":
            want = sorted((f[0], f[1], f[2], None, f[4]) for f in exp)
        if [tuple(x) for x in got] != [tuple(x) for x in want]:
            bad = "report (%s) does not contain exactly the findings meeting both thresholds" % o["fmt"]
    if bad:
        res.violation(bad, replay)
        res.count("spec-violation")
    # ---- model
    if model is not None:
        if "error" in model:
            res.break_("driver-error", model["error"])
            return
        sp = model.get("spec", {})
        ok_spec = (sp.get("thresholds") == [RANKS[o["sev"]], RANKS[o["conf"]]] and sp.get("status") == exp_exit
                   and sorted(tuple(x) for x in sp.get("reported", [])) == [tuple(x) for x in exp] and not sp.get("is_error"))
        if not ok_spec:
            res.break_("spec-oracle", json.dumps({"lean_spec": sp, "python_spec": {"exit": exp_exit, "reported": exp}, "options": o})[:1500])
        if obs["exc"] is not None:
            same = model["kind"] == "traceback" and model.get("exc") == obs["exc"]
        else:
            same = model["kind"] == "exit" and model["status"] == obs["exit"]
            if same and "reported" in obs:
                mr = sorted(tuple(x) for x in model["reported"])
                if o["fmt"] == "custom-default":
                    mr = sorted((f[0], f[1], f[2], None, f[4]) for f in mr)
                same = mr == [tuple(x) for x in obs["reported"]]
        if not same:
            res.break_("correspondence", json.dumps({"replay": replay, "model": {k: model.get(k) for k in ("kind", "status", "exc", "diag", "reported")}}, default=str)[:2500])
            res.count("correspondence-mismatch")


# ----------------------------------------------------------------------------- error / observation / ini cases
def error_cases(tmp):
    """(label, argv, files-to-create, model args, model world, expected diag)"""
    good = os.path.join(tmp, "good.py")
    with open(good, "w") as f:
        f.write("assert x\nimport pickle\n")
    w = lambda name, text: _write(os.path.join(tmp, name), text)
    yaml_bad = w("bad.yaml", "tests: [B101\n  x: : :\n")
    toml_bad = w("bad.toml", "[tool.bandit\ntests = \n")
    yaml_list = w("list.yaml", "- B101\n- B102\n")
    yaml_str = w("str.yaml", "just a string\n")
    cfg_ok = w("ok.yaml", "skips: [B404]\n")
    clean = w("clean.py", "x = 1\n")
    cfg_prof = w("prof.yaml", "profiles:\n  mine:\n    include: [B101]\n")
    base_ok = w("base.json", json.dumps({"results": []}))
    os.makedirs(os.path.join(tmp, "cfgdir"))
    multi = os.path.join(tmp, "multi")
    for d in ("a", "b"):
        os.makedirs(os.path.join(multi, d))
        _write(os.path.join(multi, d, ".bandit"), "[bandit]\nskips = B101\n")
        _write(os.path.join(multi, d, "x.py"), "assert x\n")
    missing = os.path.join(tmp, "does", "not", "exist")
    E = []
    add = lambda label, argv, margs, world, diag: E.append((label, argv, margs, world, diag))
    add("no-targets", [], {"targets": False}, {}, "no_targets")
    add("no-targets-with-options", ["-f", "json", "-ll"], {"targets": False, "format": "json", "sev_flags": 2}, {}, "no_targets")
    add("unknown-profile-no-config", ["-p", "nosuch", good], {"profile": True}, {"profile_found": False}, "profile")
    add("unknown-profile-in-config", ["-c", cfg_prof, "-p", "other", good], {"profile": True}, {"profile_found": False}, "profile")
    add("include-and-exclude-overlap", ["-t", "B101,B102", "-s", "B102", good], {}, {"profile_valid": False}, "profile")
    add("config-missing", ["-c", missing + ".yaml", good], {}, {"config_ok": False}, "config")
    add("config-is-directory", ["-c", os.path.join(tmp, "cfgdir"), good], {}, {"config_ok": False}, "config")
    add("config-yaml-syntax", ["-c", yaml_bad, good], {}, {"config_ok": False}, "config")
    add("config-toml-syntax", ["-c", toml_bad, good], {}, {"config_ok": False}, "config")
    add("config-top-level-list", ["-c", yaml_list, good], {}, {"config_ok": False}, "config")
    add("config-top-level-string", ["-c", yaml_str, good], {}, {"config_ok": False}, "config")
    # falsy documents that are not a mapping either (seeded change C03-m4: `safe_load(f) or {}` turned them into an empty mapping)
    for i, doc in enumerate(["[]\n", "false\n", "0\n", "0.0\n", '""\n', "~\n", "# only a comment\n"]):
        yf = w("falsy%d.yaml" % i, doc)
        add("config-falsy-nonmapping-%d" % i, ["-c", yf, good], {}, {"config_ok": False}, "config")
        add("config-falsy-nonmapping-%d-clean-target" % i, ["-c", yf, clean], {}, {"config_ok": False}, "config")
    add("baseline-missing", ["-b", missing + ".json", "-f", "json", good], {"baseline": True, "format": "json"}, {"baseline_readable": False}, "baseline_unreadable")
    add("baseline-is-directory", ["-b", os.path.join(tmp, "cfgdir"), "-f", "txt", good], {"baseline": True, "format": "txt"}, {"baseline_readable": False}, "baseline_unreadable")
    for fmt in ("csv", "xml", "yaml", "sarif"):
        add("baseline-with-" + fmt, ["-b", base_ok, "-f", fmt, good], {"baseline": True, "format": fmt}, {}, "baseline_format")
    add("no-tests-unknown-id", ["-t", "B999", good], {}, {"has_tests": False}, "no_tests")
    add("msg-template-without-custom", ["--msg-template", "{line}", "-f", "txt", good], {"msg_template": "ok", "format": "txt"}, {}, "usage")
    add("msg-template-with-json", ["--msg-template", "{line}", "-f", "json", good], {"msg_template": "ok", "format": "json"}, {}, "usage")
    add("template-malformed", ["-f", "custom", "--msg-template", "{line", good], {"msg_template": "malformed", "format": "custom"}, {}, "template")
    # brace-balanced templates that cannot be rendered (bad format spec / conversion): diagnosed up front, with and without findings to render
    # (seeded change C03-m2: the dry-run validation was dropped, leaving a traceback + exit 1, or a silent exit 0 on a clean file)
    for i, t in enumerate(["{relpath}:{line:zz}: {msg}", "{msg:d}", "{severity!x} {line}", "{line:>>>}", "{test_id:5.2f}"]):
        add("template-unrenderable-%d-nofindings" % i, ["-f", "custom", "--msg-template", t, clean], {"msg_template": "malformed", "format": "custom"}, {}, "template")
        add("template-unrenderable-%d-findings" % i, ["-f", "custom", "--msg-template", t, good], {"msg_template": "malformed", "format": "custom"}, {}, "template")
        add("template-unrenderable-%d-exit-zero" % i, ["-f", "custom", "--exit-zero", "--msg-template", t, good], {"msg_template": "malformed", "format": "custom", "exit_zero": True}, {}, "template")
    add("template-no-tags", ["-f", "custom", "--msg-template", "no tags here", good], {"msg_template": "notags", "format": "custom"}, {}, "template")
    add("both-severity-spellings", ["-l", "--severity-level", "low", good], {"sev_flags": 1, "sev_name": "low"}, {}, "usage")
    add("both-confidence-spellings", ["-ii", "--confidence-level", "high", good], {"conf_flags": 2, "conf_name": "high"}, {}, "usage")
    add("severity-name-unknown", ["--severity-level", "LOW", good], {"sev_name": "LOW"}, {}, "usage")
    add("confidence-name-unknown", ["--confidence-level", "critical", good], {"conf_name": "critical"}, {}, "usage")
    add("format-unknown", ["-f", "pdf", good], {"format": "pdf"}, {}, "usage")
    add("quiet-and-verbose", ["-q", "-v", good], {"quiet": True, "verbose": True}, {}, "usage")
    add("number-not-int", ["-n", "many", good], {"usage_error": True}, {}, "usage")
    add("aggregate-unknown", ["-a", "line", good], {"usage_error": True}, {}, "usage")
    add("unknown-option", ["--no-such-option", good], {"usage_error": True}, {}, "usage")
    add("output-unwritable", ["-o", os.path.join(missing, "out.txt"), good], {"usage_error": True}, {}, "usage")
    add("multiple-ini-files", ["-r", multi], {"multiple_ini": True}, {}, "multiple_ini")
    # an error together with things that would crash later: the error exit must still win
    add("no-targets-with-count-five", ["-llll"], {"targets": False, "sev_flags": 4}, {}, "no_targets")
    add("config-missing-with-count-five", ["-iiii", "-c", missing + ".yaml", good], {"conf_flags": 4}, {"config_ok": False}, "config")
    return E, good, cfg_ok


def _write(p, text):
    with open(p, "w", encoding="utf-8") as f:
        f.write(text)
    return p


VARIANTS = [[], ["--exit-zero"], ["-q"], ["-v", "--exit-zero"], ["-lll", "-iii"], ["-d"]]


def variant_ok(argv, extra):
    """a decoration is applicable if it does not itself change the error class"""
    s = set(argv)
    if ("-q" in extra or "-v" in extra) and (s & {"-q", "-v"}):
        return False
    if any(x.startswith("-l") or x.startswith("-i") for x in extra) and any(
            x.startswith("-l") or x.startswith("-i") or x.startswith("--severity") or x.startswith("--confidence") for x in argv):
        return False
    return True


def apply_variant(margs, extra):
    m = dict(margs)
    if "--exit-zero" in extra:
        m["exit_zero"] = True
    if "-q" in extra:
        m["quiet"] = True
    if "-v" in extra:
        m["verbose"] = True
    if "-lll" in extra:
        m["sev_flags"], m["conf_flags"] = 3, 3
    return m


# ----------------------------------------------------------------------------- main entry
def _run_props(res, ctx):
    import logging
    logging.disable(logging.NOTSET)     # translate.run() silences logging process-wide; diagnostics are what we observe here
    thorough = res.tier == "thorough"
    rng = C.rng_for(res.seed, "C03")
    from bandit.core import extension_loader
    available = set(extension_loader.MANAGER.formatter_names)
    formats = [f for f in ALL_FORMATS if (f.split("-")[0] in available)]
    skipped_formats = [f for f in ALL_FORMATS if f not in formats]
    if "sarif" in formats:
        try:
            import sarif_om, jschema_to_python  # noqa: F401
        except ImportError:
            formats.remove("sarif")
            skipped_formats.append("sarif (sarif_om/jschema_to_python not importable)")
    res.extra["formats_exercised"] = formats
    res.extra["formats_skipped"] = skipped_formats
    res.rule = ("in-process runs of bandit.cli.main.main(); a case = (program, severity threshold 0-3, confidence threshold 0-3, spelling of each "
                "threshold {count,name}, report format, --exit-zero, {-,-q,-v}); non-trivial = the unfiltered run has at least one finding, so the "
                "threshold filter and the exit decision have something to decide (distinct = distinct (program, option tuple)); error-exit, -llll and "
                "INI-level cases are counted non-trivial once per distinct argument vector. quick: exhaustive option product on the all-rank-pairs "
                "natural program (spellings cc/nn exhaustive, mixed spellings sampled) and on the injected 16-pair program (formats x thresholds x "
                "exit-zero), seeded samples on random programs; thorough: exhaustive product incl. mixed spellings on more programs")
    tmp = tempfile.mkdtemp(prefix="bverif_c03_")
    drv = None
    try:
        if ctx.get("driver_ok", True):
            try:
                drv = C.Driver()
            except Exception as e:
                res.break_("driver", str(e))
        if ctx.get("replay"):
            return run_replay(res, ctx["replay"], tmp, drv)

        jobs = []       # (stream, prog, options)
        progs = []
        # ---- P0: every natural rank pair in one program
        p0 = Program({"a.py": PRELUDE + "\n".join(ALL_NATURAL) + "\n"}, None, False, "all-natural-pairs")
        progs.append(p0)
        # ---- P1: all 16 pairs injected (incl. UNDEFINED and HIGH/LOW which no shipped check produces)
        pairs16 = [[s, c] for s in RANKS for c in RANKS]
        p1 = Program({"a.py": "\n".join("v%d = %d" % (k, k) for k in range(20)) + "\n"}, pairs16, False, "injected-16-pairs")
        progs.append(p1)
        # ---- P2: injected UNDEFINED-only (reported under `all`, exit 1; silent under `low`)
        p2 = Program({"a.py": "v = 1\nw = 2\nz = 3\n"}, [["UNDEFINED", "HIGH"], ["HIGH", "UNDEFINED"], ["UNDEFINED", "UNDEFINED"]], False, "injected-undefined-only")
        progs.append(p2)
        # ---- P3: nothing to report: exit 0 and an empty report under every threshold and format
        p3 = Program({"a.py": "x = 1\nprint(x)\n"}, None, False, "clean")
        progs.append(p3)
        # ---- P4: several findings of ONE rule on ONE line / in one multi-line statement (same id, file and start line; they differ in column, severity or
        #      nothing at all): each of them is listed (seeded change C03-m7: the SARIF writer kept the first result per (rule, file, start line))
        p4 = Program({"a.py": PRELUDE + "import hashlib\nd = hashlib.md5(a).hexdigest() + hashlib.sha1(b).hexdigest()\nsubprocess.call(cmd, shell=True); subprocess.call('ls', shell=True)\n"
                              "pair = (pickle.loads(x),\n        pickle.loads(y), pickle.loads(x))\nassert a; assert a\n"}, None, False, "same-rule-same-line")
        progs.append(p4)
        nrand = 40 if thorough else 14
        rprogs = [gen_program(rng, i) for i in range(nrand)]
        progs += rprogs
        for n, p in enumerate(progs):
            p.materialise(tmp, n)
            for f in p.unfiltered:
                res.count("pair:%s/%s" % (f[2], f[3]))
            res.count("program-findings:%s" % ("0" if not p.unfiltered else "1-3" if len(p.unfiltered) <= 3 else "4+"))
        thr = list(itertools.product(range(4), range(4)))

        def product(prog, spellings, fmts, ezs, verbs, stream):
            for (s, c), (ss, cs), f, ez, vb in itertools.product(thr, spellings, fmts, ezs, verbs):
                jobs.append((stream, prog, {"sev": s, "conf": c, "sev_sp": ss, "conf_sp": cs, "fmt": f, "exit_zero": ez, "verb": vb,
                                            "style": (s + c + len(f)) % 3, "stdout": (s + c + ez) % 2 == 0}))
        same = [("count", "count"), ("name", "name")]
        mixed = [("count", "name"), ("name", "count")]
        if thorough:
            product(p0, same + mixed, formats, [False, True], VERB, "natural")
            product(p1, same + mixed, formats, [False, True], VERB, "injected")
            product(p2, same, formats, [False, True], [""], "injected")
            for p in rprogs[:8]:
                product(p, same, formats, [False, True], VERB, "natural")
        else:
            product(p0, same, formats, [False, True], VERB, "natural")
            product(p1, same, formats, [False, True], [""], "injected")
            product(p2, same, ["json", "txt", "custom"], [False, True], [""], "injected")
        product(p3, same, formats, [False], ["", "q"] if thorough else [""], "natural")
        product(p4, same[:1], formats, [False, True], VERB if thorough else ["", "q"], "natural")
        # seeded samples: mixed spellings / remaining programs
        nsamp = 150 if thorough else 60
        for p in [p0, p1] + rprogs:
            for _ in range(nsamp if p in (p0, p1) else (nsamp // 2)):
                s, c = rng.choice(thr)
                jobs.append(("injected" if p.inject else "natural", p,
                             {"sev": s, "conf": c, "sev_sp": rng.choice(["count", "name"]), "conf_sp": rng.choice(["count", "name"]),
                              "fmt": rng.choice(formats), "exit_zero": rng.random() < 0.5, "verb": rng.choice(VERB),
                              "style": rng.randrange(3), "stdout": rng.random() < 0.5}))
        # ---- run the implementation
        outp = os.path.join(tmp, "report.out")
        seen = set()
        runs = []
        for stream, prog, o in jobs:
            key = (prog.key(), json.dumps(o, sort_keys=True))
            if key in seen:
                continue
            seen.add(key)
            if o["fmt"] == "screen" and o["sev"] == 0 and any(f[2] == "UNDEFINED" for f in prog.unfiltered):
                # formatters/screen.py has no colour for severity UNDEFINED (KeyError).  No shipped check produces that severity,
                # only the injected findings do: outside "all programs", not judged.
                res.count("not-judged:screen-with-injected-UNDEFINED-severity")
                continue
            obs = run_regular(prog, o, outp)
            runs.append((stream, prog, o, obs, key))
        # ---- the model, pipelined
        models = [None] * len(runs)
        if drv is not None:
            reqs = [{"op": "cli", "args": model_args(o), "world": {"findings": [list(f) for f in prog.unfiltered]}} for _, prog, o, _, _ in runs]
            models = drv.ask_many(reqs)
        for (stream, prog, o, obs, key), model in zip(runs, models):
            nontrivial = bool(prog.unfiltered)
            exp = spec_reported(prog.unfiltered, o["sev"], o["conf"])
            sample = None
            if len(res.samples) < 4 and nontrivial and 0 < len(exp) < len(prog.unfiltered) and res.evaluations % 457 == 0:
                sample = {"stream": stream, "program": prog.label, "argv": [a for a in obs["argv"] if not a.startswith(tmp)],
                          "unfiltered": len(prog.unfiltered), "reported": obs.get("reported"), "exit": obs["exit"],
                          "model": None if model is None else {"kind": model.get("kind"), "status": model.get("status")}}
            res.case(key, nontrivial, sample=sample)
            res.count("stream:" + stream)
            res.count("format:" + o["fmt"])
            res.count("threshold:%s/%s" % (RANKS[o["sev"]], RANKS[o["conf"]]))
            res.count("spelling:%s/%s" % (o["sev_sp"], o["conf_sp"]))
            res.count("verbosity:" + (o["verb"] or "-"))
            res.count("exit-zero:" + str(bool(o["exit_zero"])))
            res.count("report:" + ("empty" if not exp else "all" if len(exp) == len(prog.unfiltered) else "proper-subset"))
            res.count("observed-exit:%s" % (obs["exit"] if obs["exc"] is None else obs["exc"]))
            judge_regular(res, prog, o, obs, model, stream)

        # ---- error exits, observations, the known finding
        run_errors(res, tmp, drv, rng, thorough)
        run_observations(res, tmp, drv)
        run_ini(res, tmp, drv)
        run_baseline_exit(res, tmp)
        run_malformed_baseline(res, tmp)
        run_ini_foreign_keys(res, tmp)
        run_stdin_exit(res, tmp)
        run_profile_names(res, tmp)
        check_tables(res, drv)
        res.exhaustive = thorough    # the full finite option space (incl. mixed spellings, all verbosities) only in thorough
        res.extra["programs"] = len(progs)
        res.extra["exhaustive_scope"] = ("4x4 thresholds x {cc,nn} spellings x %d formats x exit-zero x {-,-q,-v} on the all-natural-pairs program; "
                                         "4x4 x {cc,nn} x formats x exit-zero on the injected 16-pair program; error table enumerated; "
                                         "other programs / mixed spellings %s" % (len(formats), "exhaustive on 8 more programs" if thorough else "sampled"))
    finally:
        if drv is not None:
            drv.close()
        shutil.rmtree(tmp, ignore_errors=True)


def run_errors(res, tmp, drv, rng, thorough):
    ed = os.path.join(tmp, "err")
    os.makedirs(ed)
    E, good, _ = error_cases(ed)
    for label, argv, margs, world, diag in E:
        variants = [v for v in VARIANTS if variant_ok(argv, v)]
        if not thorough:
            variants = [variants[0]] + rng.sample(variants[1:], min(2, len(variants) - 1))
        for extra in variants:
            full = list(extra) + list(argv)
            r = run_cli_logged(full)
            ma = apply_variant(margs, extra)
            model = drv.ask({"op": "cli", "args": ma, "world": world}) if drv is not None else None
            judge_error(res, label, full, r, model, diag, ma, world, tmp)


def run_cli_logged(argv):
    """run_cli + the WARNING/ERROR records of the `bandit.*` module loggers, which the harness' capture handler
    (common.setup_logging: propagate=False) keeps away from main()'s stderr handler"""
    import logging
    r = C.run_cli(argv)
    r["logged"] = ["%s\t%s" % (rec.levelname, rec.getMessage()) for rec in C.take_log() if rec.levelno >= logging.WARNING]
    return r


DIAG_RE = re.compile(r"\t(ERROR|WARNING)\t|^usage: |: error: ", re.M)


def diagnostic_of(r):
    """the lines a user would read as the diagnostic: ERROR/WARNING log lines, argparse's `usage:` / `error:`"""
    text = r["err"] + "\n" + r["out"]
    lines = [ln for ln in text.splitlines() if DIAG_RE.search(ln)]
    return lines + ["[%s]" % l for l in r.get("logged", [])]


def judge_error(res, label, argv, r, model, diag, margs, world, tmp):
    shown = [a.replace(tmp, "{TMP}") for a in argv]
    res.case(("error", label, tuple(shown)), True,
             sample={"stream": "error", "case": label, "argv": shown, "exit": r["exit"], "exc": r["exc"],
                     "diagnostic": diagnostic_of(r)[-1:]} if label in ("config-yaml-syntax", "include-and-exclude-overlap") else None)
    res.count("stream:error")
    res.count("error-kind:" + diag)
    replay = {"stream": "error", "case": label, "argv": shown, "model_args": margs, "model_world": world,
              "observed": {"exit": r["exit"], "exc": r["exc"], "exc_msg": r.get("exc_msg"), "stderr_tail": r["err"][-300:]}}
    bad = None
    if r["exc"] is not None:
        bad = "traceback (%s) instead of a diagnostic and exit 2 for a usage/configuration error (%s)" % (r["exc"], label)
    elif r["exit"] != 2:
        bad = "exit status %r instead of 2 for a usage/configuration error (%s)" % (r["exit"], label)
    elif not diagnostic_of(r):
        bad = "exit 2 without any diagnostic (no ERROR/WARNING log line, no argparse usage/error text) (%s)" % label
    if bad:
        res.violation(bad, replay)
    if model is not None:
        if "error" in model:
            res.break_("driver-error", model["error"])
        else:
            same = (model["kind"] == "error" and r["exit"] == 2 and r["exc"] is None and model.get("diag") == diag) or \
                   (model["kind"] == "traceback" and r["exc"] == model.get("exc"))
            if not same:
                res.break_("correspondence", json.dumps({"replay": replay, "model": model}, default=str)[:2000])
            sp = model.get("spec", {})
            if not (sp.get("is_error") or sp.get("template_error")):
                res.break_("spec-oracle", "Lean Spec.isError is false on error case " + label)


def run_observations(res, tmp, drv):
    """-llll / -iiii: outside the spellings the property lists.  Not judged; the model's prediction
    (theorem NEG_count_five) is replayed on the implementation and recorded."""
    good = _write(os.path.join(tmp, "obs.py"), "assert x\n")
    for argv, margs in ((["-llll", good], {"sev_flags": 4}), (["-iiii", good], {"conf_flags": 4}),
                        (["-lllll", "-f", "json", good], {"sev_flags": 5, "format": "json"}),
                        (["-l", "-l", "-l", "-l", "--exit-zero", good], {"sev_flags": 4, "exit_zero": True})):
        r = C.run_cli(argv)
        res.case(("observe", tuple(a for a in argv if a != good)), True)
        res.count("stream:observe")
        what = "exit %s" % r["exit"] if r["exc"] is None else "traceback %s" % r["exc"]
        res.count("observe:count>=4:" + what)
        if drv is not None:
            model = drv.ask({"op": "cli", "args": margs, "world": {"findings": [["obs.py", "B101", "LOW", "HIGH", 1]]}})
            same = (model.get("kind") == "traceback" and model.get("exc") == r["exc"]) or \
                   (model.get("kind") != "traceback" and r["exc"] is None and model.get("status") == r["exit"])
            if not same:
                # the implementation no longer behaves as the model says; if it now rejects the spelling (exit 2) that is fine
                if r["exc"] is None and r["exit"] == 2:
                    res.notes.append("observation NEG_count_five no longer reproduces: %s now exits 2" % " ".join(argv[:-1]))
                else:
                    res.break_("correspondence", json.dumps({"stream": "observe", "argv": argv[:-1], "observed": what, "model": model})[:1500])
            if model.get("spec", {}).get("thresholds") is not None:
                res.break_("spec-oracle", "Spec.threshold defined for >= 4 flags")
    res.notes.append("observation (not a verdict; DESIGN section 10 #19, arguable): four or more -l/-i flags leave main() with IndexError "
                     "(theorems NEG_count_five, count_ge_four_traceback); the property lists only -l/-ll/-lll")


def run_ini(res, tmp, drv):
    """INI `level` / `confidence`.  While main() passed the INI string on unconverted (translator flag iniAsInt = false) no value
    worked: TypeError traceback (defect C03-ini-level-traceback, fixed in /repo by da9ae97).  With the conversion in place an INI
    level k must behave like k-1 flags; a command-line threshold must win over the INI value either way."""
    d = os.path.join(tmp, "ini")
    os.makedirs(os.path.join(d, "proj"))
    clean = _write(os.path.join(d, "clean.py"), "x = 1\n")
    dirty = _write(os.path.join(d, "dirty.py"), "assert x\npickle.loads(d)\n")
    _write(os.path.join(d, "proj", "m.py"), "x = 1\n")
    _write(os.path.join(d, "proj", ".bandit"), "[bandit]\nlevel = 2\n")
    ini_l = _write(os.path.join(d, "level.ini"), "[bandit]\nlevel = 2\n")
    ini_c = _write(os.path.join(d, "conf.ini"), "[bandit]\nconfidence = 3\n")
    ini_b = _write(os.path.join(d, "both.ini"), "[bandit]\nlevel = 1\nconfidence = 1\n")
    ini_o = _write(os.path.join(d, "other.ini"), "[bandit]\nskips = B999\n")
    dirty_unf = unfiltered_scan([dirty], False, None)
    # INI thresholds that actually EXCLUDE something (seeded change C03-m9 looked the thresholds up before the INI options were merged: level = 2 on this
    # program excludes nothing, so nothing showed): level 3 keeps the MEDIUM finding only, level 4 / confidence 4 with -ii on the command line ...
    ini_l3 = _write(os.path.join(d, "level3.ini"), "[bandit]\nlevel = 3\n")
    ini_l4 = _write(os.path.join(d, "level4.ini"), "[bandit]\nlevel = 4\n")
    ini_c4 = _write(os.path.join(d, "conf4.ini"), "[bandit]\nconfidence = 4\nlevel = 3\n")
    os.makedirs(os.path.join(d, "proj3"))
    _write(os.path.join(d, "proj3", "dirty.py"), "assert x\npickle.loads(d)\n")
    _write(os.path.join(d, "proj3", ".bandit"), "[bandit]\nlevel = 3\n")
    proj3_unf = unfiltered_scan([os.path.join(d, "proj3")], True, None)
    extra_cases = [
        ("ini-level3-findings", ["--ini", ini_l3, "-f", "json", dirty], {"ini_level": "3", "format": "json"}, dirty_unf),
        ("ini-level4-findings", ["--ini", ini_l4, "-f", "json", dirty], {"ini_level": "4", "format": "json"}, dirty_unf),
        ("ini-level3-conf4-findings", ["--ini", ini_c4, "-f", "json", dirty], {"ini_level": "3", "ini_confidence": "4", "format": "json"}, dirty_unf),
        ("ini-level4-exit-zero", ["--ini", ini_l4, "--exit-zero", "-f", "json", dirty], {"ini_level": "4", "exit_zero": True, "format": "json"}, dirty_unf),
        ("ini-level3-quiet-txt", ["--ini", ini_l3, "-q", dirty], {"ini_level": "3"}, dirty_unf),
        ("project-.bandit-level3-findings", ["-r", os.path.join(d, "proj3"), "-f", "json"], {"ini_level": "3", "format": "json"}, proj3_unf),
        ("ini-level3-overridden-by-l", ["--ini", ini_l3, "-l", "-f", "json", dirty], {"ini_level": "3", "sev_flags": 1, "format": "json"}, dirty_unf),
    ]
    cases = extra_cases + [
        ("ini-level-clean-file", ["--ini", ini_l, clean], {"ini_level": "2"}, []),
        ("ini-level-findings", ["--ini", ini_l, "-f", "json", dirty], {"ini_level": "2", "format": "json"}, dirty_unf),
        ("ini-confidence", ["--ini", ini_c, clean], {"ini_confidence": "3"}, []),
        ("ini-both-exit-zero", ["--ini", ini_b, "--exit-zero", clean], {"ini_level": "1", "ini_confidence": "1", "exit_zero": True}, []),
        ("project-.bandit-level", ["-r", os.path.join(d, "proj")], {"ini_level": "2"}, []),
        ("ini-level-explicit-all", ["--ini", ini_l, "--severity-level", "all", clean], {"ini_level": "2", "sev_name": "all"}, []),
        # not in the region: a command line threshold other than the default wins over the INI value
        ("ini-level-overridden-by-ll", ["--ini", ini_l, "-ll", "-f", "json", dirty], {"ini_level": "2", "sev_flags": 2, "format": "json"}, dirty_unf),
        ("ini-level-overridden-by-name", ["--ini", ini_l, "--severity-level", "high", "-f", "json", dirty], {"ini_level": "2", "sev_name": "high", "format": "json"}, dirty_unf),
        ("ini-without-level", ["--ini", ini_o, "-f", "json", dirty], {"format": "json"}, dirty_unf),
    ]
    as_int = False
    if drv is not None:
        as_int = bool(drv.ask({"op": "cli_tables"}).get("ini_as_int"))
    res.extra["ini_values_converted_with_int"] = as_int
    for label, argv, margs, unf in cases:
        r = C.run_cli(argv)
        shown = [a.replace(tmp, "{TMP}") for a in argv]
        res.case(("ini", label), True)
        res.count("stream:ini")
        model = drv.ask({"op": "cli", "args": margs, "world": {"findings": [list(f) for f in unf]}}) if drv is not None else None
        sev_cli = margs.get("sev_flags", 0) or (NAMES.index(margs["sev_name"]) if margs.get("sev_name") else 0)
        conf_cli = margs.get("conf_flags", 0) or (NAMES.index(margs["conf_name"]) if margs.get("conf_name") else 0)
        effective = ("ini_level" in margs and sev_cli == 0) or ("ini_confidence" in margs and conf_cli == 0)
        in_region = effective and not as_int
        replay = {"stream": "ini", "case": label, "argv": shown, "ini": True, "observed": {"exit": r["exit"], "exc": r["exc"], "exc_msg": r.get("exc_msg")}}
        got = None
        if r["exc"] is None and r["exit"] in (0, 1):
            try:
                got = sorted(parse_report("json" if margs.get("format") == "json" else "txt", r["out"]))
            except Exception as e:
                got = "unparsable: %s" % e
        if model is not None and "error" not in model:
            if bool(model.get("spec", {}).get("ini_raw_effective")) != in_region:
                res.break_("spec-oracle", "region predicate disagrees on " + label)
            # correspondence everywhere, in and out of the region
            if r["exc"] is not None:
                same = model.get("kind") == "traceback" and model.get("exc") == r["exc"]
            else:
                same = model.get("kind") == "exit" and model.get("status") == r["exit"] and \
                    sorted(tuple(x) for x in model.get("reported", [])) == (got if isinstance(got, list) else None)
            if not same and not (in_region and r["exc"] is None):
                res.break_("correspondence", json.dumps({"replay": replay, "got": got, "model": {k: model.get(k) for k in ("kind", "status", "exc", "reported")}}, default=str)[:1500])
        if in_region:
            # spec (reading-independent): whatever the INI value means, main() must not leave with a traceback
            if r["exc"] is not None:
                import runner
                listed = KNOWN_INI in runner.load_known("C03")
                if listed and model is not None and model.get("kind") == "traceback" and model.get("exc") == r["exc"]:
                    res.known_finding(KNOWN_INI)
                    res.count("known:" + KNOWN_INI)
                elif not listed:
                    res.violation("traceback (%s) when an INI level/confidence value takes effect (fixed defect %s is back)" % (r["exc"], KNOWN_INI),
                                  dict(replay, ini_file="[bandit]\n" + "\n".join("%s = %s" % (k.replace("ini_", ""), v) for k, v in margs.items() if k.startswith("ini_"))))
                else:
                    res.violation("traceback (%s) with an INI level/confidence value, and not the one the model of the known finding predicts" % r["exc"], replay)
            else:
                res.notes.append("known finding %s no longer reproduces on %s (exit %s)" % (KNOWN_INI, label, r["exit"]))
                res.count("known-not-reproduced")
        else:
            # thresholds: the command line where given, else (only when main() converts it) the INI number k = k-1 flags
            sev = sev_cli if sev_cli or "ini_level" not in margs else int(margs["ini_level"]) - 1
            conf = conf_cli if conf_cli or "ini_confidence" not in margs else int(margs["ini_confidence"]) - 1
            exp = sorted(spec_reported(unf, sev, conf))
            exp_exit = 1 if exp and not margs.get("exit_zero") else 0
            if r["exc"] is not None or r["exit"] != exp_exit or got != [tuple(x) for x in exp]:
                res.violation("thresholds with an INI file present: wrong exit status or report", dict(replay, expected_exit=exp_exit, expected=exp, got=got))


def run_baseline_exit(res, tmp):
    """With -b the report lists the findings the baseline does not account for; the exit status goes with THAT list (seeded change C03-m10 counted for the exit
    status without the baseline: an unchanged program re-scanned against its own report exited 1 with an empty report).  Oracle: self-consistency of each
    run — exit 1 iff the report it wrote lists a finding (and --exit-zero is not given); plus the two end points: own report as baseline -> nothing reported,
    exit 0; empty baseline -> as without one."""
    d = os.path.join(tmp, "bl")
    os.makedirs(d)
    prog = _write(os.path.join(d, "mod.py"), "import subprocess\nassert x\npickle.loads(d)\nsubprocess.Popen(c, shell=True)\npassword = 'pw'\n")
    prog2 = _write(os.path.join(d, "mod2.py"), "import subprocess\nassert x\npickle.loads(d)\nsubprocess.Popen(c, shell=True)\npassword = 'pw'\nexec(z)\nassert y\n")
    own = os.path.join(d, "own.json")
    C.run_cli(["-f", "json", "-o", own, "-q", prog])
    empty = _write(os.path.join(d, "empty.json"), json.dumps({"results": []}))
    older = os.path.join(d, "older.json")
    with open(own) as fh:
        data = json.load(fh)
    data["results"] = [r for r in data["results"] if r["test_id"] in ("B101", "B404")]
    with open(older, "w") as fh:
        json.dump(data, fh)
    # mod2.py scanned against the report of mod.py: file names differ, so rename in the baseline
    own2 = os.path.join(d, "own2.json")
    with open(own) as fh:
        text = fh.read().replace("mod.py", "mod2.py")
    with open(own2, "w") as fh:
        fh.write(text)
    for target, base, label, expect_n in ((prog, own, "own-report", 0), (prog, empty, "empty-baseline", None), (prog, older, "partial-baseline", None), (prog2, own2, "two-new-findings", None)):
        for thr in ([], ["-ll"], ["-lll"], ["-ii"], ["--severity-level", "medium"]):
            for fmt in ("json", "txt", "html"):
                for ez in ([], ["--exit-zero"]):
                    for vb in ([], ["-q"]):
                        argv = ["-b", base, "-f", fmt] + thr + ez + vb + [target]
                        outp = os.path.join(d, "rep.out")
                        if os.path.exists(outp):
                            os.remove(outp)
                        r = C.run_cli(argv + ["-o", outp])
                        res.case(("baseline-exit", label, tuple(thr), fmt, bool(ez), bool(vb)), True)
                        res.count("stream:baseline-exit")
                        text = open(outp, encoding="utf-8").read() if os.path.exists(outp) else ""
                        n = None
                        if fmt == "json":
                            try:
                                n = len(json.loads(text)["results"])
                            except Exception:
                                n = None
                        elif fmt == "txt":
                            n = text.count(">> Issue: [")
                        else:
                            n = text.count('<div id="issue-')
                        replay = {"stream": "baseline-exit", "argv": [a.replace(tmp, "{TMP}") for a in argv], "case": label, "program": open(target).read(),
                                  "baseline": "the JSON report of the same program" if label == "own-report" else label, "exit": r["exit"], "exc": r["exc"], "findings_in_report": n}
                        if r["exc"] is not None or n is None:
                            res.violation("no report / a traceback when scanning against a baseline", replay)
                            continue
                        want_exit = 1 if (n > 0 and not ez) else 0
                        if r["exit"] != want_exit:
                            res.violation("exit status does not go with the report written under a baseline (1 iff the report lists a finding and --exit-zero is absent)", dict(replay, expected_exit=want_exit))
                        if expect_n is not None and n != expect_n:
                            res.violation("a program re-scanned against its own report lists findings", replay)


def run_malformed_baseline(res, tmp):
    """A -b file that is not a usable report (not JSON; JSON of another shape: an array of reports, `results` null / an object / entries that are not objects or lack
    keys) is reported as such and the scan goes on as without a baseline: never a traceback, a report is written, and the exit status goes with that report (seeded change
    C03-m15 narrowed the blanket `except Exception` in populate_baseline to ValueError/KeyError: well-formed JSON of the wrong shape died in TypeError with exit 1
    before anything was scanned, even for a clean target and with --exit-zero)."""
    d = os.path.join(tmp, "blbad")
    os.makedirs(d)
    dirty = _write(os.path.join(d, "dirty.py"), "import subprocess\nassert x\nsubprocess.Popen(c, shell=True)\n")
    clean = _write(os.path.join(d, "clean.py"), "x = 1\n")
    own = os.path.join(d, "own.json")
    C.run_cli(["-f", "json", "-o", own, "-q", dirty])
    rep = json.load(open(own))
    shapes = {"array-of-reports": [rep, rep], "results-null": {"results": None}, "results-object": {"results": {"a": 1}}, "entries-not-objects": {"results": [1, "x", None]},
              "entries-lack-keys": {"results": [{"test_id": "B101"}]}, "a-string": "just a string", "a-number": 7, "null": None, "no-results-key": {"errors": []},
              "entry-is-list": {"results": [["B101", 2]]}, "nested-wrong-types": {"results": [dict(rep["results"][0], issue_cwe=5)] if rep["results"] else []}}
    files = {k: _write(os.path.join(d, k + ".json"), json.dumps(v)) for k, v in shapes.items()}
    files["not-json"] = _write(os.path.join(d, "notjson.json"), "{results: [")
    files["empty-file"] = _write(os.path.join(d, "emptyfile.json"), "")
    for label, base in files.items():
        for target, tl in ((dirty, "findings"), (clean, "clean")):
            for extra in ([], ["--exit-zero"], ["-lll", "-iii"]):
                argv = ["-b", base, "-f", "json"] + extra + [target]
                outp = os.path.join(d, "rep.out")
                if os.path.exists(outp):
                    os.remove(outp)
                r = C.run_cli(argv + ["-o", outp])
                res.case(("malformed-baseline", label, tl, tuple(extra)), True)
                res.count("stream:malformed-baseline")
                n = None
                try:
                    n = len(json.load(open(outp))["results"])
                except Exception:
                    n = None
                replay = {"stream": "malformed-baseline", "argv": [a.replace(tmp, "{TMP}") for a in argv], "baseline_shape": label, "baseline_text": open(base).read()[:300],
                          "program": open(target).read(), "exit": r["exit"], "exc": r["exc"], "findings_in_report": n}
                if r["exc"] is not None:
                    res.violation("a traceback when the -b file is not a usable report", replay)
                    continue
                if r["exit"] == 2 and n is None:
                    continue                              # rejected with a diagnostic before scanning: acceptable
                if n is None:
                    res.violation("no report although the run did not reject the baseline file", replay)
                    continue
                want_exit = 1 if (n > 0 and "--exit-zero" not in extra) else 0
                if r["exit"] != want_exit:
                    res.violation("exit status does not go with the report written (unusable baseline file)", dict(replay, expected_exit=want_exit))


INI_DOCUMENTED = {"configfile", "exclude", "skips", "tests", "targets", "recursive", "aggregate", "number", "profile", "level", "confidence", "format", "msg-template", "output",
                  "verbose", "debug", "quiet", "ignore-nosec", "baseline"}


def run_ini_foreign_keys(res, tmp):
    """A key of the INI file that is not one of the documented options - in particular anything that sounds like `exit-zero` set to a value that reads as *false* - does
    not change the exit status: 1 iff a finding at or above the thresholds is reported.  (Seeded change C03-m16 wired a new `exit-zero` INI key through the helper that
    returns `ini_val if ini_val else arg_val`: any non-empty string, `false` included, switched the exit status off.)  Names: a fixed list plus every option-like literal
    on the lines by which /repo differs from the recorded commit (diffhints)."""
    import diffhints
    d = os.path.join(tmp, "inikeys")
    os.makedirs(d)
    dirty = _write(os.path.join(d, "dirty.py"), "import subprocess\nassert x\nsubprocess.Popen(c, shell=True)\n")
    ref = C.run_cli(["-f", "json", dirty])
    try:
        ref_n = len(json.loads(ref["out"])["results"])
    except Exception:
        ref_n = None
    names = ["exit-zero", "exit_zero", "exitzero", "exit-code", "fail", "fail-on-findings", "no-fail", "zero", "strict", "warn-only", "report-only"]
    for h in diffhints.hints(C.REPO)["strings"]:
        if re.fullmatch(r"[a-z][a-z0-9_-]{2,30}", h) and h not in INI_DOCUMENTED and h not in names:
            names.append(h)
    proj = os.path.join(d, "proj")
    os.makedirs(proj)
    _write(os.path.join(proj, "mod.py"), open(dirty).read())
    for nm in names:
        for val in ("false", "False", "no", "0", "off"):
            ini = _write(os.path.join(d, "k.ini"), "[bandit]\n%s = %s\n" % (nm, val))
            _write(os.path.join(proj, ".bandit"), "[bandit]\n%s = %s\n" % (nm, val))
            for label, argv in (("--ini", ["--ini", ini, "-f", "json", dirty]), ("project .bandit", ["-r", proj, "-f", "json"]), ("--ini -ll", ["--ini", ini, "-ll", "-f", "json", dirty])):
                r = C.run_cli(argv)
                res.case(("ini-foreign-key", nm, val, label), True)
                res.count("stream:ini-foreign-key")
                try:
                    n = len(json.loads(r["out"])["results"])
                except Exception:
                    n = None
                replay = {"stream": "ini-foreign-key", "ini_file": "[bandit]\n%s = %s" % (nm, val), "how": label, "argv": [a.replace(tmp, "{TMP}") for a in argv],
                          "program": open(dirty).read(), "exit": r["exit"], "exc": r["exc"], "findings_in_report": n}
                if r["exc"] is not None or n is None:
                    res.violation("no report / a traceback with an undocumented key in the INI file", replay)
                elif r["exit"] != (1 if n > 0 else 0):
                    res.violation("exit status does not go with the report (1 iff it lists a finding) when the INI file holds an undocumented key set to a false-looking value", replay)
                elif label == "--ini" and ref_n is not None and n != ref_n:
                    res.violation("an undocumented INI key changed the findings reported", dict(replay, findings_without_ini=ref_n))
    os.remove(os.path.join(proj, ".bandit"))


def run_stdin_exit(res, tmp):
    """A program piped on standard input (`bandit -`): the report is written and the exit status goes with it, for every format, threshold and --exit-zero, exactly as for
    the same program scanned from a file (seeded change C03-m17 closed the buffered copy of the piped source when the scan of <stdin> ended: every format that shows code
    excerpts then failed at report time — no report, exit status 1 even with --exit-zero)."""
    src = "import subprocess\nassert x\nsubprocess.Popen(c, shell=True)\npassword = 'pw'\n"
    fpath = _write(os.path.join(tmp, "stdin_ref.py"), src)
    for fmt in ("json", "txt", "yaml", "html", "csv", "custom", "sarif"):        # (xml writes to sys.stdout.buffer, which the in-process capture does not have)
        for thr in ([], ["-ll"], ["-lll", "-iii"], ["-ii"]):
            for ez in ([], ["--exit-zero"]):
                ref = C.run_cli(["-f", fmt] + thr + ez + [fpath])
                r = C.run_cli(["-f", fmt] + thr + ez + ["-"], stdin_bytes=src.encode())
                res.case(("stdin-exit", fmt, tuple(thr), bool(ez)), True)
                res.count("stream:stdin-exit")
                replay = {"stream": "stdin-exit", "argv": ["-f", fmt] + thr + ez + ["-"], "program_on_stdin": src, "exit": r["exit"], "exc": r["exc"], "exc_msg": r.get("exc_msg"),
                          "same_program_from_a_file": {"exit": ref["exit"], "exc": ref["exc"], "report_bytes": len(ref["out"])}, "report_bytes": len(r["out"])}
                if r["exc"] is not None or r["exit"] not in (0, 1):
                    res.violation("no report / a traceback for a program piped on standard input", replay)
                elif r["exit"] != ref["exit"] or (len(r["out"]) == 0) != (len(ref["out"]) == 0):
                    res.violation("a program piped on standard input ends with another exit status (or without a report) than the same program scanned from a file", replay)
                elif ez and r["exit"] != 0:
                    res.violation("--exit-zero did not give exit status 0 for a program piped on standard input", replay)


def run_profile_names(res, tmp):
    """A legacy profile selected with -p is found whatever its name looks like (dots, dashes, blanks, digits): exit status 2 is reserved for real errors; with a
    valid configuration the status follows the findings (seeded change C03-m11 looked the profile up with a dotted-path helper: `py3.9` was never found)."""
    import yaml
    d = os.path.join(tmp, "prof")
    os.makedirs(d)
    prog = _write(os.path.join(d, "mod.py"), "assert x\nexec(c)\nimport pickle\n")
    clean = _write(os.path.join(d, "clean.py"), "x = 1\n")
    names = ["plain", "py3.9", "ci-strict", "v1.2.3", "web app", "a.b.c", "profiles", "tests"]
    import diffhints
    names += [("p" + s_ + "q") for s_ in diffhints.hints(C.REPO)["strings"][:6] if "\n" not in s_ and ("p" + s_ + "q") not in names]
    cfg = os.path.join(d, "cfg.yaml")
    with open(cfg, "w") as fh:
        yaml.safe_dump({"profiles": {n: {"include": ["B101", "B102"]} for n in names}}, fh)
    for n in names:
        for target, want_exit, want_n in ((prog, 1, 2), (clean, 0, 0)):
            for extra in ([], ["--exit-zero"], ["-ll"]):
                argv = ["-c", cfg, "-p", n, "-f", "json"] + extra + [target]
                r = C.run_cli(argv)
                res.case(("profile-name", n, os.path.basename(target), tuple(extra)), True)
                res.count("stream:profile-names")
                try:
                    got = len(json.loads(r["out"])["results"])
                except Exception:
                    got = None
                exp_n = want_n if extra != ["-ll"] else (1 if want_n else 0)      # -ll keeps the MEDIUM finding (B102)
                exp_exit = 0 if (extra == ["--exit-zero"] or exp_n == 0) else 1
                if r["exc"] is not None or r["exit"] != exp_exit or got != exp_n:
                    res.violation("a valid configuration with a legacy profile selected by -p: wrong exit status or report (2 is reserved for errors)",
                                  {"stream": "profile-names", "profile": n, "argv": [a.replace(tmp, "{TMP}") for a in argv], "config": {"profiles": {n: {"include": ["B101", "B102"]}}},
                                   "program": open(target).read(), "exit": r["exit"], "expected_exit": exp_exit, "findings_in_report": got, "expected_findings": exp_n,
                                   "exc": r["exc"], "stderr": r["err"][-300:]})


def check_tables(res, drv):
    """the generated tables against the running code (the translator is trusted; this is a cheap cross-check)"""
    if drv is None:
        return
    from bandit.core import constants, extension_loader
    t = drv.ask({"op": "cli_tables"})
    if t.get("ranking") != list(constants.RANKING):
        res.break_("tables", "Gen ranking %s != constants.RANKING %s" % (t.get("ranking"), constants.RANKING))
    if sorted(t.get("formats", [])) != sorted(extension_loader.MANAGER.formatter_names):
        res.break_("tables", "Gen formats differ from the loaded formatters")
    res.extra["generated_tables"] = t


def run_replay(res, rp, tmp, drv):
    """re-run exactly the input of a replay file"""
    r = rp.get("replay", rp)
    stream = r.get("stream")
    res.rule = "replay of one recorded input"
    if stream in ("natural", "injected"):
        pd = r["program"]
        prog = Program(pd["files"], pd.get("inject"), pd.get("recursive", False), pd.get("label", "replay"))
        prog.materialise(tmp, 0)
        o = r["options"]
        obs = run_regular(prog, o, os.path.join(tmp, "report.out"))
        model = drv.ask({"op": "cli", "args": model_args(o), "world": {"findings": [list(f) for f in prog.unfiltered]}}) if drv else None
        res.case(("replay", prog.key()), True, sample={"argv": [a for a in obs["argv"] if not a.startswith(tmp)], "observed": {k: obs.get(k) for k in ("exit", "exc", "reported")}})
        judge_regular(res, prog, o, obs, model, stream)
    elif stream == "error":
        ed = os.path.join(tmp, "err")
        os.makedirs(ed)
        E, _, _ = error_cases(ed)
        for label, argv, margs, world, diag in E:
            if label != r["case"]:
                continue
            shown = [a.replace(tmp, "{TMP}") for a in argv]
            extra = [a for a in r["argv"] if a not in shown]
            full = extra + list(argv)
            rr = run_cli_logged(full)
            ma = apply_variant(margs, extra)
            model = drv.ask({"op": "cli", "args": ma, "world": world}) if drv else None
            judge_error(res, label, full, rr, model, diag, ma, world, tmp)
    elif stream == "ini":
        run_ini(res, tmp, drv)
    else:
        # a replay that records a broken obligation rather than an input: run everything
        ctx2 = {"driver_ok": drv is not None, "replay": None}
        if drv is not None:
            drv.close()
        return run(res, ctx2)


def run(res, ctx):
    import clirel
    _run_props(res, ctx)
    # relations between runs of the command-line tool that differ in one kind of option (harness/clirel.py): the relations this property owns
    clirel.family(res, ctx, C, "C03", 150, 900)
