"""C04 — a scan always completes and accounts for every file.

Three parts, all driven through the stable entry points (BanditConfig, BanditManager, discover_files,
run_tests, .files_list/.skipped/.results/.scores/.metrics, output_results('json')):

1. fault enumeration (exhaustive): N in {2,3,4} healthy files with distinct findings + one faulty file at
   every position x every fault kind per pipeline step (open / read / tokenise / parse / visit / check);
2. the stdin target `-` (healthy, unparsable, unreadable);
3. a seeded byte-level fuzz stream between healthy files (in-process batches) and the riskiest inputs
   (deep nesting, huge lines) in a subprocess, so that a hard interpreter crash is *observed*.

Every scenario is compared (a) with the Lean model `Bandit.Manager.run` (driver op `manager_run`, fed with
the per-file outcome vector, which is determined independently of bandit: by construction for injected
faults, by running the stdlib tokenizer/parser on the content otherwise) and (b) with the spec oracle
(partition — evaluated by the Lean `Spec` predicates via `manager_spec` —, reasons, healthy files' findings
identical to scanning them alone, no findings from skipped files, scores aligned, JSON report produced and
consistent)."""
import benv  # noqa: F401
import ast, base64, tempfile, builtins, contextlib, errno, functools, hashlib, io, json, linecache, logging, os, subprocess, sys, tokenize

import common as C

LEVEL = "proof"

HEALTHY = [
    b"import pickle\nd = pickle.loads(b'')\n",                                  # B403 B301
    # state-leak detector: `leaked_*` are names the FAULTY file binds with `import … as` before it fails, `h0_*` names
    # nothing binds; scanned alone (and in any correct run) only B402 is found here
    b"import ftplib\nleaked_pk.loads(b'')\nleaked_run('ls')\nleaked_sp.call('x', shell=True)\n",   # B402
    b"import subprocess\nsubprocess.Popen('ls -l', shell=True)\n",              # B404 B602
    b"password = 'hunter2'\nimport telnetlib\n",                                # B105 B401
    b"def f(x):\n    assert x\n    exec('1')\n",                                # B101 B102
    b"import hashlib\nhashlib.md5(b'x')\ntry:\n    pass\nexcept Exception:\n    pass\n",   # B324 B110
    b"helper(cmd, shell=True)\nimport ssl, yaml\nssl.wrap_socket(s, ssl_version=ssl.PROTOCOL_SSLv3)\nyaml.load(x)\nRSA.generate(512)\n",   # B604 B502 B506 (Call checks late in the order)
]
# a file with findings *before* the construct at which an injected visitor/check fault strikes, and which binds aliases
# that would change another file's findings if per-file visitor state leaked
FAULTY_BODY = (b"import pickle as leaked_pk\nfrom os import system as leaked_run\nimport subprocess as leaked_sp\n"
               b"assert leaked_pk\nfoo(1)\nexec('2')\n")
INJECT_CHECK = "B101"

KF_STDIN = "C04-stdin-excerpt-utf8"
REASON_SYNTAX = "syntax error while parsing AST from file"
REASON_EXC = "exception while scanning file"


# ----------------------------------------------------------------------------- content specs
def b64(data):
    return {"b64": base64.b64encode(data).decode()}


def materialise(spec):
    if "b64" in spec:
        return base64.b64decode(spec["b64"])
    if "healthy" in spec:
        return HEALTHY[spec["healthy"]]
    g, n = spec["gen"], spec.get("n", 0)
    pre = b"import pickle as leaked_pk\n"          # a finding (and an alias binding) before the pathological construct
    if g == "deep_paren":
        return pre + b"x = " + b"(" * n + b"1" + b")" * n + b"\n"
    if g == "deep_bracket":
        return pre + b"x = " + b"[" * n + b"]" * n + b"\n"
    if g == "deep_brace_unclosed":
        return pre + b"x = " + b"{" * n + b"\n"
    if g == "deep_call":
        return pre + b"x = " + b"f(" * n + b"1" + b")" * n + b"\n"
    if g == "deep_attr":
        return pre + b"x = a" + b".b" * n + b"\n"
    if g == "deep_call_chain":
        # a parsable program whose CHECKS run out of stack before the visitor does (each `.g()` is a Call node: ~30 checks run on it at a depth that grows with
        # the chain), then the visitor gives up and the file is skipped
        return pre + b"x = f()" + b".g()" * n + b"\n"
    if g == "deep_binop":
        return pre + b"x = 1" + b"+1" * n + b"\n"
    if g == "deep_unary":
        return pre + b"x = " + b"-" * n + b"1\n"
    if g == "deep_not":
        return pre + b"x = " + b"not " * n + b"1\n"
    if g == "deep_lambda":
        return pre + b"x = " + b"lambda: " * n + b"1\n"
    if g == "deep_if":
        return pre + "".join(" " * i + "if x:\n" for i in range(n)).encode() + b" " * n + b"pass\n"
    if g == "deep_fstring":
        return pre + b"x = " + b"f'{" * n + b"1" + b"}'" * n + b"\n"
    if g == "deep_subscript":
        return pre + b"x = a" + b"[0]" * n + b"\n"
    if g == "deep_comp":
        return pre + b"x = [1 " + b"for a in b " * n + b"]\n"
    if g == "long_line":
        return pre + b"x = '" + b"a" * n + b"'\n"
    if g == "long_comment":
        return pre + b"#" + b" nosec" * (n // 6) + b"\n"
    if g == "many_lines":
        return pre + b"x = 1\n" * n
    if g == "long_cr":
        return pre + b"x = 1\r" * n
    if g == "many_args":
        return pre + b"f(" + b"1," * n + b")\n"
    if g == "long_bytes_nul":
        return pre + b"\x00" * n
    if g == "long_ident":
        return pre + b"a" * n + b" = 1\n"
    if g == "big_int":
        return pre + b"x = " + b"9" * n + b"\n"
    raise ValueError(g)


# ----------------------------------------------------------------------------- independent classification
def _is_utf8(b):
    try:
        b.decode("utf-8")
        return True
    except UnicodeDecodeError:
        return False


def exc_json(e):
    """exception instance -> the model's `Exc` encoding"""
    if isinstance(e, KeyboardInterrupt):
        return "kbd"
    if isinstance(e, SystemExit):
        return ["exit", e.code if isinstance(e.code, int) else 1]
    if isinstance(e, OSError):
        return ["os", e.strerror]
    if isinstance(e, tokenize.TokenError):
        return "token"
    if isinstance(e, SyntaxError):
        return "syntax"
    if isinstance(e, Exception):
        return "other"
    return "base"


def classify(data):
    """What the stdlib tokenizer / parser do on these bytes (bandit is not involved)."""
    out = {"tok": None, "parse": None}
    try:
        # (newline-normalised bytes, as manager._parse_file hands them to tokenize since /repo 1cb0176)
        for _ in tokenize.tokenize(io.BytesIO(data.replace(b"\r\n", b"\n").replace(b"\r", b"\n")).readline):
            pass
    except BaseException as e:  # noqa
        out["tok"] = exc_json(e)
    try:
        ast.parse(data)
    except BaseException as e:  # noqa
        out["parse"] = exc_json(e)
    return out


# ----------------------------------------------------------------------------- fault injection (harness process only)
class FaultyFile:
    """binary file object whose `read` / `readline` raises"""
    def __init__(self, f, fail, exc):
        self._f, self._fail, self._exc = f, fail, exc

    def __enter__(self):
        return self

    def __exit__(self, *a):
        self._f.close()
        return False

    def read(self, *a):
        if self._fail == "read":
            raise self._exc
        return self._f.read(*a)

    def readline(self, *a):
        if self._fail == "readline":
            raise self._exc
        return self._f.readline(*a)

    def __getattr__(self, k):
        return getattr(self._f, k)


def os_error(code, path=None):
    return OSError(code, os.strerror(code), path)


OPEN_FAULTS = {"EACCES": errno.EACCES, "EMFILE": errno.EMFILE, "ENFILE": errno.ENFILE, "ENOMEM": errno.ENOMEM,
               "ENAMETOOLONG": errno.ENAMETOOLONG}
NATURAL_OPEN = {"ENOENT": errno.ENOENT, "EISDIR": errno.EISDIR, "ELOOP": errno.ELOOP, "ENOTDIR": errno.ENOTDIR}

# kind -> (step, exception factory)   exceptions raised by patched open()/read()/readline()
IO_FAULTS = {
    "OPEN_NOSTRERROR": ("open", lambda p: OSError("synthetic failure without errno")),
    "OPEN_KBD": ("open", lambda p: KeyboardInterrupt()),
    "EIO_read": ("read", lambda p: os_error(errno.EIO)),
    "read_MemoryError": ("read", lambda p: MemoryError()),
    "read_KBD": ("read", lambda p: KeyboardInterrupt()),
    "EIO_readline": ("readline", lambda p: os_error(errno.EIO)),
    "readline_TokenError": ("readline", lambda p: tokenize.TokenError("injected", (1, 0))),
}
for _k, _c in OPEN_FAULTS.items():
    IO_FAULTS[_k] = ("open", functools.partial(lambda p, c: os_error(c, p), c=_c))

# kind -> (where, exception factory)
VISIT_FAULTS = {
    "check_exc": ("check", lambda: RuntimeError("injected check failure")),
    "check_syntaxerror": ("check", lambda: SyntaxError("injected")),
    "check_oserror": ("check", lambda: os_error(errno.EIO)),
    "check_KBD": ("check", lambda: KeyboardInterrupt()),
    "visitor_exc": ("visitor", lambda: RuntimeError("injected visitor failure")),
    "visitor_oserror": ("visitor", lambda: os_error(errno.EIO)),
    "visitor_syntaxerror": ("visitor", lambda: SyntaxError("injected")),
    "visitor_recursion": ("visitor", lambda: RecursionError("injected")),
    "visitor_KBD": ("visitor", lambda: KeyboardInterrupt()),
}

CONTENT_FAULTS = {
    "tokenizer_error": b"import pickle\nx = (1,\n",
    "syntax_error": b"import pickle\ndef f(:\n    pass\n",
    "indentation_error": b"import pickle\ndef f():\nx = 1\n",
    "dedent_error": b"import pickle\nif 1:\n        x = 1\n    y = 2\n",
    "nul_bytes": b"import pickle\nx = 1\x00\n",
    "bad_utf8_string": b'import pickle\nx = "\xff\xfe"\n',
    "bad_utf8_comment": b"import pickle # \xff\nx = 1\n",            # tokenize: SyntaxError; ast.parse: fine
    "bad_utf8_comment_line2": b"import pickle\nx = 1 # \xff\n",      # accepted by both
    "bad_utf8_ident": b"import pickle\n\xc3\x28 = 1\n",
    "bad_cookie": b"# -*- coding: no-such-codec -*-\nimport pickle\n",
    "bom_cookie_conflict": b"\xef\xbb\xbf# coding: latin-1\nimport pickle\n",
    "utf16": "import pickle\n".encode("utf-16"),
    "unterminated_string": b"import pickle\nx = '''abc\n",
    "trailing_backslash": b"import pickle\nx = 1 \\",
    "truncated_def": b"import pickle\ndef f(a, b",
    "deep_unary_memoryerror": {"gen": "deep_unary", "n": 12000},
    "deep_attr_recursion": {"gen": "deep_attr", "n": 2500},
    # checks raise RecursionError on the deep Call nodes before the visitor itself gives up: what happens to a check on this file must not follow it into the
    # next file (seeded change C04-m11 kept raising checks in a class-level set and skipped them from then on)
    "deep_call_chain_checks_raise": {"gen": "deep_call_chain", "n": 800},
    "too_many_parens": {"gen": "deep_paren", "n": 400},
    # VALID programs whose string constants hold lone surrogates (escapes): the constant reaches an issue text (B105 quotes the value), and every report must
    # still be writable (found on the unchanged tree: "'utf-8' codec can't encode character '\\ud800' ... surrogates not allowed", no report at all)
    "lone_surrogate_constant": b'import pickle\npassword = "\\ud800"\ntoken = "ab\\udcffcd"\n',
    "lone_surrogate_keyword": b'import pickle\nconnect(password="\\udfff")\n',
}


@contextlib.contextmanager
def patched_open(target, kind):
    step, mk = IO_FAULTS[kind]
    real = builtins.open

    def fake(file, *a, **k):
        if isinstance(file, str) and file == target:
            if step == "open":
                raise mk(target)
            mode = a[0] if a else k.get("mode", "r")
            if mode == "rb":
                return FaultyFile(real(file, *a, **k), step, mk(target))
        return real(file, *a, **k)
    builtins.open = fake
    try:
        yield
    finally:
        builtins.open = real


@contextlib.contextmanager
def patched_check(target, mk):
    from bandit.core import extension_loader
    exts = [e for e in extension_loader.MANAGER.plugins if getattr(e.plugin, "_test_id", None) == INJECT_CHECK]
    if not exts:
        raise RuntimeError("check %s not registered" % INJECT_CHECK)
    ext = exts[0]
    orig = ext.plugin

    @functools.wraps(orig)
    def wrapper(context, *a):
        if context.filename == target:
            raise mk()
        return orig(context, *a)
    ext.plugin = wrapper
    try:
        yield
    finally:
        ext.plugin = orig


@contextlib.contextmanager
def patched_visitor(target, mk):
    from bandit.core import node_visitor as nv
    cls = nv.BanditNodeVisitor
    orig = cls.visit

    def visit(self, node):
        if getattr(self, "fname", None) == target and isinstance(node, ast.Call):
            raise mk()
        return orig(self, node)
    cls.visit = visit
    try:
        yield
    finally:
        cls.visit = orig


class Probe:
    """optional accelerator: records whether `BanditNodeVisitor.process` raised, per file (used only to tell
    `visit` outcomes of *natural* failures such as RecursionError in the visitor; absent => inferred)."""
    def __enter__(self):
        self.seen = {}
        self.active = False
        try:
            from bandit.core import node_visitor as nv
            self.cls = nv.BanditNodeVisitor
            self.orig = self.cls.process
        except Exception:
            return self
        probe, orig = self, self.orig

        def process(vself, data):
            try:
                r = orig(vself, data)
            except BaseException as e:  # noqa
                probe.seen[getattr(vself, "fname", None)] = exc_json(e)
                raise
            probe.seen[getattr(vself, "fname", None)] = None
            return r
        self.cls.process = process
        self.active = True
        return self

    def __exit__(self, *a):
        if self.active:
            self.cls.process = self.orig
        return False


class FakeStdin:
    def __init__(self, fd):
        self.fd = fd

    def fileno(self):
        return self.fd


# ----------------------------------------------------------------------------- running one scenario
def ftuple(r):
    return [r.test_id, r.severity, r.confidence, r.lineno, list(r.linerange), r.col_offset, r.text]


_names_snapshot = None


def _registry_names(restore=False):
    """docs_utils.get_url (called by the JSON formatter) rewrites blacklist names in the shared registry
    (a C08/C18 matter); keep the harness cases independent of it"""
    global _names_snapshot
    from bandit.core import extension_loader
    by_id = extension_loader.MANAGER.blacklist_by_id
    if _names_snapshot is None:
        _names_snapshot = {k: v["name"] for k, v in by_id.items()}
    if restore:
        for k, v in by_id.items():
            if k in _names_snapshot:
                v["name"] = _names_snapshot[k]


def layout(root, scn):
    """write the scenario's files; returns list of absolute paths (same order as scn['files'])"""
    paths = []
    for f in scn["files"]:
        p = os.path.join(root, f["name"])
        os.makedirs(os.path.dirname(p), exist_ok=True)
        with open(p, "wb") as fh:
            fh.write(materialise(f["src"]))
        paths.append(p)
    return paths


def observe(root, scn):
    """Materialise + run the REAL code on the scenario.  Everything returned is JSON-able."""
    from bandit.core import config as b_config, manager as b_manager
    paths = layout(root, scn)
    fault = scn.get("fault")
    tpath = paths[fault["target"]] if fault and fault.get("target") is not None else None
    kind = fault["kind"] if fault else None
    linecache.clearcache()
    C.take_log()
    _registry_names()
    obs = {"paths": paths, "escaped": None, "report": None, "report_error": None}
    stack = contextlib.ExitStack()
    old_stdin = sys.stdin
    wfd = None
    with stack:
        if kind in VISIT_FAULTS:
            where, mk = VISIT_FAULTS[kind]
            stack.enter_context(patched_check(tpath, mk) if where == "check" else patched_visitor(tpath, mk))
        conf = b_config.BanditConfig()
        mgr = b_manager.BanditManager(conf, "file", debug=bool(scn.get("debug")), ignore_nosec=bool(scn.get("ignore_nosec")))
        targets = list(paths)
        st = scn.get("stdin")
        if st is not None:
            targets.append("-")
        mgr.discover_files(targets)
        obs["discovered"] = list(mgr.files_list)
        # ---- faults that strike after discovery
        if kind == "ENOENT":
            os.remove(tpath)
        elif kind == "EISDIR":
            os.remove(tpath)
            os.mkdir(tpath)
        elif kind == "ELOOP":
            os.remove(tpath)
            os.symlink(tpath, tpath)
        elif kind == "ENOTDIR":
            d = os.path.dirname(tpath)
            os.remove(tpath)
            os.rmdir(d)
            with open(d, "wb") as fh:
                fh.write(b"not a directory\n")
        elif kind in IO_FAULTS:
            stack.enter_context(patched_open(tpath, kind))
        if st is not None:
            if st == "EBADF":
                fd = 900
                while True:
                    try:
                        os.fstat(fd)
                        fd += 1
                    except OSError:
                        break
                sys.stdin = FakeStdin(fd)
            elif st == "NOFILENO":
                sys.stdin = io.StringIO("x = 1\n")
            elif st == "CLOSED":
                sys.stdin = None                 # the process was started with standard input closed (`bandit a.py - <&-`)
            else:
                data = materialise(st["src"])
                rfd, wfd = os.pipe()
                import threading
                threading.Thread(target=lambda: (os.write(wfd, data) if data else None, os.close(wfd)), daemon=True).start()
                sys.stdin = FakeStdin(rfd)
        probe = stack.enter_context(Probe())
        if scn.get("progress"):
            # take the progress-bar branch of run_tests (more than PROGRESS_THRESHOLD files and log level <= INFO), as the command-line tool does by default
            import logging as _lg
            mlog = _lg.getLogger("bandit.core.manager")
            old_level = mlog.level
            mlog.setLevel(_lg.INFO)
            stack.callback(mlog.setLevel, old_level)
            devnull = stack.enter_context(open(os.devnull, "w"))
            stack.enter_context(contextlib.redirect_stderr(devnull))
            stack.enter_context(contextlib.redirect_stdout(devnull))
        try:
            try:
                mgr.run_tests()
            except BaseException as e:  # noqa  whatever leaves run_tests is an observation
                obs["escaped"] = exc_json(e)
                obs["escaped_repr"] = repr(e)[:300]
        finally:
            sys.stdin = old_stdin
        obs["probe"] = {k: v for k, v in probe.seen.items() if k is not None} if probe.active else None
    logs = C.take_log()
    obs["files_list"] = list(mgr.files_list)
    obs["skipped"] = [[n if isinstance(n, str) else repr(n), r] for n, r in mgr.skipped]
    obs["results"] = [[r.fname, ftuple(r)] for r in mgr.results]
    obs["scores"] = [s for s in mgr.scores]
    obs["metrics_files"] = [k for k in mgr.metrics.data if k != "_totals"]
    obs["check_errors"] = {}
    import re
    for rec in logs:
        if rec.levelno >= logging.ERROR:
            m = re.match(r"Bandit internal error running: (\S+) on file (.+?) at line ", rec.getMessage())
            if m:
                obs["check_errors"].setdefault(m.group(2), []).append(m.group(1))
    if obs["escaped"] is None:
        out = C._KeepOpen()
        try:
            mgr.output_results(3, "LOW", "LOW", out, "json")
            rep = json.loads(out.getvalue())
            obs["report"] = {"errors": [[e["filename"], e["reason"]] for e in rep["errors"]],
                             "results": [[r["filename"], r["test_id"], r["line_number"]] for r in rep["results"]],
                             "metrics_files": sorted(k for k in rep["metrics"] if k != "_totals")}
        except BaseException as e:  # noqa
            obs["report_error"] = "%s: %s" % (type(e).__name__, str(e)[:300])
        finally:
            _registry_names(restore=True)
        # every other shipped formatter must produce *a* report too (seeded change C04-m7: the run totals lost their zero-initialised keys when no file
        # was scanned successfully, and only the text / screen formatters read them)
        obs["other_formats"] = {}
        if obs["report"] is not None:
            from bandit.core import extension_loader
            for fmt in sorted(extension_loader.MANAGER.formatter_names):
                if fmt == "json":
                    continue
                if fmt == "sarif":
                    try:
                        import sarif_om, jschema_to_python  # noqa: F401
                    except ImportError:
                        continue
                fp = os.path.join(root, "report." + fmt)
                try:
                    cap = C._KeepOpen()
                    with contextlib.redirect_stdout(cap):
                        mgr.output_results(3, "LOW", "LOW", open(fp, "w", encoding="utf-8"), fmt)
                    obs["other_formats"][fmt] = None        # an empty document is a report too (the custom format lists findings only)
                except BaseException as e:  # noqa
                    obs["other_formats"][fmt] = "%s: %s" % (type(e).__name__, str(e)[:300])
                finally:
                    _registry_names(restore=True)
                    if os.path.exists(fp):
                        os.remove(fp)
    return obs


_alone_cache = {}


def alone(scratch, data, ignore_nosec, debug, inject=None):
    """findings / score of one file scanned alone (cached by content and settings)"""
    key = (data, ignore_nosec, debug, inject)
    if key not in _alone_cache:
        scratch.k += 1
        root = os.path.join(scratch.root, f"a{scratch.k}")
        os.makedirs(root)
        scn = {"files": [{"name": "alone.py", "src": b64(data)}], "ignore_nosec": ignore_nosec, "debug": debug,
               "fault": {"kind": inject, "target": 0} if inject else None}
        o = observe(root, scn)
        _alone_cache[key] = {"findings": [f for _, f in o["results"]], "scores": o["scores"], "scanned": bool(o["files_list"])}
    return _alone_cache[key]


class UnknownDiscovered(Exception):
    pass


# ----------------------------------------------------------------------------- expectations for the model
def expected_outcomes(scn, obs, datas, cls):
    """Per discovered file (in `obs['discovered']` order) the outcome vector sent to the Lean model.
    Content steps come from `cls` (stdlib tokenizer/parser run by the harness), injected faults from the
    scenario, natural visitor failures from the probe / the logged check errors."""
    paths = obs["paths"]
    fault = scn.get("fault")
    outs = []
    inferred = False
    for name in obs["discovered"]:
        o = {}
        if name == "-":
            st = scn["stdin"]
            if st in ("EBADF", "CLOSED"):
                o["open"] = ["os", os.strerror(errno.EBADF)]
            elif st == "NOFILENO":
                o["open"] = ["os", None]
            else:
                c = cls["-"]
                o.update({k: v for k, v in c.items() if v is not None})
            shown = "<stdin>"
        else:
            if name not in paths:
                # the implementation names a file nobody discovered (e.g. stdin treated as a path): left to the accounting oracle, which reports it
                raise UnknownDiscovered(name)
            i = paths.index(name)
            c = cls[i]
            o.update({k: v for k, v in c.items() if v is not None})
            shown = name
            if fault and fault.get("target") == i:
                kind = fault["kind"]
                if kind in NATURAL_OPEN:
                    o = {"open": ["os", os.strerror(NATURAL_OPEN[kind])]}
                elif kind in IO_FAULTS:
                    step, mk = IO_FAULTS[kind]
                    e = exc_json(mk(name))
                    if step == "readline":
                        pass          # since /repo 1cb0176 the comment pass tokenizes the bytes already read: a failing readline() of the file object can no longer strike
                    else:
                        o[{"open": "open", "read": "read"}[step]] = e
                elif kind in VISIT_FAULTS:
                    where, mk = VISIT_FAULTS[kind]
                    o["visit"] = ["check" if where == "check" else "raise", exc_json(mk())]
        if "open" not in o and "read" not in o and "parse" not in o and "visit" not in o:
            # natural failures inside the visit
            if obs.get("probe") is not None:
                pe = obs["probe"].get(shown)
                if pe is not None:
                    o["visit"] = ["raise", pe]
            elif any(n == shown and r == REASON_EXC for n, r in obs["skipped"]) and not (o.get("tok") not in (None, "token") and not scn.get("ignore_nosec")):
                o["visit"] = ["raise", "other"]     # no probe available: inferred from the outcome (weaker)
                inferred = True
            if "visit" not in o and obs["check_errors"].get(shown):
                o["visit"] = ["check", "other"]
        outs.append(o)
    return outs, inferred


def check_scenario(res, drv, scratch, scn, obs, label, oracle=True):
    """correspondence with the Lean model + spec oracle on the implementation's output.
    Returns True when everything agreed."""
    ok = True
    ign, dbg = bool(scn.get("ignore_nosec")), bool(scn.get("debug"))
    datas = [materialise(f["src"]) for f in scn["files"]]
    cls = scn.get("_cls")
    if cls is None:
        cls = {i: classify(d) for i, d in enumerate(datas)}
        st = scn.get("stdin")
        if isinstance(st, dict):
            cls["-"] = classify(materialise(st["src"]))
    else:
        cls = {(int(k) if k != "-" else k): v for k, v in cls.items()}
    fault = scn.get("fault") or {}
    kind = fault.get("kind")
    paths = obs["paths"]
    disc = obs["discovered"]

    def shown(n):
        return "<stdin>" if n == "-" else n

    def data_of(n):
        if n == "-":
            return materialise(scn["stdin"]["src"])
        return datas[paths.index(n)]

    def replay(extra=None):
        r = {"scenario": {k: v for k, v in scn.items() if not k.startswith("_")}, "label": label,
             "observed": {k: obs[k] for k in ("discovered", "files_list", "skipped", "escaped", "report_error") if k in obs}}
        if extra:
            r.update(extra)
        return r

    by_file = {}
    for fn, t in obs["results"]:
        by_file.setdefault(fn, []).append(t)

    # ------------------------------------------------------------------ (a) Lean model
    try:
        outs, inferred = expected_outcomes(scn, obs, datas, cls)
    except UnknownDiscovered as e:
        res.violation("the list of discovered files names something that is not one of the targets", {"name": str(e), "discovered": obs["discovered"], "scenario_label": label})
        return False
    if inferred:
        res.count("visit-outcome-inferred")
    model = None
    if drv is not None:
        model = drv.ask({"op": "manager_run", "files": disc, "outcomes": outs, "ignore_nosec": ign, "debug": dbg})
        if "error" in model:
            res.break_("driver-error", model["error"])
            model = None
    if model is not None:
        diffs = {}
        if model["escaped"] != obs["escaped"]:
            diffs["escaped"] = [model["escaped"], obs["escaped"]]
        if model["escaped"] is None and model["files_list"] != obs["files_list"]:
            diffs["files_list"] = [model["files_list"], obs["files_list"]]
        if model["skipped"] != obs["skipped"]:
            diffs["skipped"] = [model["skipped"], obs["skipped"]]
        if not model.get("hyp", True):
            res.break_("hypothesis", {"what": "discovered list has duplicates or contains the literal <stdin>", "discovered": disc})
        # per-file findings: the model says WHICH files contribute (and whether degraded); the findings themselves are
        # the file's findings when scanned alone (message text is compared only for healthy files, in the oracle below)
        exp_results = []
        for fn, orig, degraded in model["results"]:
            inj = kind if (degraded and kind in VISIT_FAULTS and fault.get("target") is not None and orig == paths[fault["target"]]) else None
            healthy = orig != "-" and scn["files"][paths.index(orig)].get("role") == "healthy"
            if (degraded and inj is None) or (scn.get("sub") and not healthy):
                # natural check crash / risky content: take the run's own findings for that file (not re-scanned in-process)
                exp_results += [[fn, t[:6]] for t in by_file.get(fn, [])]
                continue
            a = alone(scratch, data_of(orig), ign, dbg, inj)
            exp_results += [[fn, t[:6]] for t in a["findings"]]
        got_results = [[f, t[:6]] for f, t in obs["results"]]
        if exp_results != got_results:
            diffs["results"] = [[(f, t[0], t[3]) for f, t in exp_results][:12], [(f, t[0], t[3]) for f, t in got_results][:12]]
        if len(model["scores"]) != len(obs["scores"]):
            diffs["scores"] = [model["scores"], len(obs["scores"])]
        if model["metrics_begun"] != obs["metrics_files"]:
            diffs["metrics_begun"] = [model["metrics_begun"], obs["metrics_files"]]
        if obs["report"] is not None and model["skipped"] != obs["report"]["errors"]:
            diffs["report_errors"] = [model["skipped"], obs["report"]["errors"]]
        if diffs:
            ok = False
            res.count("correspondence-mismatch")
            res.break_("correspondence", {"label": label, "outcomes": outs, "diff": diffs, "replay": replay()})
    # ------------------------------------------------------------------ (b) spec oracle on the implementation
    if not oracle:
        return ok
    interrupting = kind in ("OPEN_KBD", "read_KBD", "check_KBD", "visitor_KBD")
    if interrupting:
        # outside the property's quantifier (the user stops the scan): correspondence with the model only
        # (theorem interrupt_exits_2: SystemExit(2) from inside _parse_file)
        return ok
    if obs["escaped"] is not None:
        res.violation("the scan did not complete: %s left run_tests" % obs.get("escaped_repr"), replay())
        return False
    names = obs["files_list"] + [n for n, _ in obs["skipped"]]
    verdict = None
    if drv is not None:
        verdict = drv.ask({"op": "manager_spec", "files": disc, "files_list": obs["files_list"], "skipped": obs["skipped"]})
        if "error" in verdict:
            res.break_("driver-error", verdict["error"])
            verdict = None
    py_accounted = sorted("-" if n == "<stdin>" else n for n in names) == sorted(disc)
    py_once = len(set(names)) == len(names)
    no_strerror = kind == "OPEN_NOSTRERROR" or scn.get("stdin") == "NOFILENO"
    py_reasoned = all(isinstance(r, str) and r for _, r in obs["skipped"])
    if verdict is not None and (verdict["accounted"], verdict["once"], verdict["reasoned"]) != (py_accounted, py_once, py_reasoned):
        res.break_("spec-evaluation", {"lean": verdict, "python": [py_accounted, py_once, py_reasoned], "replay": replay()})
    accounted = verdict["accounted"] if verdict else py_accounted
    once = verdict["once"] if verdict else py_once
    reasoned = verdict["reasoned"] if verdict else py_reasoned
    if not accounted:
        res.violation("a discovered file is neither scanned nor skipped (or an undiscovered name is reported)", replay())
        ok = False
    if not once:
        res.violation("a file is accounted for more than once (scanned and skipped, or listed twice)", replay())
        ok = False
    if not reasoned and not no_strerror:
        res.violation("a file is skipped without a reason", replay())
        ok = False
    # healthy files: scanned, findings identical to scanning them alone, wherever they stand
    for i, f in enumerate(scn["files"]):
        if f.get("role") != "healthy":
            continue
        p = paths[i]
        a = alone(scratch, datas[i], ign, dbg)
        if p not in obs["files_list"]:
            res.violation("a healthy file is not reported as scanned", replay({"file": f["name"]}))
            ok = False
        if by_file.get(p, []) != a["findings"]:
            res.violation("a problem in one file changed the findings reported for a healthy file",
                          replay({"file": f["name"], "alone": [t[:4] for t in a["findings"]], "in_run": [t[:4] for t in by_file.get(p, [])]}))
            ok = False
        if p in obs["files_list"] and len(obs["scores"]) == len(obs["files_list"]):
            if obs["scores"][obs["files_list"].index(p)] != a["scores"][0]:
                res.violation("scores are not aligned with files_list (a healthy file carries another file's score)", replay({"file": f["name"]}))
                ok = False
    st = scn.get("stdin")
    if isinstance(st, dict) and st.get("role") == "healthy":
        a = alone(scratch, materialise(st["src"]), ign, dbg)
        if by_file.get("<stdin>", []) != a["findings"] or "<stdin>" not in obs["files_list"]:
            res.violation("healthy stdin target not scanned with its own findings", replay())
            ok = False
    # results are committed only for scanned files
    stray = sorted({fn for fn in by_file if fn not in obs["files_list"]})
    if stray:
        res.violation("findings are reported for a file that is not listed as scanned", replay({"stray": stray}))
        ok = False
    if len(obs["scores"]) != len(obs["files_list"]):
        res.violation("scores and files_list differ in length (the text report zips them)", replay({"scores": len(obs["scores"])}))
        ok = False
    # the report: model of the excerpt step (Issue.get_code) vs implementation; known finding inside the region
    produced_model = None
    if drv is not None:
        issues = []
        flags = None
        for fn, t in obs["results"]:
            if fn == "<stdin>" and isinstance(st, dict):
                if flags is None:
                    flags = [_is_utf8(l) for l in materialise(st["src"]).split(b"\n")]
                issues.append([fn, t[3], len(t[4]), flags])
            else:
                issues.append([fn, max(t[3], 0), len(t[4]), []])
        mr = drv.ask({"op": "manager_report", "max_lines": 3, "issues": issues})
        if "error" in mr:
            res.break_("driver-error", mr["error"])
        else:
            produced_model = mr["produced"]
    if obs["report"] is None:
        if produced_model is False:
            res.known_finding(KF_STDIN)      # in the region (guard `stdinUtf8` false) and the model reproduces the failure
            res.count("known:" + KF_STDIN)
        else:
            res.violation("no report could be produced: %s" % obs["report_error"], replay())
            ok = False
    else:
        bad_fmt = {k: v for k, v in (obs.get("other_formats") or {}).items() if v}
        if bad_fmt:
            res.violation("the scan completed and the JSON report was produced, but other formatters could not produce a report: %s" % bad_fmt, replay({"formats": bad_fmt}))
            ok = False
        if produced_model is False:
            res.notes.append("known finding %s no longer reproduces (%s): model and known_findings.json are due for an update" % (KF_STDIN, label))
        rep = obs["report"]
        if rep["errors"] != obs["skipped"]:
            res.violation("JSON report `errors` differ from the skipped list", replay({"errors": rep["errors"]}))
            ok = False
        cnt = {}
        for fn, _, _ in rep["results"]:
            cnt[fn] = cnt.get(fn, 0) + 1
        if cnt != {fn: len(v) for fn, v in by_file.items()}:
            res.violation("JSON report `results` differ from the manager's results", replay({"report_counts": cnt}))
            ok = False
    return ok


def run_in_process(res, drv, scratch, scn, label, oracle=True):
    scratch.k += 1
    root = os.path.join(scratch.root, f"s{scratch.k}")
    os.makedirs(root)
    obs = observe(root, scn)
    return check_scenario(res, drv, scratch, scn, obs, label, oracle), obs


CHILD = r"""
import sys, json
sys.path.insert(0, %r)
import benv, common as C
C.setup_logging()
from props import c04
scn = json.load(open(sys.argv[1]))
sys.setrecursionlimit(1000)
obs = c04.observe(sys.argv[2], scn)
sys.stdout.write("\nOBS " + json.dumps(obs) + "\n"); sys.stdout.flush()
cls = {i: c04.classify(c04.materialise(f["src"])) for i, f in enumerate(scn["files"])}
sys.stdout.write("CLS " + json.dumps(cls) + "\n"); sys.stdout.flush()
"""


def run_in_subprocess(res, drv, scratch, scn, label, timeout=240):
    """risky inputs: the child may die; that is an observation, not a harness failure"""
    scratch.k += 1
    root = os.path.join(scratch.root, f"p{scratch.k}")
    os.makedirs(root)
    sp = os.path.join(root, "scenario.json")
    with open(sp, "w") as f:
        json.dump({k: v for k, v in scn.items() if not k.startswith("_")}, f)
    wd = os.path.join(root, "w")
    os.makedirs(wd)
    code = CHILD % os.path.join(C.VERIF, "harness")
    env = dict(os.environ)
    env["BANDIT_REPO"] = C.REPO
    try:
        p = subprocess.run(["/venv/bin/python", "-c", code, sp, wd], stdout=subprocess.PIPE, stderr=subprocess.PIPE, timeout=timeout, env=env)
    except subprocess.TimeoutExpired:
        res.violation("the scan did not complete within %d s" % timeout, {"scenario": scn, "label": label})
        return False, None
    out = p.stdout.decode("utf-8", "replace")
    obs = cls = None
    for line in out.splitlines():
        if line.startswith("OBS "):
            obs = json.loads(line[4:])
        elif line.startswith("CLS "):
            cls = json.loads(line[4:])
    if obs is None:
        res.violation("the interpreter died while scanning (exit status %s): no report" % p.returncode,
                      {"scenario": scn, "label": label, "returncode": p.returncode, "stderr": p.stderr.decode("utf-8", "replace")[-1500:]})
        return False, None
    if cls is None:
        res.notes.append(f"{label}: child died while *classifying* after a completed scan (rc={p.returncode}); correspondence skipped")
        res.count("child-classify-died")
        return True, obs
    scn = dict(scn)
    scn["_cls"] = cls
    return check_scenario(res, drv, scratch, scn, obs, label), obs


# ----------------------------------------------------------------------------- scenario builders
def with_faulty(n, pos, faulty_src, kind=None, faulty_name=None, **kw):
    """n healthy files + one faulty file at position pos (0..n); names sort in list order"""
    files = []
    h = 0
    for i in range(n + 1):
        if i == pos:
            nm = faulty_name or "%02d_faulty.py" % i
            if kind == "ENOTDIR":
                nm = "%02d_dir/faulty.py" % i
            files.append({"name": nm, "role": "faulty", "src": faulty_src})
        else:
            files.append({"name": "%02d_healthy.py" % i, "role": "healthy", "src": {"healthy": (5 * h + n) % len(HEALTHY)}})
            h += 1
    scn = {"files": files, "fault": {"kind": kind, "target": pos} if kind else None}
    scn.update(kw)
    return scn


def enumeration(thorough):
    """all (N, position, fault kind[, ignore_nosec/debug]) combinations"""
    out = []
    body = b64(FAULTY_BODY)
    for n in (0, 2, 3, 4):         # n = 0: the faulty file is the only target (no file is scanned successfully)
        for pos in range(n + 1):
            for kind in list(NATURAL_OPEN) + list(IO_FAULTS):
                step = IO_FAULTS[kind][0] if kind in IO_FAULTS else "open"
                variants = [False, True] if step == "readline" else [False]
                for ign in variants:
                    out.append((f"{kind}/N{n}/p{pos}/ign{int(ign)}", with_faulty(n, pos, body, kind, ignore_nosec=ign)))
            for kind in VISIT_FAULTS:
                for dbg in ([False, True] if VISIT_FAULTS[kind][0] == "check" else [False]):
                    out.append((f"{kind}/N{n}/p{pos}/dbg{int(dbg)}", with_faulty(n, pos, body, kind, debug=dbg)))
            for kind, src in CONTENT_FAULTS.items():
                spec = src if isinstance(src, dict) else b64(src)
                for ign in (False, True):
                    out.append((f"{kind}/N{n}/p{pos}/ign{int(ign)}", with_faulty(n, pos, spec, None, ignore_nosec=ign)))
            # a file whose NAME is not valid UTF-8 (os.fsdecode gives it a lone surrogate): healthy content, a syntax error, an open() failure — the name reaches
            # every report (results, metrics, skipped list)
            for kind, spec in (("badname_healthy", b64(FAULTY_BODY)), ("badname_syntax", b64(CONTENT_FAULTS["syntax_error"]))):
                out.append((f"{kind}/N{n}/p{pos}", with_faulty(n, pos, spec, None, faulty_name="%02d_f\udcff\udce9.py" % pos)))
    return out


def two_faults():
    """two faulty files in ONE run: a content-faulty file (skipped inside _parse_file) and a file whose open() fails
    (skipped in run_tests), in both orders and at several distances — bookkeeping that is only right while nothing was
    skipped earlier shows up here"""
    out = []
    body = b64(FAULTY_BODY)
    for n in (4, 5):
        for p1 in range(n):
            for p2 in range(n):
                if p1 == p2:
                    continue
                for ckind in ("syntax_error", "nul_bytes"):
                    for okind in ("ENOENT", "ELOOP"):
                        files = []
                        h = 0
                        for i in range(n):
                            if i == p1:
                                files.append({"name": "%02d_content.py" % i, "role": "faulty", "src": b64(CONTENT_FAULTS[ckind])})
                            elif i == p2:
                                files.append({"name": "%02d_faulty.py" % i, "role": "faulty", "src": body})
                            else:
                                files.append({"name": "%02d_healthy.py" % i, "role": "healthy", "src": {"healthy": h % 3}})
                                h += 1
                        scn = {"files": files, "fault": {"kind": okind, "target": p2}, "ignore_nosec": False}
                        out.append((f"two:{ckind}@{p1}+{okind}@{p2}/N{n}", scn))
    return out


def progress_scenarios():
    """more than PROGRESS_THRESHOLD (50) files with the log level at INFO: run_tests iterates through the progress tracker — a different
    loop header from the one every other scenario takes (seeded change C04-m4 tracked the list that skipped files are removed from)"""
    out = []
    body = b64(FAULTY_BODY)
    n = 54
    for faults in ([(0, "syntax_error")], [(17, "nul_bytes")], [(30, "ENOENT")], [(52, "syntax_error")], [(5, "syntax_error"), (6, "nul_bytes"), (40, "ENOENT")]):
        files, h = [], 0
        fpos = dict(faults)
        target = None
        for i in range(n):
            k = fpos.get(i)
            if k in CONTENT_FAULTS:
                files.append({"name": "m%02d_content.py" % i, "role": "faulty", "src": b64(CONTENT_FAULTS[k])})
            elif k is not None:
                files.append({"name": "m%02d_faulty.py" % i, "role": "faulty", "src": body})
                target = (i, k)
            else:
                files.append({"name": "m%02d_healthy.py" % i, "role": "healthy", "src": {"healthy": h % 3}})
                h += 1
        scn = {"files": files, "fault": {"kind": target[1], "target": target[0]} if target else None, "ignore_nosec": False, "progress": True}
        out.append(("progress:" + "+".join("%s@%d" % (k, i) for i, k in faults), scn))
    return out


def stdin_scenarios():
    out = []
    for n in (1, 2):
        base = [{"name": "%02d_healthy.py" % i, "role": "healthy", "src": {"healthy": i}} for i in range(n)]
        out.append((f"stdin-healthy/N{n}", {"files": base, "stdin": {"src": {"healthy": 3}, "role": "healthy"}}))
        for k in ("syntax_error", "nul_bytes", "bad_utf8_comment", "bad_cookie", "deep_attr_recursion"):
            src = CONTENT_FAULTS[k]
            for ign in (False, True):
                out.append((f"stdin-{k}/N{n}/ign{int(ign)}", {"files": base, "stdin": {"src": src if isinstance(src, dict) else b64(src)}, "ignore_nosec": ign}))
        out.append((f"stdin-empty/N{n}", {"files": base, "stdin": {"src": b64(b"")}}))
        # the witness of Props.C04.NEG_stdin_excerpt_not_utf8 and neighbours (valid latin-1 program; non-UTF-8 line outside every excerpt window)
        out.append((f"stdin-NEG-witness/N{n}", {"files": base, "stdin": {"src": b64(b"import pickle\nx = 1 # \xff\n")}}))
        out.append((f"stdin-latin1-valid/N{n}", {"files": base, "stdin": {"src": b64(b'# coding: latin-1\nimport pickle\ns = "\xe9"\n')}}))
        out.append((f"stdin-latin1-far/N{n}", {"files": base, "stdin": {"src": b64(b'# coding: latin-1\nimport pickle\n\n\n\ns = "\xe9"\n')}}))
        out.append((f"stdin-latin1-nofinding/N{n}", {"files": base, "stdin": {"src": b64(b'# coding: latin-1\ns = "\xe9"\n')}}))
        out.append((f"stdin-EBADF/N{n}", {"files": base, "stdin": "EBADF"}))
        out.append((f"stdin-NOFILENO/N{n}", {"files": base, "stdin": "NOFILENO"}))
        # standard input closed: `-` cannot be opened, like any other target that cannot be opened (found on the unchanged tree: sys.stdin is None then, and the
        # AttributeError of `.fileno()` escaped run_tests — no report; repaired in /repo)
        out.append((f"stdin-CLOSED/N{n}", {"files": base, "stdin": "CLOSED"}))
    return out


# ----------------------------------------------------------------------------- fuzz
def corpus():
    d = os.path.join(C.REPO, "examples")
    out = []
    for fn in sorted(os.listdir(d)):
        p = os.path.join(d, fn)
        if fn.endswith(".py") and os.path.isfile(p):
            data = open(p, "rb").read()
            if 0 < len(data) < 6000:
                out.append(data)
    return out


TOKENS = [b"def ", b"class ", b"import ", b"from ", b"(", b")", b"[", b"]", b"{", b"}", b":", b"\n", b"\n    ", b"\t", b" ", b"=", b"'", b'"',
          b"'''", b'"""', b"#", b"# nosec", b"\\", b"\\\n", b"\r", b"\r\n", b"\x00", b"\x0c", b"\xff", b"\xef\xbb\xbf", b"lambda", b"f'{", b"}'",
          b"x", b"pickle", b"assert ", b"exec(", b"0x", b"1e", b"...", b"@", b"->", b":=", b"async ", b"await ", b"match ", b"case ", b"*", b"**",
          b"# coding: latin-1\n", b"# -*- coding: utf-8 -*-\n", b"# coding: ascii\n", b"\xc3\xa9", b"\xe2\x80\xae", b"\xed\xa0\x80", b"b'\\x'", b"'\\N{", b"'\\u12'"]


def fuzz_one(rng, corp):
    r = rng.random()
    if r < 0.12:
        return "random-bytes", bytes(rng.randrange(256) for _ in range(rng.randrange(1, 200)))
    if r < 0.27:
        return "token-soup", b"".join(rng.choice(TOKENS) for _ in range(rng.randrange(1, 40)))
    base = rng.choice(corp)
    if r < 0.45:
        return "truncated", base[:rng.randrange(0, len(base))]
    if r < 0.75:
        d = bytearray(base)
        for _ in range(rng.randrange(1, 6)):
            op = rng.randrange(5)
            i = rng.randrange(len(d) + 1)
            if op == 0 and d:
                d[i % len(d)] = rng.randrange(256)
            elif op == 1:
                d[i:i] = rng.choice(TOKENS)
            elif op == 2 and d:
                j = min(len(d), i + rng.randrange(1, 30))
                del d[i:j]
            elif op == 3 and d:
                j = min(len(d), i + rng.randrange(1, 60))
                d[i:i] = d[i:j]
            elif d:
                d[i % len(d)] ^= 1 << rng.randrange(8)
        return "mutated", bytes(d)
    if r < 0.85:
        nl = rng.choice([b"\r", b"\r\n", b"\n\r", b"\x0c\n", b"\x0b", b"\x1c", b"\xc2\x85", b"\xe2\x80\xa8"])
        return "newline-pathology", base.replace(b"\n", nl, rng.choice([1, 3, -1]))
    if r < 0.95:
        head = rng.choice([b"\xef\xbb\xbf", b"\xff\xfe", b"\xfe\xff", b"# coding: latin-1\n", b"# coding: utf-16\n", b"# coding: cp1252\n", b"#!/usr/bin/python\n# vim: set fileencoding=koi8-r :\n",
                           b"# coding: rot13\n", b"# coding: idna\n", b"# coding: unicode_escape\n", b"# coding: utf-8-sig\n", b"\xef\xbb\xbf# coding: utf-8\n", b"# coding: utf-7\n", b"# coding: hex\n"])
        tail = rng.choice([b"", b"s = '\xe9\xff'\n", b"# \x80\n", b"\xe9 = 1\n"])
        return "encoding-pathology", head + base[:rng.randrange(0, len(base))] + tail
    d = base + rng.choice([b"\\", b"\x00", b"'''", b"(", b"\x1a", b"\r", b"\xff", b"    ", b"\n\t x"])
    return "tail-pathology", d


RISKY_QUICK = [("deep_paren", 10000), ("deep_bracket", 10000), ("deep_brace_unclosed", 10000), ("deep_call", 10000), ("deep_attr", 10000),
               ("deep_binop", 10000), ("deep_unary", 100000), ("deep_lambda", 10000), ("deep_if", 10000), ("deep_fstring", 10000),
               ("deep_subscript", 10000), ("long_line", 1 << 20), ("long_bytes_nul", 1 << 20), ("many_args", 20000), ("long_ident", 1 << 20),
               ("deep_attr", 500), ("deep_binop", 500), ("deep_paren", 150), ("deep_comp", 5000)]
RISKY_THOROUGH = [("deep_paren", 100000), ("deep_attr", 100000), ("deep_binop", 100000), ("deep_not", 30000), ("deep_unary", 200000), ("deep_lambda", 100000),
                  ("deep_if", 99), ("deep_if", 101), ("deep_fstring", 100), ("deep_subscript", 100000), ("long_line", 8 << 20), ("long_comment", 1 << 20),
                  ("many_lines", 30000), ("long_cr", 30000), ("big_int", 5000), ("big_int", 100000), ("deep_call", 100), ("deep_bracket", 199), ("deep_bracket", 201),
                  ("deep_attr", 1500), ("deep_binop", 1500), ("deep_unary", 1500), ("deep_comp", 50000)]


def triple(spec, h0=0, h1=1):
    return {"files": [{"name": "00_healthy.py", "role": "healthy", "src": {"healthy": h0}},
                      {"name": "01_fuzz.py", "role": "faulty", "src": spec},
                      {"name": "02_healthy.py", "role": "healthy", "src": {"healthy": h1}}]}


def mixed_target_sets(res, scratch):
    """Directory targets (walked) next to explicitly named files: every explicitly named file and every walked .py file is accounted for exactly once (scanned,
    or skipped with a reason, or — for walked files outside the include globs — excluded), also when a sibling's name merely STARTS WITH a walked directory's
    name, when a named file does not exist, and when one of the files cannot be parsed (seeded change C04-m10 dropped an explicit file whose path had a walked
    directory's path as a string prefix: app_tools/deploy.py after `app`)."""
    from bandit.core import config as b_config, manager as b_manager
    root = os.path.join(scratch.root, "mixed")
    tree = {"app/a.py": b"import pickle\n", "app/broken.py": b"def (:\n", "app/notes.txt": b"x", "app_tools/deploy.py": b"import subprocess\nsubprocess.Popen(c, shell=True)\n",
            "app_tools/x.py": b"assert y\n", "apps.py": b"exec(c)\n", "app.py": b"import telnetlib\n", "lib/app/z.py": b"eval(e)\n", "ap/p.py": b"import marshal\n"}
    for rel, data in tree.items():
        os.makedirs(os.path.dirname(os.path.join(root, rel)), exist_ok=True)
        with open(os.path.join(root, rel), "wb") as fh:
            fh.write(data)
    target_sets = [["app", "app_tools/deploy.py", "app_old/gone.py"], ["app", "apps.py", "app.py"], ["app_tools/deploy.py", "app"], ["ap", "app/a.py", "app_tools"],
                   ["lib", "app/a.py", "app_tools/x.py"], ["app", "app_tools", "ap", "apps.py"], ["app/", "app_tools/deploy.py"], ["./app", "./app_tools/deploy.py", "./apps.py"]]
    old = os.getcwd()
    os.chdir(root)
    try:
        for targets in target_sets:
            linecache.clearcache()
            C.take_log()
            mgr = b_manager.BanditManager(b_config.BanditConfig(), "file")
            try:
                mgr.discover_files(list(targets), True)
                mgr.run_tests()
            except BaseException as e:  # noqa
                res.violation("the scan of a mixed target set did not complete", {"targets": targets, "tree": sorted(tree), "exception": "%s: %s" % (type(e).__name__, e)})
                continue
            C.take_log()
            res.case(("mixed-targets", tuple(targets)), True)
            res.count("mixed-target-sets")
            norm = lambda p: os.path.normpath(p)
            scanned = [norm(f) for f in mgr.files_list]
            skipped = [norm(n) for n, _ in mgr.skipped]
            excluded = [norm(f) for f in mgr.excluded_files]
            expected = set()
            for t in targets:
                if os.path.isdir(t):
                    for dp, _, fns in os.walk(t):
                        for fn in fns:
                            expected.add(norm(os.path.join(dp, fn)))
                else:
                    expected.add(norm(t))
            problems = {}
            for f in sorted(expected):
                n = (f in set(scanned)) + (f in set(skipped)) + (f in set(excluded))
                if n != 1:
                    problems[f] = {"scanned": f in scanned, "skipped": f in skipped, "excluded": f in excluded}
            for f in set(scanned) | set(skipped):
                if f not in expected:
                    problems[f] = "accounted for but not a target"
            by = {}
            for r in mgr.results:
                by.setdefault(norm(r.fname), []).append((r.test_id, r.lineno))
            for f in set(scanned):
                a = alone(scratch, tree.get(f.replace(os.sep, "/"), b""), False, False)
                want = sorted((t[0], t[3]) for t in a["findings"])
                if sorted(by.get(f, [])) != want:
                    problems[f + " (findings)"] = {"in_this_run": sorted(by.get(f, [])), "alone": want}
            if problems:
                res.violation("a target set of directories and explicitly named files is not accounted for file by file (each once: scanned, skipped with a reason, or excluded)",
                              {"targets": targets, "cwd_tree": sorted(tree), "files_list": mgr.files_list, "skipped": [[n, r] for n, r in mgr.skipped],
                               "excluded": mgr.excluded_files, "problems": problems})
    finally:
        os.chdir(old)


def deep_neighbours(res, scratch):
    """Two files too deeply nested for the visitor, then a healthy one, in ONE run: what happens to each is what happens to it alone — a file the visitor
    gives up on does not change the limits the next file is scanned under (seeded change C04-m14 raised the recursion limit around the walk without
    try/finally: after one failed walk the next deep file was scanned instead of skipped).  The references are taken first, in this order, on purpose."""
    import sys as _sys
    from bandit.core import config as b_config, manager as b_manager
    d = os.path.join(scratch.root, "deepn")
    os.makedirs(d)
    files = {"a_problem.py": "x = 1" + "+1" * 2800 + "\n", "b_deep.py": "import pickle\ny = 1" + "+1" * 2300 + "\n", "c_attr.py": "import marshal\nz = a" + ".b" * 1500 + "\n",
             "d_healthy.py": "import subprocess\nsubprocess.Popen(c, shell=True)\n"}
    for nm, body in files.items():
        with open(os.path.join(d, nm), "w") as fh:
            fh.write(body)

    def scan(names):
        linecache.clearcache()
        C.take_log()
        m = b_manager.BanditManager(b_config.BanditConfig(), "file")
        try:
            m.discover_files([os.path.join(d, n) for n in names]); m.run_tests()
        except BaseException as e:  # noqa
            return {"escaped": "%s: %s" % (type(e).__name__, str(e)[:100])}
        C.take_log()
        out = {}
        for n in names:
            p_ = os.path.join(d, n)
            out[n] = {"scanned": p_ in m.files_list, "skipped": [r for f, r in m.skipped if f == p_], "findings": sorted((r.test_id, r.lineno) for r in m.results if r.fname == p_)}
        return out
    limit0 = _sys.getrecursionlimit()
    refs = {}
    for n in ("d_healthy.py", "c_attr.py", "b_deep.py", "a_problem.py"):      # healthy and shallower first
        refs.update(scan([n]))
    for order in (["a_problem.py", "b_deep.py", "c_attr.py", "d_healthy.py"], ["c_attr.py", "a_problem.py", "d_healthy.py", "b_deep.py"]):
        got = scan(order)
        res.case(("deep-neighbours", tuple(order)), True)
        res.count("deep-neighbours")
        if "escaped" in got:
            res.violation("a run over deeply nested files did not complete", {"files": {k: v[:60] + "…" for k, v in files.items()}, "order": order, "exception": got["escaped"]})
            continue
        diff = {n: {"alone": refs[n], "in_this_run": got[n]} for n in order if got[n] != refs[n]}
        if diff or _sys.getrecursionlimit() != limit0:
            res.violation("a file is treated differently (scanned / skipped / findings) because of a deeply nested file scanned before it, or the interpreter's recursion limit is left changed",
                          {"files": {k: v[:60] + "… (%d chars)" % len(v) for k, v in files.items()}, "order": order, "differences": diff,
                           "recursion_limit_before_after": [limit0, _sys.getrecursionlimit()]})
            _sys.setrecursionlimit(limit0)


def cli_end_to_end(res, scratch, thorough):
    """The same clauses through the command-line tool (cli/main.py sits between the scan and the report): N healthy files plus one faulty file, N in {0, 2} — with N = 0
    no target is scanned successfully —, a content fault or an open() failure that needs no patching, -f json / txt / yaml written with -o.  The run ends with exit status
    0 or 1, the report exists and parses, every target appears exactly once (as a metrics block or in the skipped list with a reason), exit 1 iff the report lists a
    finding.  (Seeded change C04-m15 left main() with exit 2 and no report when no file could be scanned and one of them had a syntax error.)"""
    import json as _json
    kinds = [(k, v) for k, v in CONTENT_FAULTS.items() if not isinstance(v, dict)] + [("deep_unary_memoryerror", CONTENT_FAULTS["deep_unary_memoryerror"])]
    naturals = ["ENOENT", "DANGLING"]
    combos = []
    for n in (0, 2):
        for k, v in kinds:
            combos.append((n, k, v if isinstance(v, dict) else b64(v), None))
        for nat in naturals:
            combos.append((n, nat, b64(FAULTY_BODY), nat))
    # two faulty files and nothing else (an unparsable file next to a missing one)
    combos.append((0, "syntax+missing", b64(CONTENT_FAULTS["syntax_error"]), "EXTRA_MISSING"))
    if not thorough:
        combos = [c for i, c in enumerate(combos) if c[0] == 0 or i % 3 == 0]
    for n, kind, spec, nat in combos:
        root = tempfile.mkdtemp(prefix="cli_", dir=scratch.root)
        targets = []
        fpath = os.path.join(root, "00_faulty.py")
        if nat == "ENOENT":
            pass
        elif nat == "DANGLING":
            os.symlink(os.path.join(root, "nowhere.py"), fpath)
        else:
            open(fpath, "wb").write(materialise(spec))
        targets.append(fpath)
        if nat == "EXTRA_MISSING":
            targets.append(os.path.join(root, "01_missing.py"))
        for i in range(n):
            hp = os.path.join(root, "%02d_healthy.py" % (i + 1))
            open(hp, "wb").write(HEALTHY[(3 * i + len(kind)) % len(HEALTHY)])
            targets.append(hp)
        for fmt in (("json", "txt", "yaml") if thorough else ("json", "txt")):
            outp = os.path.join(root, "report." + fmt)
            r = C.run_cli(["-f", fmt, "-o", outp] + targets)          # not -q: a quiet run without findings writes no text report by design
            res.case(("cli-e2e", kind, n, fmt), True)
            res.count("cli-end-to-end:" + fmt)
            text = open(outp, encoding="utf-8", errors="replace").read() if os.path.exists(outp) else ""
            replay = {"targets": [os.path.basename(t) for t in targets], "fault": kind, "healthy_files": n, "format": fmt, "exit": r["exit"], "exc": r["exc"],
                      "faulty_source_b64": spec if isinstance(spec, dict) and "b64" in spec else str(spec)[:80], "report_bytes": len(text), "stderr_tail": r["err"][-300:]}
            if r["exc"] is not None or r["exit"] not in (0, 1) or not text:
                res.violation("the command-line run did not end with a report (exit status 0/1 and a non-empty report file)", replay)
                continue
            if fmt != "json":
                continue
            try:
                data = _json.loads(text)
            except Exception:
                res.violation("the JSON report of the command-line run does not parse", replay)
                continue
            blocks = [k for k in data["metrics"] if k != "_totals"]
            skipped = [e["filename"] for e in data["errors"]]
            # skipped = listed in `errors` (once); otherwise scanned = exactly one metrics block (a file that was opened and then skipped keeps its block)
            def once(t):
                names = (t, "./" + t)
                k = sum(skipped.count(x) for x in names)
                return k == 1 or (k == 0 and sum(blocks.count(x) for x in names) == 1)
            bad = [t for t in targets if not once(t)]
            noreason = [e for e in data["errors"] if not e.get("reason")]
            if bad or noreason:
                res.violation("a target of the command-line run is not accounted for exactly once (scanned, or skipped with a reason)",
                              dict(replay, not_once=[os.path.basename(b) for b in bad], metrics_blocks=[os.path.basename(b) for b in blocks], skipped=data["errors"]))
            if r["exit"] != (1 if data["results"] else 0):
                res.violation("exit status of the command-line run does not go with its report", dict(replay, findings=len(data["results"])))


# ----------------------------------------------------------------------------- entry point
def run(res, ctx):
    import warnings
    with warnings.catch_warnings():
        warnings.simplefilter("ignore")     # SyntaxWarnings of fuzzed sources would only clutter stderr
        _run(res, ctx)


def _run(res, ctx):
    thorough = res.tier == "thorough"
    res.rule = ("(1) exhaustive: N in {2,3,4} healthy files with distinct findings + one faulty file at each of the N+1 positions x every fault kind "
                "(open: ENOENT/EISDIR/ELOOP/ENOTDIR natural, EACCES/EMFILE/ENFILE/ENOMEM/ENAMETOOLONG/strerror-less/KeyboardInterrupt patched; read: EIO/MemoryError/KeyboardInterrupt; "
                "readline: EIO/TokenError; %d content faults x {nosec honoured, ignored}; %d injected check/visitor exceptions x debug); (2) stdin target scenarios; " % (len(CONTENT_FAULTS), len(VISIT_FAULTS)) +
                "(3) seeded byte-level fuzz (random bytes, token soup, truncated/mutated /repo/examples, newline/encoding/tail pathologies) batched between healthy files, "
                "and deep-nesting / huge inputs in a subprocess.  A case is one manager run; it is non-trivial when its (fault kind, step outcome vector, position, N) or fuzz content is distinct. "
                "Each case: Lean model vs implementation on files_list, skipped (names+reasons), per-file findings, scores, metrics blocks, JSON errors; "
                "and the spec oracle on the implementation (partition via Lean Spec predicates, reasons, healthy findings = alone, no stray findings, report produced)")
    drv = C.Driver() if ctx.get("driver_ok", True) and os.path.exists(C.DRIVER) else None
    if drv is None:
        res.break_("driver", "Lean driver not available: correspondence not checked")
    scratch = C.Scratch()
    try:
        if ctx.get("replay"):
            rp = ctx["replay"].get("replay", ctx["replay"])
            scn = rp.get("scenario")
            if scn is None and rp.get("broken"):
                for b in rp["broken"]:
                    d = b[1] if isinstance(b, (list, tuple)) and len(b) > 1 else None
                    if isinstance(d, dict) and isinstance(d.get("replay"), dict) and d["replay"].get("scenario"):
                        rp = d["replay"]
                        scn = rp["scenario"]
                        break
            if scn is None:
                res.notes.append("replay file carries no scenario (broken obligation without failing input)")
                return
            label = rp.get("label", "replay")
            if scn.get("sub"):
                run_in_subprocess(res, drv, scratch, scn, label)
            else:
                run_in_process(res, drv, scratch, scn, label)
            res.case(label, True, sample={"label": label})
            return

        # the reference "this healthy file scanned alone" is taken BEFORE any faulty file has been scanned in this process (whatever a faulty file leaves behind
        # must not be part of the reference)
        for hsrc in HEALTHY:
            for ign in (False, True):
                for dbg in (False, True):
                    alone(scratch, hsrc, ign, dbg)
        # ---- (0) directory targets next to explicitly named files
        deep_neighbours(res, scratch)
        mixed_target_sets(res, scratch)
        cli_end_to_end(res, scratch, thorough)
        # ---- (1) fault enumeration
        for label, scn in enumeration(thorough):
            ok, obs = run_in_process(res, drv, scratch, scn, label)
            kind = label.split("/")[0]
            res.count("fault:" + kind)
            sk = [r for _, r in obs["skipped"]]
            res.count("outcome:" + ("escaped" if obs["escaped"] else ("skipped:" + str(sk[0]) if sk else "all-scanned")))
            res.case(label, True, sample={"label": label, "files_list": [os.path.basename(p) for p in obs["files_list"]],
                                         "skipped": [[os.path.basename(n), r] for n, r in obs["skipped"]]} if label.endswith("N3/p1/ign0") and kind in ("ELOOP", "EIO_read", "bad_utf8_comment") else None)
        # ---- (1b) two faulty files in one run
        tf = two_faults()
        if not thorough:
            rng_tf = C.rng_for(res.seed, "C04", "two-faults")
            tf = rng_tf.sample(tf, 40)
        for label, scn in tf:
            ok, obs = run_in_process(res, drv, scratch, scn, label)
            res.count("two-faults")
            res.case(label, True, sample={"label": label, "files_list": [os.path.basename(p) for p in obs["files_list"]],
                                         "skipped": [[os.path.basename(n), r] for n, r in obs["skipped"]]} if label.endswith("@1+ENOENT@3/N4") else None)
        # ---- (1c) the progress-bar path (> 50 files, log level INFO)
        for label, scn in progress_scenarios():
            ok, obs = run_in_process(res, drv, scratch, scn, label)
            res.count("progress-path")
            res.case(label, True)
        # ---- (2) stdin
        for label, scn in stdin_scenarios():
            ok, obs = run_in_process(res, drv, scratch, scn, label)
            res.count("stdin")
            res.case(label, True, sample={"label": label, "files_list": [os.path.basename(p) for p in obs["files_list"]], "skipped": [[os.path.basename(n), r] for n, r in obs["skipped"]]} if label == "stdin-syntax_error/N2/ign0" else None)
        # ---- (3a) fuzz stream, in-process, batches of fuzz files interleaved with healthy files
        rng = C.rng_for(res.seed, "C04", "fuzz")
        corp = corpus()
        n_fuzz = 9000 if thorough else 400
        batch = 8
        seen = set()
        done = 0
        while done < n_fuzz:
            items = []
            while len(items) < batch:
                k, data = fuzz_one(rng, corp)
                done += 1
                if data in seen:
                    continue
                seen.add(data)
                items.append((k, data))
            files = []
            for i, (k, data) in enumerate(items):
                files.append({"name": "%02d_healthy.py" % (2 * i), "role": "healthy", "src": {"healthy": i % len(HEALTHY)}})
                files.append({"name": "%02d_fuzz.py" % (2 * i + 1), "role": "faulty", "src": b64(data)})
            files.append({"name": "%02d_healthy.py" % (2 * len(items)), "role": "healthy", "src": {"healthy": len(items) % len(HEALTHY)}})
            scn = {"files": files, "ignore_nosec": rng.random() < 0.25}
            probe_res = C.Result(res.pid, res.tier, res.seed)
            ok, obs = run_in_process(probe_res, drv, scratch, scn, "fuzz-batch")
            if ok:
                res.hist.update({k: res.hist.get(k, 0) + v for k, v in probe_res.hist.items()})
            else:
                # localise: re-run every fuzz file alone between two healthy files; keep the batch replay only if nothing reproduces singly
                before = len(res.violations) + len(res.broken)
                for k, data in items:
                    s1 = triple(b64(data))
                    s1["ignore_nosec"] = scn["ignore_nosec"]
                    run_in_process(res, drv, scratch, s1, "fuzz:" + k)
                if len(res.violations) + len(res.broken) == before:
                    res.violations.extend(probe_res.violations)
                    res.broken.extend(probe_res.broken)
            for (k, data), f in zip(items, files[1::2]):
                res.count("fuzz:" + k)
                full = [n for n in obs["discovered"] if n.endswith(os.sep + f["name"])]
                reason = next((r for n, r in obs["skipped"] if n in full), None)
                res.count("fuzz-outcome:" + (reason if reason else "scanned"))
                res.case(hashlib.sha1(data).hexdigest(), True, sample={"fuzz": k, "bytes": repr(data[:60]), "outcome": reason or "scanned"} if done % 97 == 0 else None)
        # ---- (3b) risky inputs in a subprocess
        risky = RISKY_QUICK + (RISKY_THOROUGH if thorough else [])
        for g, n in risky:
            scn = triple({"gen": g, "n": n}, 2, 3)
            scn["sub"] = True
            label = f"risky:{g}:{n}"
            ok, obs = run_in_subprocess(res, drv, scratch, scn, label)
            res.count("risky:" + g)
            if obs is not None:
                sk = [r for _, r in obs["skipped"]]
                res.count("risky-outcome:" + (sk[0] if sk else "scanned"))
            res.case(label, True, sample={"label": label, "skipped": [r for _, r in obs["skipped"]]} if obs is not None and g == "deep_paren" else None)
        res.exhaustive = True     # part (1)/(2) are exhaustive over their finite domains; part (3) is a seeded sample
        res.extra["parts"] = {"enumeration": len(enumeration(thorough)), "stdin": len(stdin_scenarios()), "fuzz_inputs": len(seen), "risky_subprocess": len(risky)}
        res.extra["partial"] = ("that every failure CPython produces on arbitrary bytes/nesting/I-O faults is an Exception subclass (no segfault, no C-stack overflow) "
                                "is explored by parts (1)-(3), not proved")
        res.assumptions = ["Lean 4.33.0 kernel; axioms propext/Classical.choice/Quot.sound only",
                           "hand-written model lean/Bandit/Manager.lean of run_tests/_parse_file/_execute_ast_visitor/tester try-except, tied by this correspondence",
                           "outcome vectors: injected faults by construction; content faults by the stdlib tokenizer/parser run by the harness; natural visitor failures via a probe around BanditNodeVisitor.process",
                           "discover_files yields duplicate-free names none of which is the literal '<stdin>' (hypotheses Nodup / stdinName ∉ files; every run checks them on the discovered list)",
                           "CPython raises only Exception subclasses on arbitrary content (explored, not proved)"]
    finally:
        scratch.close()
        if drv is not None:
            drv.close()
