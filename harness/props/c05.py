"""C05 — selecting tests filters findings and never changes them."""
import sys
import common as C
import progs

LEVEL = "proof"


def universe():
    from bandit.core import extension_loader as el
    m = el.MANAGER
    return sorted(m.plugins_by_id), sorted(m.blacklist_by_id), list(m.builtin)


def gen_profile(rng, plug, bl, builtin, present_ids):
    """include / exclude sets drawn from plugin IDs, blacklist IDs, B001, unknown IDs (biased to IDs that occur)"""
    pool = list(present_ids) * 3 + plug + bl + ["B001", "B001", "B999", "X123"]
    kind = rng.choice(["inc", "exc", "both", "b001_inc", "b001_exc", "b001_specific", "empty", "plugins_only", "one_plugin",
                       "b001_inc_specific_exc", "b001_exc_specific_inc", "skip_all_blacklist"])
    inc, exc = set(), set()
    if kind in ("inc", "both"):
        inc = set(rng.sample(pool, rng.randint(1, 6)))
    if kind in ("exc", "both"):
        exc = set(rng.sample(pool, rng.randint(1, 6))) - inc
    if kind == "b001_inc":
        inc = {"B001"} | set(rng.sample(plug, rng.randint(0, 3)))
    if kind == "b001_exc":
        exc = {"B001"} | set(rng.sample(plug, rng.randint(0, 3)))
    if kind == "b001_specific":
        inc = {"B001", rng.choice(bl)} | set(rng.sample(plug, rng.randint(0, 2)))
    if kind == "plugins_only":      # no blacklist test left: the import visits run no check at all
        inc = set(rng.sample([i for i in present_ids if i in plug] or plug, rng.randint(1, 4)))
    if kind == "one_plugin":
        inc = {rng.choice([i for i in present_ids if i in plug] or plug)}
    if kind == "b001_inc_specific_exc":   # B001 in one list, a specific blacklist ID only in the other
        inc = {"B001"} | set(rng.sample(plug, rng.randint(0, 2)))
        exc = {rng.choice([i for i in present_ids if i in bl] or bl)}
    if kind == "b001_exc_specific_inc":
        exc = {"B001"}
        inc = {rng.choice([i for i in present_ids if i in bl] or bl)} | set(rng.sample(plug, rng.randint(0, 2)))
    if kind == "skip_all_blacklist":
        exc = {"B001"}
    return kind, inc, exc


def spec_filter(inc, exc, plug, bl, builtin):
    """S as the property states it: B001 stands for all blacklist IDs unless specific ones are listed."""
    def expand(s):
        s = set(s)
        if "B001" in s:
            if not (s & set(bl)):
                s |= set(bl)
            s.discard("B001")
        return s
    i, e = expand(inc), expand(exc)
    base = i if i else set(plug) | set(bl) | set(builtin)
    return base - e


def run(res, ctx):
    plug, bl, builtin = universe()
    blids = set(bl)
    rng = C.rng_for(res.seed, "C05")
    thorough = res.tier == "thorough"
    n_prog = 60 if thorough else 14
    n_sel = 40 if thorough else 12
    res.rule = ("seeded programs mixing trigger statements of many checks (incl. `import pickle, subprocess`, where two blacklist rules match one node) x seeded "
                "selections (include/exclude subsets of plugin IDs, blacklist IDs, B001 alone / with specific IDs, unknown IDs); for each (program, selection) the restricted "
                "scan of real bandit is compared with the filter of its own unrestricted scan (spec) and with the Lean model; non-trivial = distinct (program, selection) "
                "where the unrestricted run has at least one finding")
    programs = [progs.make_program(rng) for _ in range(n_prog)]
    # process-spawning calls of all three families on one page (what one check learns about a call must not leak into another: seeded change C05-m3
    # appended to a configuration list shared by B602-B607) and multi-line calls whose lines carry nosec comments naming DIFFERENT tests, with
    # checks reporting on different lines of the call (seeded change C05-m4 cached the nosec set per node)
    programs.append(("import os, subprocess\nos.system('ls ' + a)\nos.execl('ls', '-l')\nos.popen('df ' + p, shell=flag)\nsubprocess.call(['ls', a])\n"
                     "subprocess.Popen('ls', shell=True)\nwrapped(cmd, shell=True)\nos.spawnl(os.P_WAIT, 'prog')\n", ["spawn_families"]))
    programs.append(("import os, subprocess\nos.popen('/bin/df -h ' + path,  # nosec B604\n         shell=True)  # nosec B605\n"
                     "subprocess.call(['ls', arg],  # nosec B607\n                shell=flag)  # nosec B602\n"
                     "subprocess.Popen('ls *',  # nosec B602\n                 shell=True)  # nosec B607\n"
                     "subprocess.check_output('tar x',  # nosec\n                        shell=True)  # nosec B404\n", ["nosec_pairs"]))
    programs.append(("import pickle, subprocess\nimport os, telnetlib\nx = 1\n", ["import_multi2"]))
    # a module bound dynamically and called through that name: what the blacklist check learns from the binding call must not change what the shell checks see
    # (seeded change C05-m12 let the blacklist check write `sp -> subprocess` into the visitor's alias table: B602/B604 then depended on a blacklist id being selected)
    programs.append(("import importlib\nsp = importlib.import_module('subprocess')\nsp.Popen(cmd, shell=True)\npk = __import__('pickle')\npk.loads(b)\nhl = importlib.import_module('hashlib')\nhl.md5(d)\n", ["dynamic_binding"]))
    programs.append(("import subprocess as sp\nfrom subprocess import Popen\nimport pickle\nfrom hashlib import md5\nfrom flask import Flask\n"
                     "sp.Popen(cmd, shell=True)\nPopen(cmd, shell=True)\npickle.loads(b)\nmd5(d)\napp.run(debug=True)\nassert x\n", ["alias_mix"]))
    scratch = C.Scratch()
    d = C.Driver() if ctx["driver_ok"] else None
    try:
        sources = [p[0].encode() for p in programs]
        # every selection is tried with bandit's built-in defaults AND with a configuration file holding the generated settings of every plugin
        # (what bandit-config-generator writes): then all checks of a family are handed the SAME settings objects
        import yaml
        from bandit.core import extension_loader as el
        gen_cfg = {}
        for plg in el.MANAGER.plugins:
            fn = plg.plugin
            if getattr(fn, "_takes_config", None) and hasattr(sys.modules[fn.__module__], "gen_config"):
                c = sys.modules[fn.__module__].gen_config(fn._takes_config)
                if c is not None:
                    gen_cfg[fn._takes_config] = c
        cfg_file = scratch.fresh("generated.yaml", yaml.safe_dump(gen_cfg).encode())
        # a settings section that lacks keys some checks index (here: only the `subprocess` list of shell_injection) makes those checks raise on every call
        # node; the tester logs the error and goes on with the next check.  What the OTHER checks find on that node is the same with or without the raising
        # check in the selection (seeded change C05-m8 hoisted the per-check error handler out of the loop: one raising check silenced all later ones)
        partial_file = scratch.fresh("partial.yaml", yaml.safe_dump({"shell_injection": {"subprocess": ["subprocess.Popen", "subprocess.call", "subprocess.check_output"]}}).encode())
        cfg_files = {None: None, "generated": cfg_file, "partial": partial_file}
        full_by_cfg = {None: C.batch_real_scan(scratch, sources), "generated": C.batch_real_scan(scratch, sources, config_file=cfg_file),
                       "partial": C.batch_real_scan(scratch, sources, config_file=partial_file)}
        full = full_by_cfg[None]
        # group work by selection so each manager construction serves many files
        sels = []
        all_present = sorted({f[0] for r in full for f in r["findings"]})
        for _ in range(n_sel):
            sels.append(gen_profile(rng, plug, bl, builtin, all_present))
        sels.append(("only_B404", {"B404"}, set()))
        sels.append(("skip_B403", set(), {"B403"}))
        sels.append(("only_B602", {"B602"}, set()))
        sels.append(("skip_B001", set(), {"B001"}))
        sels.append(("b001_vs_specific", {"B001"}, {"B301"}))
        sels.append(("b001_plugin_vs_specific", {"B001", "B101"}, {"B404"}))
        sels.append(("only_B602_B603", {"B602", "B603"}, set()))
        sels.append(("skip_B605_B606_B607", set(), {"B605", "B606", "B607"}))
        sels.append(("only_late_call_checks", {"B602", "B604", "B201", "B301", "B324", "B506"}, set()))
        for kind, inc, exc, cfg_kind in [(k, i, e, c) for (k, i, e) in sels for c in (None, "generated", "partial")]:
            if inc & exc:
                continue
            profile = {"include": set(inc), "exclude": set(exc)}
            full = full_by_cfg[cfg_kind]
            try:
                restricted = C.batch_real_scan(scratch, sources, profile=profile, config_file=cfg_files[cfg_kind])
            except Exception as e:  # a selection the constructor rejects is not this property's business
                res.notes.append(f"selection {sorted(inc)}/{sorted(exc)} rejected: {type(e).__name__}")
                continue
            S = spec_filter(inc, exc, plug, bl, builtin)
            model = None
            if d is not None and cfg_kind != "partial":     # the model's settings are the generated ones (Props.C06 `configOK`); the partial section is judged by the spec alone
                reqs = []
                for s in sources:
                    rq = C.scan_request(s, plugin_cfg=gen_cfg if cfg_kind else None)
                    rq["profile"] = {"include": sorted(inc), "exclude": sorted(exc)}
                    reqs.append(rq)
                model = d.ask_many(reqs)
            for i, (src, frs) in enumerate(programs):
                fu, rs = full[i], restricted[i]
                key = (src, tuple(sorted(inc)), tuple(sorted(exc)), cfg_kind)
                res.count("config:" + str(cfg_kind))
                res.case(key, bool(fu["findings"]), sample={"program": src, "include": sorted(inc), "exclude": sorted(exc),
                                                            "restricted": [list(f[:4]) for f in rs["findings"]]} if (i == 0 and len(res.samples) < 4) else None)
                res.count("selection:" + kind)
                expect = C.norm_findings([f for f in fu["findings"] if f[0] in S])
                got = C.norm_findings(rs["findings"])
                agree = True
                if model is not None:
                    if "error" in model[i]:
                        res.break_("driver-error", model[i]["error"]); agree = False
                    else:
                        diff = C.compare_scan(rs, model[i], blids)
                        if diff:
                            agree = False
                            res.break_("correspondence", {"program": src, "include": sorted(inc), "exclude": sorted(exc), "diff": diff})
                if expect != got:
                    extra = [f for f in got if f not in expect]
                    missing = [f for f in expect if f not in got]
                    # region of the known finding: the blacklist stops at the first matching rule, so an unselected rule can mask a selected one
                    masked = bool(extra) and not missing and all(f[0] in blids for f in extra) and \
                        all(any(g[0] in blids and g[0] not in S and g[3] == f[3] for g in fu["findings"]) for f in extra)
                    if masked and agree and (model is not None or cfg_kind == "partial"):
                        res.known_finding("C05-blacklist-first-match")
                    else:
                        res.violation("findings under a selection differ from the selected findings of the unrestricted run",
                                      {"program": src, "include": sorted(inc), "exclude": sorted(exc), "only_in_restricted": [list(f) for f in extra],
                                       "missing_from_restricted": [list(f) for f in missing]})
        # ---- the same selections through every carrier the command-line tool reads, alone and split over two of them: `-t/-s`, `tests:/skips:` of a YAML or
        #      TOML configuration file, `tests/skips` of an INI file, and a selection whose include list is divided between the configuration file and the
        #      command line / INI file — the parts add up (seeded change C05-m7 intersected `-t` with the configuration file's `tests:`)
        import json as _j, os as _os, yaml as _y
        pdir = _os.path.join(scratch.root, "carrier_progs")
        _os.makedirs(pdir)
        for i, (src, _) in enumerate(programs):
            with open(_os.path.join(pdir, "p%02d.py" % i), "w") as fh:
                fh.write(src)
        # a file that is not valid Python 3 but holds a bidirectional control character: skipped in every run, whatever is selected (seeded change C05-m11 only
        # parsed a file when some selected test needs the tree: under `-t B613` the file was no longer skipped and B613 reported in it)
        with open(_os.path.join(pdir, "zz_python2.py"), "w") as fh:
            fh.write("print 'legacy'  # \u202e hidden\nimport pickle\n")

        def cli_findings(argv):
            r = C.run_cli(argv + ["-f", "json", "-q", "-r", pdir])
            if r["exc"] is not None or r["exit"] not in (0, 1):
                return None, r
            try:
                return sorted((_os.path.basename(x["filename"]), x["test_id"], x["line_number"], x["col_offset"]) for x in _j.loads(r["out"])["results"]), r
            except Exception:
                return None, r

        base_f, _r = cli_findings([])
        known_ids = set(plug) | set(bl) | {"B001"}

        def toml_doc(t, k):
            body = "[tool.bandit]\n"
            if t:
                body += "tests = [%s]\n" % ", ".join('"%s"' % x for x in t)
            if k:
                body += "skips = [%s]\n" % ", ".join('"%s"' % x for x in k)
            return body.encode()

        def emit(label, t_cfg, s_cfg, t_flag, s_flag, fmt, flag):
            argv = []
            if t_cfg or s_cfg or fmt == "toml":
                doc = {}
                if t_cfg:
                    doc["tests"] = sorted(t_cfg)
                if s_cfg:
                    doc["skips"] = sorted(s_cfg)
                if fmt == "toml":
                    argv += ["-c", scratch.fresh("pyproject.toml", toml_doc(sorted(t_cfg), sorted(s_cfg)))]
                elif doc:
                    argv += ["-c", scratch.fresh("bandit.yaml", _y.safe_dump(doc).encode())]
            if flag == "cli":
                if t_flag:
                    argv += ["-t", ",".join(sorted(t_flag))]
                if s_flag:
                    argv += ["-s", ",".join(sorted(s_flag))]
            elif t_flag or s_flag:
                ini = "[bandit]\n" + ("tests = %s\n" % ",".join(sorted(t_flag)) if t_flag else "") + ("skips = %s\n" % ",".join(sorted(s_flag)) if s_flag else "")
                argv += ["--ini", scratch.fresh(".bandit", ini.encode())]
            return label, argv

        carrier_sels = [(k, i, e) for (k, i, e) in sels if (i | e) <= known_ids and not (i & e) and (i or e)]
        carrier_sels = carrier_sels if thorough else carrier_sels[:7]
        # ids bandit does not (or no longer) register, alone in the include list: whatever the tool does with them, it does not run tests outside the selection
        # (seeded change C05-m13 dropped "retired" ids from the lists; the then-empty include list meant: run everything)
        carrier_sels += [("only_unregistered", {"B322"}, set()), ("only_unregistered2", {"B309", "B320"}, set()), ("only_unknown", {"B999"}, set()),
                         ("unregistered_and_one", {"B322", "B101"}, set())]
        carrier_sels += [("only_file_level", {"B613"}, set()), ("file_level_and_one", {"B613", "B101"}, set()), ("two_part_include", {"B101", "B602"}, set()), ("three_part_include", {"B101", "B301", "B404", "B605"}, {"B602"}), ("two_part_skip", set(), {"B101", "B404", "B603"})]
        for kind, inc, exc in carrier_sels:
            S = spec_filter(inc, exc, plug, bl, builtin)
            expect = None if base_f is None else [f for f in base_f if f[1] in S]
            li, le = sorted(inc), sorted(exc)
            hi, he = set(li[: (len(li) + 1) // 2]), set(le[: (len(le) + 1) // 2])
            ems = [emit("cli", (), (), inc, exc, None, "cli"), emit("yaml", inc, exc, (), (), "yaml", None), emit("toml", inc, exc, (), (), "toml", None),
                   emit("ini", (), (), inc, exc, None, "ini"),
                   emit("yaml+cli", hi, he, inc - hi, exc - he, "yaml", "cli"), emit("toml+cli", inc - hi, exc - he, hi, he, "toml", "cli"),
                   emit("yaml+ini", hi, exc, inc - hi, (), "yaml", "ini"), emit("yaml+cli:overlap", inc, he, hi, exc, "yaml", "cli")]
            for label, argv in ems:
                got, r = cli_findings(argv)
                res.case(("carrier", label, tuple(li), tuple(le)), bool(expect))
                res.count("carrier:" + label)
                if got is None and (not S or not expect):
                    continue        # nothing (registered) left to run: rejected ("No tests would be run" / unknown id), C03/C13's business
                if got != expect:
                    # the first-match masking of the blacklist (known finding) can add a finding under a selection; it is judged above, through the API
                    extra = [f for f in (got or []) if f not in (expect or [])]
                    missing = [f for f in (expect or []) if f not in (got or [])]
                    if got is not None and extra and not missing and all(f[1] in blids for f in extra):
                        res.count("carrier-masked-blacklist-not-judged")
                        continue
                    res.violation("a selection given through %s does not report the selected findings of the unrestricted run" % label,
                                  {"carrier": label, "argv": [a if not a.startswith(scratch.root) else "<scratch>/" + _os.path.basename(a) for a in argv], "include": li, "exclude": le,
                                   "files": {"p%02d.py" % i: src for i, (src, _) in enumerate(programs)} if len(res.violations) < 2 else "as in the first replay",
                                   "missing": missing[:10], "extra": extra[:10], "exit": r["exit"], "exc": r["exc"], "stderr": r["err"][-300:]})
        # contradiction must be rejected (exit 2) through the CLI
        p = scratch.fresh("a.py", b"assert x\n")
        for argv in (["-t", "B101", "-s", "B101", p], ["-t", "B101,B102", "-s", "B102", p]):
            r = C.run_cli(argv)
            res.case(("cli",) + tuple(argv[:4]), True)
            if r["exc"] is not None or r["exit"] != 2:
                res.violation("a test ID both included and excluded is not rejected with exit status 2", {"argv": argv[:4], "exit": r["exit"], "exc": r["exc"]})
        # under a BASELINE too: what a restricted run reports against a baseline is what the unrestricted run reports against it, filtered by the selection (seeded change
        # C05-m18 skipped the comparison for files whose number of findings equals the baseline's: under -t the count of a changed file can equal it by accident)
        import json as _json0
        bdir = _os.path.join(scratch.root, "bl_sel"); _os.makedirs(bdir, exist_ok=True)
        histories = [("assert x\n", "assert x\n\nexec(a)\n"), ("import pickle\nassert y\n", "import pickle\nexec(b)\n"), ("eval(e)\nexec(c)\n", "eval(e)\nexec(c)\nexec(d)\nassert z\n"),
                     ("password = 'pw'\nassert q\nassert r\n", "password = 'pw'\nassert q\neval(s)\n")]
        for hi, (old_src, new_src) in enumerate(histories):
            fpath = _os.path.join(bdir, "h%d.py" % hi)
            open(fpath, "w").write(old_src)
            basef = _os.path.join(bdir, "base%d.json" % hi)
            C.run_cli(["-f", "json", "-q", "-o", basef, fpath])
            open(fpath, "w").write(new_src)
            r0 = C.run_cli(["-f", "json", "-q", "-b", basef, fpath])
            try:
                full = sorted((x["test_id"], x["line_number"]) for x in _json0.loads(r0["out"])["results"])
            except Exception:
                res.violation("no report for a scan against a baseline", {"old": old_src, "new": new_src, "exit": r0["exit"], "exc": r0["exc"]})
                continue
            for flag, sel in (("-t", ["B101"]), ("-t", ["B102"]), ("-t", ["B101", "B102"]), ("-t", ["B307", "B102"]), ("-s", ["B101"]), ("-s", ["B102", "B105"]), ("-t", ["B403", "B101"])):
                r = C.run_cli(["-f", "json", "-q", "-b", basef, flag, ",".join(sel), fpath])
                res.case(("selection-under-baseline", hi, flag, tuple(sel)), True)
                res.count("selection-under-baseline")
                try:
                    got = sorted((x["test_id"], x["line_number"]) for x in _json0.loads(r["out"])["results"])
                except Exception:
                    got = None
                want = [f for f in full if (f[0] in sel) == (flag == "-t")]
                if got != want:
                    res.violation("under a baseline, a restricted run does not report the unrestricted run's findings filtered by the selection",
                                  {"baseline_taken_from": old_src, "scanned": new_src, "selection": [flag, sel], "unrestricted_against_baseline": [list(x) for x in full], "expected": [list(x) for x in want],
                                   "reported": None if got is None else [list(x) for x in got], "exit": r["exit"], "exc": r["exc"]})
        # ... also when the two lists come from DIFFERENT sources: the INI file (given with --ini, or found under the target) and the command line, a YAML / TOML file and
        # the command line (seeded change C05-m17 let a -t id silently win over the same id in the INI file's skips)
        import yaml as _yaml0
        inif = scratch.fresh("skips.ini", b"[bandit]\nskips = B101,B601\n")
        init = scratch.fresh("tests.ini", b"[bandit]\ntests = B101,B102\n")
        ycfg = scratch.fresh("skips.yaml", _yaml0.safe_dump({"skips": ["B101"]}).encode())
        ycft = scratch.fresh("tests.yaml", _yaml0.safe_dump({"tests": ["B101", "B102"]}).encode())
        projd = _os.path.join(scratch.root, "proj_ini"); _os.makedirs(projd, exist_ok=True)
        open(_os.path.join(projd, "a.py"), "w").write("assert x\n")
        open(_os.path.join(projd, ".bandit"), "w").write("[bandit]\nskips = B101\n")
        for label, argv in (("ini-skips + cli -t", ["--ini", inif, "-t", "B101", p]), ("ini-tests + cli -s", ["--ini", init, "-s", "B102", p]), ("project .bandit skips + cli -t", ["-r", projd, "-t", "B101"]),
                            ("yaml-skips + cli -t", ["-c", ycfg, "-t", "B101", p]), ("yaml-tests + cli -s", ["-c", ycft, "-s", "B101", p]), ("yaml-skips + ini-tests", ["-c", ycfg, "--ini", init, p])):
            r = C.run_cli(argv)
            res.case(("cross-source-contradiction", label), True)
            res.count("cross-source-contradiction")
            if r["exc"] is not None or r["exit"] != 2:
                res.violation("a test ID included by one source and excluded by another is not rejected with exit status 2",
                              {"sources": label, "argv": [a if not a.startswith(scratch.root) else "<scratch>/" + _os.path.relpath(a, scratch.root) for a in argv], "exit": r["exit"], "exc": r["exc"], "stdout_head": r["out"][:160]})
        # named (legacy) profiles of a configuration file, selected with -p: the same restriction through another carrier (seeded change C05-m6: the
        # legacy conversion leaves an EMPTY `blacklist` entry in every profile, which a changed test then took for a legacy override — no blacklist
        # finding under any -p run)
        import json as _json, yaml as _yaml
        prog = scratch.fresh("prof.py", b"import pickle\nimport subprocess\nassert x\nexec(c)\npickle.loads(b)\nimport telnetlib\n")
        cfgp = scratch.fresh("profiles.yaml", _yaml.safe_dump({"profiles": {"picked": {"include": ["B403", "B301", "exec_used"]}, "no_assert": {"exclude": ["assert_used"]},
                                                                           "all_bl": {"include": ["B001", "B101"]}, "bl_names": {"include": ["pickle", "import_telnetlib"]}}}).encode())
        r0 = C.run_cli(["-f", "json", "-q", prog])
        allf = sorted((x["test_id"], x["line_number"]) for x in _json.loads(r0["out"])["results"])
        # a profile naming one test in BOTH lists (by id twice, or by name and by id) is a contradiction: rejected like `-t X -s X` (seeded change C05-m14 resolved the
        # overlap silently in favour of the include list)
        cfgo = scratch.fresh("overlap.yaml", _yaml.safe_dump({"profiles": {"ids": {"include": ["B101", "B102"], "exclude": ["B101"]},
                                                                           "name_and_id": {"include": ["assert_used", "exec_used"], "exclude": ["B101"]},
                                                                           "bl": {"include": ["B301", "B403"], "exclude": ["B403"]}}}).encode())
        for name in ("ids", "name_and_id", "bl"):
            r = C.run_cli(["-c", cfgo, "-p", name, "-f", "json", "-q", prog])
            res.case(("profile-overlap", name), True)
            res.count("named-profile-overlap")
            if r["exc"] is not None or r["exit"] != 2:
                res.violation("a profile that includes and excludes the same test is not rejected with exit status 2", {"profile": name, "exit": r["exit"], "exc": r["exc"], "stdout_head": r["out"][:200]})
        wants = {"picked": lambda i: i in ("B403", "B301", "B102"), "no_assert": lambda i: i != "B101", "all_bl": lambda i: i in blids or i == "B101",
                 "bl_names": lambda i: i in ("B301", "B401")}
        for name, keep in wants.items():
            r = C.run_cli(["-c", cfgp, "-p", name, "-f", "json", "-q", prog])
            res.case(("profile", name), True)
            res.count("named-profile")
            try:
                got = sorted((x["test_id"], x["line_number"]) for x in _json.loads(r["out"])["results"])
            except Exception:
                got = None
            exp = [f for f in allf if keep(f[0])]
            if r["exc"] or got != exp:
                res.violation("findings under a named profile differ from the selected findings of the unrestricted run",
                              {"profile": name, "expected": exp, "got": got, "exit": r["exit"], "exc": r["exc"]})
    finally:
        scratch.close()
        if d is not None:
            d.close()
