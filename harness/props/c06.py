"""C06 — no built-in check crashes on valid Python (crash monitor + model correspondence on crashes)."""
import ast, glob, os
import common as C
import metamorph

LEVEL = "proof"

POS_SHAPES = ["'lit'", "b'by'", "0", "1024", "2.5", "0j", "[]", "['a', 'b']", "[x, 1]", "()", "('a',)", "{1, 2}", "{[1]}", "{}", "{'k': 'v'}", "{**d}", "name",
              "obj.attr", "mod.sub.attr", "call()", "obj.m(1)", "'a' + b", "'a %s' % b", "f'{x}'", "'{}'.format(x)", "'x'.replace('a', b)", "*args", "None", "True",
              "...", "lambda: 0", "[i for i in y]", "x if c else y", "-1", "not x", "a[0]", "a.b(t)", "(yield)", "await_me", "x := 3",
              # constant arithmetic Python itself cannot evaluate (seeded change C06-m5 folded numeric literals in call arguments without a guard)
              "1 // 0", "4096 % 0", "1 << -1", "1.5 | 1", "0 ** -1", "2 * 512", "0o700 | 0o077", "1 / 0", "-(1 // 0)", "'a' * -1", "~1.5", "1 << 10", "5 @ 3"]
KEYWORDS = ["shell", "verify", "timeout", "usedforsecurity", "name", "key_size", "bits", "curve", "ssl_version", "method", "Loader", "weights_only", "members", "filter",
            "autoescape", "debug", "mpModel", "sql", "select", "where", "params", "tables", "order_by", "password", "token", "mode", "salt", "authKey", "privKey", "cwd", "package"]
KW_SPECIAL = ["**opts", "**{'a': 1}", "**\"x\"", "**{}", "**f()"]


def harvest_callees():
    """every callee spelling that occurs in bandit's own examples (they exist to trigger each check) + table names"""
    out = {}
    for f in sorted(glob.glob(os.path.join(C.REPO, "examples", "*.py"))):
        try:
            tree = ast.parse(open(f, "rb").read())
        except SyntaxError:
            continue
        imports = []
        for n in ast.walk(tree):
            if isinstance(n, (ast.Import, ast.ImportFrom)) and n.col_offset == 0:
                try:
                    imports.append(ast.unparse(n))
                except Exception:
                    pass
        pre = "\n".join(dict.fromkeys(imports))
        for n in ast.walk(tree):
            if isinstance(n, ast.Call):
                try:
                    callee = ast.unparse(n.func)
                except Exception:
                    continue
                if len(callee) < 80 and "\n" not in callee and "(" not in callee:
                    out.setdefault(callee, pre)
    from bandit.core import extension_loader as el
    for rules in el.MANAGER.blacklist.values():
        for r in rules:
            for q in r["qualnames"]:
                if "." in q:
                    out.setdefault(q, "import " + q.rsplit(".", 1)[0])
                else:
                    out.setdefault(q, "")
    extra = {"importlib.import_module": "import importlib", "importlib.__import__": "import importlib", "__import__": "",
             "mark_safe": "from django.utils.safestring import mark_safe", "RawSQL": "from django.db.models.expressions import RawSQL",
             "qs.extra": "import django", "tar.extractall": "import tarfile", "tarfile.open(p).extractall": "import tarfile",
             "Markup": "from markupsafe import Markup", "flask.Markup": "import flask", "yaml.load": "import yaml", "torch.load": "import torch",
             "jinja2.Environment": "import jinja2", "Template": "from mako.template import Template", "logging.config.listen": "import logging.config",
             "client.set_missing_host_key_policy": "import paramiko", "client.exec_command": "import paramiko", "os.chmod": "import os",
             "UsmUserData": "from pysnmp.hlapi import UsmUserData", "CommunityData": "from pysnmp.hlapi import CommunityData",
             "ec.generate_private_key": "from cryptography.hazmat.primitives.asymmetric import ec", "RSA.generate": "from Crypto.PublicKey import RSA",
             "hashlib.new": "import hashlib", "crypt.crypt": "import crypt", "crypt.mksalt": "import crypt", "ssl.wrap_socket": "import ssl",
             "SSL.Context": "from pyOpenSSL import SSL", "requests.get": "import requests", "httpx.Client": "import httpx", "app.run": "from flask import Flask",
             "subprocess.Popen": "import subprocess", "os.system": "import os", "cursor.execute": "", "exec": "", "eval": ""}
    for k, v in extra.items():
        out.setdefault(k, v)
    return out


STATEMENTS = [
    # bytes literals whose backslashes do not form complete escapes once un-escaped (seeded change C06-m12 ran Bytes literals through
    # utils.escaped_bytes_representation, which decodes with unicode_escape)
    "p = b'\\\\'", "p = b'C:\\\\Users\\\\me'", "open(b'/tmp/\\\\x')", "q = [b'\\\\u', b'\\\\N{', b'share\\\\']", "password = b'\\\\'", "f(token=b'a\\\\')", "def g(p=b'/tmp/\\\\'): pass",
    "def f(a, password='x', *, token='y', **kw): pass", "def f(a=ssl.PROTOCOL_SSLv3, b=PROTOCOL_SSLv2, /, c=x.y.z): pass", "async def g(password='x'): pass",
    "def f(*, password='x'): pass", "def f(password=None, secret=b'x'): pass", "lambda password='x': 0",
    "try:\n    pass\nexcept:\n    pass", "try:\n    pass\nexcept (A, B):\n    continue_ = 1", "for i in x:\n    try:\n        pass\n    except a.b:\n        continue",
    "try:\n    pass\nexcept* ValueError:\n    pass", "assert x, 'msg'", "assert (yield)", "d['password'] = 'x'", "d['password']: str = 'x'", "d[k]['token'] += 'x'", "x = d['secret']",
    "if password == 'x' == y: pass", "if 'x' == password: pass", "if obj.token in ('a', 'b'): pass", "password: str = 'x'", "a = b = password = 'x'", "(password, other) = 'x', 'y'",
    "obj.password = f'{x}'", "x = 'SELECT * FROM t WHERE a = ' + a + ' AND b = %s' % b", "x = f'DELETE FROM {t} WHERE x'", "cur.execute('UPDATE t SET a = {}'.format(v))",
    "q = 'insert into t values (%s)' % (v,)", "x = ('select a from b where ' 'c = ' + d)", "s = 'select * from x where y'.replace('y', z)",
    "match cmd:\n    case 'password':\n        pass\n    case {'token': 'x'}:\n        pass", "with open('/tmp/x') as f, open(p) as g: pass", "x = [s for s in '0.0.0.0']",
    "class K:\n    password = 'x'\n    def m(self, token='t'): return mark_safe(self.password)", "global_ = '/tmp/' 'concat'", "del d['password']", "x = y if 'password' else 'token'",
    "mark_safe(x)", "x = 'a'\nmark_safe(x)", "x = y\nx = 'b'\nmark_safe(x)", "x = (\n    x)\nmark_safe(x)", "def f(x):\n    x = 'lit'\n    return mark_safe(x)",
    "for x in ['a']:\n    mark_safe(x)", "x, y = 'a', b\nmark_safe(y)", "mark_safe('%s' % x)", "mark_safe('{}'.format(x))", "mark_safe(x + 'a')", "mark_safe(f'{x}')",
    # unpacking assignments whose target and value lists differ in length / nest / star (seeded change C06-m3: B105 indexed target.elts by the string's position)
    "method, *rest = 'GET', '/index.html', 'HTTP/1.1'", "first, *middle, last = 'a', 'b', 'c', 'd'", "[scheme, *location] = 'http', 'host', 'path'", "*rest, password = 'x', 'y', 'pw'",
    "password, *rest = 'pw', 'x', 'y'", "a, b = 'x', 'y', 'z'", "(a, password), c = ('p', 'q'), 'r'", "user, password = 'admin', 'hunter2'", "user, password = creds = 'admin', 'hunter2'",
    "o.password, d['token'] = 'a', 'b'", "for password, *r in [('a', 'b', 'c')]: pass", "password, = 'x',", "a = b, password = 'x', 'y'",
    "__import__('pickle')", "__import__(name)", "import importlib\nimportlib.import_module('telnetlib')", "import importlib\nimportlib.import_module(n, package='p')",
    "import importlib\nimportlib.__import__('xml.sax')", "__import__()", "import importlib\nimportlib.import_module()",
    "tar.extractall(**{'path': dest, 'members': wanted})", "tar.extractall('.', **{'members': safe(tar)})", "tarfile.open(n).extractall(**{'filter': 'data'})",
    "subprocess.Popen(**{'args': cmd, 'shell': True})", "requests.get(url, **{'verify': False, 'timeout': None})", "yaml.load(s, **{'Loader': yaml.SafeLoader})",
    "while True:\n    x = 'a'\n    mark_safe(x)\n    x = b", "with a as x:\n    mark_safe(x)", "x: str\nmark_safe(x)", "x = ''.join(l)\nmark_safe(x)", "mark_safe()", "mark_safe(*a)", "mark_safe(s=x)",
]


def _run_main(res, ctx):
    rng = C.rng_for(res.seed, "C06")
    thorough = res.tier == "thorough"
    callees = harvest_callees()
    res.rule = ("crash monitor: every callee spelling occurring in bandit's examples + every blacklist qualified name + the names the plugins key on (%d callees) x argument-shape grammar "
                "(0-3 positionals from %d shapes incl. starred, set displays with unhashable elements, walrus, lambdas; 0-2 keywords from %d keyed names with values from the same shapes; "
                "**dict / **\"x\" / **f()) + %d statement shapes (defaults, handlers, string positions, SQL constructions, mark_safe data flows); quick: seeded sample per callee, thorough: "
                "more per callee; + grammar-directed programs (harness/pygen.py: every statement, target and expression kind of the language around the names/calls the checks key on) "
                "+ B703 data-flow programs with loop/with/handler targets of every kind; every program is valid Python; a logged 'internal error', an escaped exception or a file demoted to 'skipped' is a violation; the Lean model's predicted "
                "crashes are compared with the real ones; non-trivial = distinct program") % (len(callees), len(POS_SHAPES), len(KEYWORDS), len(STATEMENTS))
    progs = []
    per = 14 if thorough else 4

    def mk_call(callee):
        npos = rng.choice([0, 0, 1, 1, 2, 3])
        pos = [rng.choice(POS_SHAPES) for _ in range(npos)]
        # starred must come in a sensible place but Python allows it anywhere among positionals
        nkw = rng.choice([0, 0, 1, 1, 2])
        kws = []
        for k in rng.sample(KEYWORDS, nkw):
            v = rng.choice([s for s in POS_SHAPES if not s.startswith("*") and s != "x := 3"])
            kws.append(f"{k}={v}")
        if rng.random() < 0.25:
            kws.append(rng.choice(KW_SPECIAL))
        elif rng.random() < 0.3:
            # a literal mapping unpacked in the call, naming the very keywords the checks look for (seeded change C06-m4: call_keywords learnt to expand
            # `**{...}` while B202 still re-scanned node.keywords for `members`)
            ks = rng.sample(KEYWORDS, rng.choice([1, 2]))
            kws.append("**{" + ", ".join("'%s': %s" % (k, rng.choice([x for x in POS_SHAPES if not x.startswith("*") and x != "x := 3"])) for k in ks) + "}")
        args = [("(x := 3)" if a == "x := 3" else a) for a in pos] + kws
        return f"{callee}({', '.join(args)})"

    for callee, pre in sorted(callees.items()):
        for _ in range(per):
            body = mk_call(callee)
            wrap = rng.choice(["{c}", "r = {c}", "print({c})", "def w():\n    return {c}", "class W:\n    v = {c}", "x = [{c} for _ in y]", "@{c}\ndef d(): pass"])
            src = (pre + "\n" if pre else "") + wrap.format(c=body) + "\n"
            progs.append((src, callee))
    for st in STATEMENTS:
        progs.append(("import ssl, tarfile, subprocess, requests, yaml\nfrom django.utils.safestring import mark_safe\n" + st + "\n", "stmt"))
    # grammar-directed programs: every statement / target / expression kind around the names and calls the checks key on
    import pygen
    gp = pygen.programs(rng, 900 if thorough else 220)
    res.extra["grammar_node_kinds"] = len(pygen.node_kinds(gp))
    for src in gp:
        progs.append((src, "grammar"))
    # data-flow programs for the assignment walker of B703 (loop / with / handler targets of every kind)
    from props import c17 as C17
    for c in C17.gen_xss_fuzz(rng, 500 if thorough else 150):
        progs.append((c.src, "xss-flow"))
    # keep only valid Python (the grammar can produce e.g. positional after **): invalid ones are not this property's business
    valid = []
    for src, tag in progs:
        try:
            ast.parse(src)
            valid.append((src, tag))
        except SyntaxError:
            res.count("generated-invalid-dropped")
    seen = {}
    for src, tag in valid:
        seen.setdefault(src, tag)
    valid = list(seen.items())
    known = C.runner_known("C06") if hasattr(C, "runner_known") else {}
    scratch = C.Scratch()
    d = C.Driver() if ctx["driver_ok"] else None
    try:
        B = 400
        for off in range(0, len(valid), B):
            chunk = valid[off:off + B]
            sources = [s.encode() for s, _ in chunk]
            try:
                real = C.batch_real_scan(scratch, sources)
            except BaseException as e:     # an exception escaping the whole scan
                res.violation("an exception escaped the scan of valid Python files", {"exception": type(e).__name__, "programs": [s for s, _ in chunk][:50]})
                continue
            model = d.ask_many([C.scan_request(s) for s in sources]) if d is not None else None
            for i, (src, tag) in enumerate(chunk):
                r = real[i]
                res.case(src, True, sample={"program": src, "internal_errors": r["errors"], "skipped": r["skipped"]} if (off + i) % 499 == 0 else None)
                res.count("callee-kind:" + (tag if tag in ("stmt", "grammar", "xss-flow") else "call"))
                if r["errors"] or r["skipped"]:
                    res.violation("a check raised on a syntactically valid file (internal error logged / file skipped)",
                                  {"program": src, "crashed_checks": r["errors"], "skipped": r["skipped"]})
                if model is not None:
                    if "error" in model[i]:
                        res.break_("driver-error", model[i]["error"])
                    elif model[i].get("shape_ok") is False or model[i].get("config_ok") is False:
                        # Props.C06.scan_no_crash assumes TreeShapeOK (facts CPython gives every parsed module) and configOK (the generated defaults)
                        res.break_("hypothesis-of-scan_no_crash-false-on-a-real-input", {"program": src, "shape_ok": model[i].get("shape_ok"), "config_ok": model[i].get("config_ok")})
                    elif tag in ("grammar", "xss-flow"):
                        # full correspondence (findings, locations, crashes) of the whole model on grammar-directed programs
                        diff = C.compare_scan({"findings": r["findings"], "errors": C.crashed_tests(r["errors"])}, model[i], C.blacklist_ids())
                        res.count("full-correspondence-programs")
                        res.extra["full_correspondence_findings"] = res.extra.get("full_correspondence_findings", 0) + len(r["findings"])
                        if diff:
                            res.break_("correspondence:grammar", {"program": src, "diff": diff})
                    elif model[i].get("crashes"):
                        # the model predicts a crash the implementation does not have (or vice versa): correspondence
                        diff = C.compare_scan(r, model[i], C.blacklist_ids())
                        if diff and ("real_crashes" in diff):
                            res.break_("correspondence:crashes", {"program": src, "diff": diff})
        # ---- selections: the same programs under profiles that keep only call-blacklist ids, only import-blacklist ids, only plugins (seeded change C06-m6
        #      indexed the Import table unconditionally: KeyError on every dynamic import when no import id is selected)
        dyn = [(s, t) for s, t in valid if ("__import__" in s or "import_module" in s or "importlib" in s)][:150] + valid[:150]
        for prof in ({"include": {"B301", "B307", "B602"}, "exclude": set()}, {"include": {"B403", "B404"}, "exclude": set()}, {"include": {"B101", "B608"}, "exclude": set()},
                     {"include": set(), "exclude": {"B001"}}, {"include": {"B001"}, "exclude": {"B301"}}):
            try:
                realp = C.batch_real_scan(scratch, [s.encode() for s, _ in dyn], profile=prof)
            except BaseException as e:
                res.violation("an exception escaped the scan of valid Python files under a selection", {"exception": type(e).__name__, "profile": {k: sorted(v) for k, v in prof.items()}})
                continue
            for (src, tag), r in zip(dyn, realp):
                res.case(("sel", tuple(sorted(prof["include"])), tuple(sorted(prof["exclude"])), src), True)
                res.count("under-selection")
                if r["errors"] or r["skipped"]:
                    res.violation("a check raised on a syntactically valid file (internal error logged / file skipped)",
                                  {"program": src, "crashed_checks": r["errors"], "skipped": r["skipped"], "profile": {k: sorted(v) for k, v in prof.items()}})
        # ---- depth: programs whose size drives the recursion of a check beyond CPython's recursion limit (the model has no such limit:
        #      Props.C06.b703_total shows its budget always suffices).  A RecursionError inside a check is the listed known finding
        #      C06-recursion-limit; any other internal error on these programs is a violation.
        deep = [("b608-concat-%d" % n, "q = 'SELECT * FROM t WHERE a = ' + " + " + ".join("v%d" % i for i in range(n)) + "\n", n) for n in (60, 600)] + \
               [("b202-members-%d" % n, "import tarfile\nt = tarfile.open(n)\nt.extractall(dest, members=" + " + ".join("p%d" % i for i in range(n)) + ")\n", n) for n in (60, 600)] + \
               [("b703-alias-chain-%d" % n, "from django.utils.safestring import mark_safe\nx0 = ''\n" + "".join("x%d = x%d\n" % (i + 1, i) for i in range(n)) + "mark_safe(x%d)\n" % n, n)
                for n in (60, 1200)]
        for label, src, n in deep:
            try:
                r = C.real_scan(scratch.fresh("deep.py", src.encode()))
            except BaseException as e:
                res.violation("an exception escaped the scan of a valid Python file", {"exception": type(e).__name__, "program_head": src[:200], "size": n})
                continue
            res.case(("deep", label), True)
            res.count("deep:" + label.rsplit("-", 1)[0])
            rec = [e for e in r["errors"] if "maximum recursion depth exceeded" in e]
            other = [e for e in r["errors"] if e not in rec]
            if other or r["skipped"] or (rec and n < 400):
                res.violation("a check raised on a syntactically valid file (internal error logged / file skipped)",
                              {"program_head": src[:300], "size": n, "crashed_checks": r["errors"], "skipped": r["skipped"]})
            elif rec:
                res.known_finding("C06-recursion-limit")
        # ---- corpus: every parsable .py file of /repo through the full model (all plugins) and real bandit
        files = sorted(glob.glob(os.path.join(C.REPO, "examples", "*.py")))
        if thorough:
            files += sorted(glob.glob(os.path.join(C.REPO, "bandit", "**", "*.py"), recursive=True)) + sorted(glob.glob(os.path.join(C.REPO, "tests", "**", "*.py"), recursive=True))
        n_corpus = 0
        for f in files:
            data = open(f, "rb").read()
            try:
                req = C.scan_request(data, fname=f)
            except SyntaxError:
                continue
            r = C.real_scan(f)
            n_corpus += 1
            res.case(("corpus", f), bool(r["findings"]))
            if r["errors"] or r["skipped"]:
                res.violation("a check raised on a file of bandit's own repository", {"file": f, "errors": r["errors"][:3], "skipped": r["skipped"]})
            if d is not None:
                m = d.ask(req)
                if "error" in m:
                    res.break_("driver-error", m["error"])
                elif m.get("shape_ok") is False or m.get("config_ok") is False:
                    res.break_("hypothesis-of-scan_no_crash-false-on-a-real-input", {"file": f, "shape_ok": m.get("shape_ok"), "config_ok": m.get("config_ok")})
                else:
                    rr = {"findings": r["findings"], "errors": C.crashed_tests(r["errors"])}
                    diff = C.compare_scan(rr, m, C.blacklist_ids())
                    if diff:
                        res.break_("correspondence:corpus", {"file": f, "diff": diff})
        res.extra["corpus_files"] = n_corpus
    finally:
        scratch.close()
        if d is not None:
            d.close()
    res.extra["programs"] = len(valid)
    res.extra["callees"] = len(callees)


def run(res, ctx):
    _run_main(res, ctx)
    # the neighbourhood of every construct of bandit's example files (harness/metamorph.py): model vs implementation on this family's ids
    metamorph.family(res, ctx, C, None, 1000, 8000, crash_oracle=True, sweep=True)
