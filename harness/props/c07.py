"""C07 — a baseline withholds only what it accounts for.

Histories  scan -> JSON report -> edit -> scan with the report as baseline, on real bandit:

* states: every multiset of <= 3 finding-producing statements over 2 files x K statement kinds
  (each kind yields one finding of a distinct identity; one kind carries a unicode literal that is
  quoted in the message; two kinds differ in the confidence only) -- enumerated exhaustively;
* the *before* state is scanned through the real CLI (`-f json -o report`), the *after* state (every
  state, in 3 layouts: as is / blank lines inserted above / reversed and spaced) is scanned and
  filtered (a) through `BanditManager.populate_baseline` + `get_issue_list`/`results_count` for EVERY
  (before, after) pair x thresholds, and (b) through the CLI `-b report -f FMT` for every
  single-edit history (add / remove / duplicate / move / unchanged; thorough: every pair) x the
  baseline-capable formats, parsed back;
* reports edited field by field (every identity field, every non-identity field of every entry)
  stand for baselines written by another run/version.

Every observed outcome is compared with (1) the Lean model `Bandit.Baseline.filterResults` (driver op
`baseline_filter`, both readings of `_compare_baseline_results`; the reading the implementation
follows is detected by replaying the kernel-checked witness `NEG_duplicate_not_reported`), and
(2) the multiset spec (Python oracle here, `Spec.expected` in Lean; the two must agree)."""
import collections, itertools, json, linecache, os, re, shutil, subprocess, sys, tempfile

import common as C

LEVEL = "proof"
FID = "C07-baseline-multiplicity"

STMT = {
    "pw": 'password = "s3cr3t"',
    "pwu": 'password = "päss☃\U0001d11e<b>&amp;\'q"',
    "sqll": "q = \"SELECT * FROM t WHERE id = '%s'\" % x",
    "sqlm": "cur.execute(\"SELECT * FROM t WHERE id = '%s'\" % x)",
    "eval": "eval(x)",
    "md5": "hashlib.md5(x)",
}
KINDS = {"quick": ["pw", "pwu", "sqll"], "thorough": ["pw", "pwu", "sqll", "sqlm"]}
CLI_KINDS = ["pw", "pwu", "sqll"]
FILES = ["f0.py", "f1.py"]
RANK = {"UNDEFINED": 0, "LOW": 1, "MEDIUM": 2, "HIGH": 3}
THR = {"quick": [("LOW", "LOW"), ("MEDIUM", "LOW"), ("LOW", "MEDIUM"), ("LOW", "HIGH")],
       "thorough": [(s, c) for s in ("LOW", "MEDIUM", "HIGH") for c in ("LOW", "MEDIUM", "HIGH")] + [("UNDEFINED", "UNDEFINED")]}
CLI_THR = [("UNDEFINED", "UNDEFINED"), ("LOW", "LOW"), ("MEDIUM", "UNDEFINED"), ("UNDEFINED", "MEDIUM"), ("LOW", "HIGH"), ("MEDIUM", "LOW")]
SEV_FLAG = {"UNDEFINED": [], "LOW": ["-l"], "MEDIUM": ["-ll"], "HIGH": ["-lll"]}
CONF_FLAG = {"UNDEFINED": [], "LOW": ["-i"], "MEDIUM": ["-ii"], "HIGH": ["-iii"]}
CUSTOM_TMPL = "{abspath}|{line}|{col}|{test_id}|{severity}|{confidence}|{msg}"
DIRTOKEN = "@DIR@"


# ----------------------------------------------------------------------------- states and programs
def all_states(kinds, nfiles=2, maxn=3):
    idents = [(f, k) for f in range(nfiles) for k in range(len(kinds))]
    out = []
    for n in range(maxn + 1):
        out += list(itertools.combinations_with_replacement(idents, n))
    return out


def render(state, layout, kinds):
    """state -> {file name: source text}.  layout 0: one statement per line; 1: the same below three
    inserted lines; 2: reversed order, blank lines between (line numbers and order change, identities do not)."""
    out = {}
    for f, name in enumerate(FILES):
        st = [STMT[kinds[k]] for (ff, k) in state if ff == f]
        # occurrences of one identity are NOT adjacent when another statement can stand between them (states are sorted multisets; seeded change C07-m18 bucketed
        # the findings with itertools.groupby, which only groups adjacent ones: the candidates of an identity were incomplete when another test's finding lay between)
        if len(st) == 3 and st[0] == st[1] != st[2]:
            st = [st[0], st[2], st[1]]
        elif len(st) == 3 and st[1] == st[2] != st[0]:
            st = [st[1], st[0], st[2]]
        if not st:
            body = "x = 1\n"
        elif layout == 0:
            body = "".join(s + "\n" for s in st)
        elif layout == 1:
            body = "\n# moved\n\n" + "".join(s + "\n" for s in st)
        else:
            body = "x = 1\n\n" + "\n\n".join(reversed(st)) + "\n"
        out[name] = body
    return out


def edit_class(S, T, layout):
    cs, ct = collections.Counter(S), collections.Counter(T)
    if cs == ct:
        return "unchanged" if layout == 0 else "move"
    plus, minus = ct - cs, cs - ct
    if sum(plus.values()) == 1 and not minus:
        x = next(iter(plus))
        return "duplicate" if cs[x] else "add"
    if sum(minus.values()) == 1 and not plus:
        return "remove"
    return "mixed"


def is_neighbor(S, T):
    cs, ct = collections.Counter(S), collections.Counter(T)
    return sum(((cs - ct) + (ct - cs)).values()) <= 1


# ----------------------------------------------------------------------------- records
Rec = collections.namedtuple("Rec", "text severity cwe confidence fname test test_id lineno linerange col end_col")


def rec_of_issue(i):
    return Rec(i.text, i.severity, int(i.cwe.id), i.confidence, i.fname, i.test, i.test_id, i.lineno,
               tuple(i.linerange), i.col_offset, i.end_col_offset)


def rec_ident(r):
    return (r.fname, r.test, r.test_id, r.text, r.severity, r.confidence, r.cwe)


def entry_ident(e):
    """identity of one entry of a JSON report, read from the documented report format"""
    cwe = e.get("issue_cwe") or {}
    cid = int(cwe["id"]) if isinstance(cwe, dict) and "id" in cwe else 0
    return (e.get("filename"), e.get("test_name"), e.get("test_id"), e.get("issue_text"),
            e.get("issue_severity"), e.get("issue_confidence"), cid)


def enc(s):
    return s if isinstance(s, str) and s.isascii() else [ord(c) for c in s]


def rec_json(r):
    return {"text": enc(r.text), "severity": r.severity, "cwe": r.cwe, "confidence": r.confidence, "fname": enc(r.fname),
            "test": enc(r.test), "test_id": enc(r.test_id), "lineno": r.lineno, "linerange": list(r.linerange),
            "col": r.col, "end_col": r.end_col}


def entry_json(e):
    out = {}
    for k, v in e.items():
        if k in ("filename", "test_name", "test_id", "issue_severity", "issue_confidence", "issue_text", "code"):
            out[k] = enc(v)
        elif k == "issue_cwe":
            out[k] = {kk: (enc(vv) if isinstance(vv, str) and kk != "id" else vv) for kk, vv in v.items()}
        elif k in ("line_number", "line_range", "col_offset", "end_col_offset"):
            out[k] = v
    return out


class Baseline:
    """one baseline report: its text (with the scratch dir abstracted for replays) and parsed entries"""
    def __init__(self, label, text):
        self.label = label
        self.text = text
        try:
            self.entries = json.loads(text)["results"]
        except Exception:
            self.entries = None
        self.lean = json.dumps(None if self.entries is None else [entry_json(e) for e in self.entries])
        self.idents = collections.Counter(entry_ident(e) for e in (self.entries or []))


# ----------------------------------------------------------------------------- spec oracle
def passes(r, sev, conf):
    return RANK[r.severity] >= RANK[sev] and RANK[r.confidence] >= RANK[conf]


def spec_expected(recs, base, sev, conf):
    """(entries, region, plain): what property C07 demands.  entries = [[i, [all current occurrences]]] for every
    current finding i (passing the thresholds) whose identity occurs more often now than in the baseline."""
    rs = [i for i, r in enumerate(recs) if passes(r, sev, conf)]
    cr = collections.Counter(rec_ident(recs[i]) for i in rs)
    cb = base.idents
    entries, region = [], []
    for i in rs:
        d = rec_ident(recs[i])
        if cr[d] > cb.get(d, 0):
            entries.append([i, [j for j in rs if rec_ident(recs[j]) == d]])
            if cb.get(d, 0) >= 1:
                region.append(i)
    return entries, region, not base.entries


def judge(impl_entries, exp_entries, plain):
    """None if the implementation's report is the demanded one, else a list of (what, detail)."""
    ik = [e[0] for e in impl_entries]
    ek = [e[0] for e in exp_entries]
    bad = []
    missing = [k for k in ek if k not in ik]
    extra = [k for k in ik if k not in ek]
    if missing:
        bad.append(("withheld", missing))
    if extra:
        bad.append(("reappeared", extra))
    if len(set(ik)) != len(ik):
        bad.append(("duplicate-entry", ik))
    if not plain:
        ec = {e[0]: e[1] for e in exp_entries}
        for k, cs in impl_entries:
            if k in ec and sorted(cs) != sorted(ec[k]):
                bad.append(("candidates", [k, cs, ec[k]]))
    return bad or None


WHAT = {"withheld": "a current finding is withheld although the baseline does not account for it (identity absent from, or less frequent in, the baseline)",
        "reappeared": "a finding the baseline accounts for is reported (an old finding reappears)",
        "duplicate-entry": "a finding is listed twice",
        "candidates": "a reported finding does not carry all current occurrences of its identity as candidates",
        "exit": "exit status does not follow the reported set"}


# ----------------------------------------------------------------------------- real bandit
class World:
    def __init__(self):
        self.dir = tempfile.mkdtemp(prefix="bverif_c07_")
        self.paths = [os.path.join(self.dir, n) for n in FILES]
        self.rep = os.path.join(self.dir, "baseline.json")

    def write(self, files):
        for n in FILES:
            with open(os.path.join(self.dir, n), "w", encoding="utf-8") as f:
                f.write(files[n])
        linecache.clearcache()

    def abstract(self, text):
        return text.replace(self.dir, DIRTOKEN)

    def concrete(self, text):
        return text.replace(DIRTOKEN, self.dir)

    def scan_report(self, sev="UNDEFINED", conf="UNDEFINED"):
        """the real CLI: bandit -f json -o report f0.py f1.py  ->  report text"""
        out = os.path.join(self.dir, "report.json")
        if os.path.exists(out):
            os.unlink(out)
        r = C.run_cli(["-f", "json", "-o", out] + SEV_FLAG[sev] + CONF_FLAG[conf] + self.paths)
        if r["exc"] or not os.path.exists(out):
            raise RuntimeError("baseline scan failed: %r" % (r,))
        with open(out, encoding="utf-8") as f:
            return f.read()

    def scan_manager(self):
        from bandit.core import config as b_config, manager as b_manager
        linecache.clearcache()
        conf = b_config.BanditConfig()
        mgr = b_manager.BanditManager(conf, "file")
        mgr.discover_files(self.paths)
        mgr.run_tests()
        return mgr

    def close(self):
        shutil.rmtree(self.dir, ignore_errors=True)


def impl_outcome(mgr, idx, sev, conf):
    out = mgr.get_issue_list(sev_level=sev, conf_level=conf)
    if isinstance(out, list):
        return "plain", [[idx[id(i)], []] for i in out]
    return "cands", [[idx[id(k)], [idx[id(c)] for c in v]] for k, v in out.items()]


# ----------------------------------------------------------------------------- report parsers (CLI level)
ANSI = re.compile(r"\x1b\[[0-9;]*m")


def parse_json(out):
    res = []
    for e in json.loads(out)["results"]:
        cands = [(c["line_number"], c["col_offset"]) for c in e.get("candidates", [])]
        res.append((e["filename"], e["test_id"], e["line_number"], e["col_offset"], e["issue_text"], e["issue_severity"],
                    e["issue_confidence"], (e.get("issue_cwe") or {}).get("id", 0), cands))
    return res


def view_json(recs, kind, entries):
    res = []
    for k, cs in entries:
        r = recs[k]
        cands = [(recs[c].lineno, recs[c].col) for c in cs] if (len(cs) > 1 and kind != "plain") else []
        res.append((r.fname, r.test_id, r.lineno, r.col, r.text, r.severity, r.confidence, r.cwe, cands))
    return sorted(res, key=lambda t: t[0])        # formatter: stable sort by filename


def parse_custom(out):
    res = []
    for line in out.splitlines():
        if not line.strip():
            continue
        p = line.split("|", 6)
        res.append((p[0], int(p[1]), int(p[2]), p[3], p[4], p[5], p[6]))
    return res


def view_custom(recs, kind, entries):
    return [(os.path.abspath(recs[k].fname), recs[k].lineno, recs[k].col, recs[k].test_id, recs[k].severity,
             recs[k].confidence, recs[k].text) for k, _ in entries]


KEY_RE = re.compile(r"^( *)>> Issue: \[([^:\]]+):([^\]]+)\] (.*)$")
LOC_RE = re.compile(r"^( *)Location: (.*):(-?\d*):(-?\d*)$")


def parse_txt(out):
    out = ANSI.sub("", out)
    res, cur = [], None
    for line in out.splitlines():
        m = KEY_RE.match(line)
        if m:
            ind = len(m.group(1))
            item = {"test_id": m.group(2), "test": m.group(3), "text": m.group(4), "loc": None, "cands": []}
            if ind == 0:
                cur = item
                res.append(item)
                tgt = item
            elif cur is not None:
                cur["cands"].append(item)
            tgt = item
            continue
        m = LOC_RE.match(line)
        if m and res:
            ln = int(m.group(3)) if m.group(3) else None
            col = int(m.group(4)) if m.group(4) else None
            tgt["loc"] = (m.group(2), ln, col)
    return [(i["test_id"], i["test"], i["text"], i["loc"], [c["loc"] for c in i["cands"]]) for i in res]


def view_txt(recs, kind, entries):
    res = []
    for k, cs in entries:
        r = recs[k]
        if kind == "plain" or len(cs) == 1:
            res.append((r.test_id, r.test, r.text, (r.fname, r.lineno, r.col), []))
        else:
            res.append((r.test_id, r.test, r.text, (r.fname, None, None), [(recs[c].fname, recs[c].lineno, recs[c].col) for c in cs]))
    return res


def parse_html(out):
    res = []
    for blk in out.split('<div id="issue-')[1:]:
        tid = re.search(r"<b>Test ID:</b> (\S+?)<br>", blk)
        ln = re.search(r"<b>Line number: </b>(-?\d+)<br>", blk)
        fn = re.search(r'<b>File: </b><a href="(.*?)" target', blk)
        res.append((tid.group(1) if tid else None, fn.group(1) if fn else None, int(ln.group(1)) if ln else None,
                    blk.count('<div class="candidate">')))
    return res


def view_html(recs, kind, entries):
    return [(recs[k].test_id, recs[k].fname, recs[k].lineno, len(cs) if (kind != "plain" and len(cs) != 1) else 0) for k, cs in entries]


PARSE = {"json": (parse_json, view_json), "custom": (parse_custom, view_custom), "txt": (parse_txt, view_txt),
         "screen": (parse_txt, view_txt), "html": (parse_html, view_html)}


def baseline_formats():
    from bandit.core import extension_loader
    return sorted(f.name for f in extension_loader.MANAGER.formatters if hasattr(f.plugin, "_accepts_baseline"))


_carrier = [0]


def run_cli_baseline(world, fmt, sev, conf, exit_zero=False):
    # the baseline reaches the run through -b, or (every third call) through the `baseline` option of an INI file given with --ini: the same option by another
    # carrier (seeded change C07-m16 decided "is there a baseline?" before the INI options were merged: an INI-supplied baseline was resolved but never loaded)
    _carrier[0] += 1
    if _carrier[0] % 3 == 0:
        ini = world.rep + ".ini"
        with open(ini, "w") as fh:
            fh.write("[bandit]\nbaseline = %s\n" % world.rep)
        how = ["--ini", ini]
    else:
        how = ["-b", world.rep]
    argv = ["-f", fmt] + how + SEV_FLAG[sev] + CONF_FLAG[conf] + (["--exit-zero"] if exit_zero else [])
    if fmt == "custom":
        argv += ["--msg-template", CUSTOM_TMPL]
    return C.run_cli(argv + world.paths)


# ----------------------------------------------------------------------------- baseline edits
def report_edits(text):
    """(label, kind, edited text) for every entry x field of a JSON report.  kind: 'identity' edits change the
    identity of that entry, 'neutral' ones must not matter."""
    try:
        data = json.loads(text)
        n = len(data["results"])
    except Exception:
        return []
    out = []

    def emit(label, kind, fn, whole=False):
        for k in ([0] if whole else range(n)):
            d = json.loads(text)
            fn(d["results"] if whole else d["results"][k])
            out.append((f"{label}@{k}", kind, json.dumps(d, sort_keys=True)))

    def other(v):
        return "MEDIUM" if v == "LOW" else "LOW"
    emit("filename", "identity", lambda e: e.__setitem__("filename", e["filename"] + "x"))
    emit("test_name", "identity", lambda e: e.__setitem__("test_name", "other_test"))
    emit("test_id", "identity", lambda e: e.__setitem__("test_id", "B999"))
    emit("issue_text", "identity", lambda e: e.__setitem__("issue_text", e["issue_text"] + "!"))
    emit("issue_severity", "identity", lambda e: e.__setitem__("issue_severity", other(e["issue_severity"])))
    emit("issue_confidence", "identity", lambda e: e.__setitem__("issue_confidence", other(e["issue_confidence"])))
    emit("cwe_id", "identity", lambda e: e.__setitem__("issue_cwe", {"id": int(e["issue_cwe"].get("id", 0)) + 1, "link": "x"}))
    emit("cwe_empty", "identity", lambda e: e.__setitem__("issue_cwe", {}))
    emit("lines", "neutral", lambda e: (e.__setitem__("line_number", e["line_number"] + 7), e.__setitem__("line_range", [e["line_number"], e["line_number"] + 1])))
    emit("cols", "neutral", lambda e: (e.__setitem__("col_offset", e["col_offset"] + 3), e.__setitem__("end_col_offset", 0)))
    emit("no_cols", "neutral", lambda e: (e.pop("col_offset", None), e.pop("end_col_offset", None)))
    emit("code", "neutral", lambda e: e.__setitem__("code", ""))
    emit("more_info", "neutral", lambda e: e.pop("more_info", None))
    emit("cwe_id_str", "neutral", lambda e: e["issue_cwe"].__setitem__("id", str(e["issue_cwe"]["id"])) if "id" in e["issue_cwe"] else None)
    if n > 1:
        emit("reversed", "neutral", lambda rs: rs.reverse(), whole=True)
    return out


# ----------------------------------------------------------------------------- Lean
def ask_lean(drv, recs, baselines, thr, exit_zero=False):
    req = ('{"op":"baseline_filter","results":%s,"baselines":[%s],"thresholds":%s,"exit_zero":%s}'
           % (json.dumps([rec_json(r) for r in recs]), ",".join(b.lean for b in baselines), json.dumps([list(t) for t in thr]),
              "true" if exit_zero else "false"))
    drv.p.stdin.write(req + "\n")
    drv.p.stdin.flush()
    line = drv.p.stdout.readline()
    if not line:
        raise RuntimeError("driver died")
    drv.n += 1
    return json.loads(line)


# ----------------------------------------------------------------------------- the check
def brk(res, kind, detail):
    """record a broken tie (the first 25 in full, the rest only counted)"""
    res.count("broken:" + kind)
    if len(res.broken) < 25:
        res.break_(kind, detail)


class Checker:
    def __init__(self, res, ctx, world):
        self.res, self.ctx, self.world = res, ctx, world
        self.drv = C.Driver() if ctx.get("driver_ok") else None
        self.variant = None
        self.model_variant = None
        self.nviol = 0

    def close(self):
        if self.drv:
            self.drv.close()

    def replay_dict(self, level, files, base, sev, conf, **kw):
        d = {"level": level, "files": files, "baseline_label": str(base.label), "baseline_report": self.world.abstract(base.text),
             "severity_threshold": sev, "confidence_threshold": conf,
             "how": "write the files into a directory D, replace %s in baseline_report by D, run `bandit -b report [-f FMT] D/f0.py D/f1.py` "
                    "(level=manager: BanditManager.populate_baseline(report) + get_issue_list(sev, conf))" % DIRTOKEN}
        d.update(kw)
        return d

    def verdict(self, level, key, recs, base, sev, conf, kind, impl_entries, model, files, extra=None, view_eq=None):
        """compare one observed outcome with model and spec.  `model` = the driver's answer for (base, thr) or None."""
        res = self.res
        exp, region, plain = spec_expected(recs, base, sev, conf)
        bad = judge(impl_entries, exp, plain)
        m_ok = None
        if model is not None:
            mv = model.get(self.variant or "membership", {})
            if view_eq is None:
                m_ok = (mv.get("kind") == kind and mv.get("entries") == impl_entries)
            else:
                m_ok = view_eq(mv.get("kind"), mv.get("entries") or [])
            if model.get("spec") != exp or sorted(model.get("region") or []) != sorted(region):
                brk(res, "spec-oracle", {"case": key, "lean_spec": model.get("spec"), "python_spec": exp, "lean_region": model.get("region"), "python_region": region})
            if not m_ok:
                brk(res, "correspondence", {"case": key, "level": level, "impl": [kind, impl_entries], "model": mv,
                                              "replay": self.replay_dict(level, files, base, sev, conf, **(extra or {}))})
                res.count("correspondence-mismatch")
        if bad:
            only_withheld = all(w == "withheld" for w, _ in bad)
            in_region = only_withheld and all(k in region for _, ks in bad for k in ks)
            if in_region and (m_ok or model is None) and self.variant == "membership":
                res.known_finding(FID)
                res.count("known-region-hit")
            else:
                self.nviol += 1
                if self.nviol <= 40:
                    res.violation("; ".join(WHAT[w] for w, _ in bad),
                                  self.replay_dict(level, files, base, sev, conf, observed={"kind": kind, "entries": impl_entries},
                                                   demanded=exp, findings=[list(r) for r in recs], **(extra or {})))
        return exp, region, bad

    # -- which reading does the implementation follow?  (replay of NEG_duplicate_not_reported)
    def detect_variant(self, kinds):
        w = self.world
        w.write(render(((0, 0),), 0, kinds))
        base = Baseline("witness", w.scan_report())
        w.write(render(((0, 0), (0, 0)), 0, kinds))
        mgr = w.scan_manager()
        idx = {id(i): n for n, i in enumerate(mgr.results)}
        mgr.populate_baseline(base.text)
        kind, ent = impl_outcome(mgr, idx, "LOW", "LOW")
        if kind == "cands" and ent == []:
            self.variant = "membership"
        elif kind == "cands" and sorted(e[0] for e in ent) == [0, 1]:
            self.variant = "counting"
        else:
            self.variant = None
        self.res.extra["witness_replay"] = {"baseline": "one hardcoded-password finding", "now": "the same statement twice",
                                            "implementation_reports": ent, "reading": self.variant}
        return self.variant


def plan_cli(rng, states, T, layout, thorough, fmts, edits_n):
    """which (baseline key, fmt, thr index, exit_zero) CLI runs to do for after-variant (T, layout):
    quick: every single-edit history (layout 0) / pure move (layouts 1, 2) under one rotating format, plus every
    "identity added several times at once" history under every format; thorough: every (before, after) pair under
    two rotating formats and every single-edit / move history under every format."""
    plan = []
    k = rng.randrange(1 << 30)
    near = [si for si, S in enumerate(states) if (S == T if layout else is_neighbor(S, T))]
    for n, si in enumerate(near):
        use = fmts if thorough else [fmts[(k + n) % len(fmts)]]
        for m, fmt in enumerate(use):
            plan.append((("scan", si), fmt, (k + n + m) % len(CLI_THR), (k + n + m) % 11 == 0))
    if thorough and layout == 0:
        for n, si in enumerate(states):
            if n in near:
                continue
            for m in range(2):
                plan.append((("scan", n), fmts[(k + n + m) % len(fmts)], (k + n + m) % len(CLI_THR), (k + n + m) % 11 == 0))
    if layout == 0:
        # an identity added two or three times at once: the only histories that show candidate lists under the
        # unchanged code -- every format, thresholds that let the finding through
        for d in sorted(set(x for x in T if T.count(x) > 1)):
            S = tuple(x for x in T if x != d)
            for m, fmt in enumerate(fmts):
                plan.append((("scan", states.index(S)), fmt, (k + m) % 2, False))
    return plan


def self_baseline_variants(res):
    """self-baseline histories the state enumeration does not reach: the baseline report written with every context size (-n 0 included: the
    seeded change C07-m3 dropped `code` from such a report, which the loader then refused), file-level findings (B613) in files with several
    affected lines, and pure line shifts of such files (seeded change C07-m4 put other line numbers into the message, i.e. into the identity)."""
    d = tempfile.mkdtemp(prefix="bverif_c07b_")
    try:
        progs = {
            "multi.py": "import subprocess\npassword = 'pw'\nsubprocess.Popen('ls',\n    shell=True)\nassert x\n",
            "bidi_one.py": "x = 1\n# note \u202e hidden\ny = 2\n",
            "bidi_two.py": "x = 1\ns = 'a\u2066b'  # first\ny = 2\nz = 3  # \u202e second\nimport pickle\n",
            # message texts that quote source text in a non-normalised form: the report must carry them as they are (seeded change C07-m6 NFC-normalised
            # the serialised text only, so the baseline no longer matched the live finding)
            "nfd.py": "password = 'Cafe\u0301-2024'\ntoken = 'A\u030angstro\u0308m'\nsecret = 'plain'\nkey = {'password': '\u1100\u1161\u11a8'}\n",
            # two findings of ONE identity on ONE line: the baseline lists both, both are accounted for (seeded change C07-m11 de-duplicated baseline entries by
            # (file, test, line))
            "same_line.py": "import pickle\ndef f(a, b):\n    return pickle.loads(a) or pickle.loads(b)\nassert x; assert x\nh = [hashlib.md5(p), hashlib.md5(q), hashlib.md5(r)]\n",
            # a POSIX file name that contains a backslash is just a name (seeded change C07-m12 rewrote `\\` to os.sep when loading a baseline)
            "gen\\models.py": "import pickle\nassert x\n",
            "dir\\sub\\m.py": "exec(c)\n",
        }
        import diffhints
        for hn in diffhints.file_names(C.REPO)[:8]:      # names built from literals of changed lines (none on the recorded tree)
            progs.setdefault(hn, "import pickle\nassert x\n")
        for name, src in progs.items():
            p = os.path.join(d, name)
            for n in ("0", "1", "3", "10"):
                with open(p, "w", encoding="utf-8") as f:
                    f.write(src)
                linecache.clearcache()
                rep = os.path.join(d, "rep_%s_%s.json" % (name, n))
                r0 = C.run_cli(["-f", "json", "-n", n, "-o", rep, p])
                if r0["exc"] or not os.path.exists(rep):
                    res.violation("no baseline report could be written", {"program": src, "context_lines": n, "exit": r0["exit"], "exc": r0["exc"]})
                    continue
                n_found = len(json.load(open(rep, encoding="utf-8"))["results"])
                for shift in (0, 2):
                    with open(p, "w", encoding="utf-8") as f:
                        f.write("# added line\n" * shift + src)
                    linecache.clearcache()
                    r = C.run_cli(["-f", "json", "-b", rep, p])
                    res.case(("self-baseline", name, n, shift), n_found > 0)
                    res.count("self-baseline:n=%s" % n)
                    try:
                        new = json.loads(r["out"])["results"]
                    except Exception:
                        new = None
                    if r["exc"] or new is None or new or r["exit"] != 0:
                        res.violation("a run against its own baseline (same code%s) reports findings or fails" % (", lines shifted" if shift else ""),
                                      {"program": src, "context_lines_of_baseline": n, "inserted_lines_above": shift, "baseline_findings": n_found,
                                       "exit": r["exit"], "exc": r["exc"], "reported": [[x["test_id"], x["line_number"], x["issue_text"]] for x in (new or [])]})
    finally:
        shutil.rmtree(d, ignore_errors=True)


def chained_baselines(res):
    """A report written by a `-b` run is itself used as the next baseline (what a CI job that keeps `latest.json` does).  Such a report nests, under every
    listed finding, the `candidates` it might correspond to; the baseline is what the report LISTS (its `results`), each once (seeded change C07-m9 also
    loaded the nested candidates: an identity listed n times counted n + n*n times, and a third occurrence was withheld).
    Oracle: per step, identity-wise count comparison against the `results` of the previous step's report."""
    d = tempfile.mkdtemp(prefix="bverif_c07c_")
    try:
        p = os.path.join(d, "mod.py")
        chains = [["eval(a)\n", "eval(a)\neval(a)\n", "eval(a)\neval(a)\neval(a)\n", "eval(a)\neval(a)\neval(a)\n", "eval(a)\n"],
                  ["import pickle\n", "import pickle\nassert x\nassert x\n", "import pickle\nassert x\nassert x\nassert x\nexec(c)\n", "assert x\nassert x\nassert x\nassert x\nexec(c)\nexec(c)\n"],
                  ["password = 'pw'\n", "password = 'pw'\nif c:\n    password = 'pw'\n", "password = 'pw'\nif c:\n    password = 'pw'\nelse:\n    password = 'pw'\n    password = 'pw'\n"]]
        for ci, chain in enumerate(chains):
            prev = None        # path of the previous report
            prev_results = []
            for si, src in enumerate(chain):
                with open(p, "w") as f:
                    f.write(src)
                linecache.clearcache()
                rep = os.path.join(d, "rep_%d_%d.json" % (ci, si))
                argv = ["-f", "json", "-o", rep] + (["-b", prev] if prev else []) + [p]
                r = C.run_cli(argv)
                res.case(("chained-baseline", ci, si), si > 0)
                res.count("chained-baseline")
                try:
                    listed = json.load(open(rep))["results"]
                except Exception:
                    res.violation("no report in a chain of baseline runs", {"chain": chain[:si + 1], "step": si, "exit": r["exit"], "exc": r["exc"]})
                    break
                # what is in the file now, found without a baseline
                linecache.clearcache()
                r_all = C.run_cli(["-f", "json", p])
                now = json.loads(r_all["out"])["results"]
                ident = lambda x: (os.path.basename(x["filename"]), x["test_id"], x["issue_text"], x["issue_severity"], x["issue_confidence"])
                cn = collections.Counter(ident(x) for x in now)
                cb = collections.Counter(ident(x) for x in prev_results)
                expect = sorted(ident(x) for x in now if cn[ident(x)] > cb.get(ident(x), 0)) if prev else sorted(ident(x) for x in now)
                got = sorted(ident(x) for x in listed)
                if got != expect or (r["exit"] != (1 if expect else 0)):
                    res.violation("a report written by a -b run, used as the next baseline, withholds findings it does not account for (or reports accounted ones)",
                                  {"chain (versions of one file; each scanned with the previous step's report as baseline)": chain[:si + 1], "step": si,
                                   "previous_report_lists": sorted(cb.items()), "now": sorted(cn.items()), "expected_reported": expect, "reported": got, "exit": r["exit"]})
                prev, prev_results = rep, listed
    finally:
        shutil.rmtree(d, ignore_errors=True)


def cross_process_self_baseline(res):
    """The baseline is written by one process and read by another (that is what a baseline is for): a scan of unchanged code against its own report finds
    nothing new whatever hash seed either interpreter runs under (seeded change C07-m13 built a message from an unordered set: the same finding got two
    different identities in two processes)."""
    import subprocess, sys
    from props import c08
    d = tempfile.mkdtemp(prefix="bverif_c07x_")
    try:
        ex = os.path.join(C.REPO, "examples")
        picked = [f for f in ("snmp.py", "crypto-md5.py", "subprocess_shell.py", "ssl-insecure-version.py", "weak_cryptographic_key_sizes.py", "requests-missing-timeout.py",
                              "hardcoded-passwords.py", "sql_statements.py", "tarfile_extractall.py", "mark_safe_insecure.py") if os.path.exists(os.path.join(ex, f))]
        for f in picked:
            shutil.copy(os.path.join(ex, f), os.path.join(d, f))
        # messages and excerpts with non-ASCII text: the report is written by one process and read by another, possibly under another locale (seeded change C07-m15
        # wrote the JSON report unescaped while the baseline reader still opens it with the locale's preferred encoding: under LC_ALL=C the -b run died)
        with open(os.path.join(d, "nonascii_messages.py"), "w", encoding="utf-8") as fh:
            fh.write("db_password = 'p\u00e4ssw\u00f6rd'  # gepr\u00fcft\ntoken = '\u043a\u043b\u044e\u0447'\nsecret = '\u79d8\u5bc6'\n")
        picked.append("nonascii_messages.py")
        # ... and a message quoting a lone surrogate (an escape in a valid literal): the report holds it escaped, the next scan must still recognise the finding (found
        # on the tree repaired by d2f48f8: the escaped baseline text never equalled the raw text of the fresh finding; repaired by b2b1ee8)
        with open(os.path.join(d, "lone_surrogate.py"), "w") as fh:
            fh.write("password = '\\ud800abc'\ntoken = 'x\\udfffy'\neval('1')\n")
        picked.append("lone_surrogate.py")
        base = os.path.join(d, "base.json")
        rc, so, se = c08.cli_subprocess(["-r", ".", "-f", "json", "-o", base, "-q"], d, 0)
        try:
            n_base = len(json.load(open(base))["results"])
        except Exception:
            res.violation("no baseline report could be written in a subprocess", {"rc": rc, "stderr": se[-300:]})
            return
        os.rename(base, os.path.join(os.path.dirname(d), os.path.basename(d) + ".json"))
        base = os.path.join(os.path.dirname(d), os.path.basename(d) + ".json")
        for seed in (1, 2, 3, 7):
            out = os.path.join(d, "rescan.json")
            rc, so, se = c08.cli_subprocess(["-r", ".", "-f", "json", "-b", base, "-o", out, "-q"], d, seed)
            res.case(("cross-process-self-baseline", seed), n_base > 0)
            res.count("cross-process-self-baseline")
            try:
                new = json.load(open(out))["results"]
                os.remove(out)
            except Exception:
                new = None
            if new is None or new or rc != 0:
                res.violation("unchanged code scanned against its own baseline in another process (another hash seed) reports findings",
                              {"files (copies of bandit's examples)": picked, "baseline_written_under_PYTHONHASHSEED": 0, "rescan_under_PYTHONHASHSEED": seed, "baseline_findings": n_base, "exit": rc,
                               "reported": [[x["test_id"], os.path.basename(x["filename"]), x["line_number"], x["issue_text"][:120]] for x in (new or [])][:8]})
        # the same under another locale: baseline written under the C locale and read under UTF-8, and the reverse
        def cli_env(args, env_extra):
            env = dict(os.environ, PYTHONHASHSEED="0", **env_extra)
            p = subprocess.run([sys.executable, "-c", "import sys; sys.path[:0]=%r; from bandit.cli.main import main; main()" % ([os.environ["PYTHONPATH"].split(os.pathsep)[0], C.REPO],)] + args,
                               cwd=d, env=env, capture_output=True, text=True, errors="replace", timeout=300)
            return p.returncode, p.stdout, p.stderr
        LOCALES = {"C": {"LC_ALL": "C", "LANG": "C", "PYTHONUTF8": "0", "PYTHONCOERCECLOCALE": "0"}, "utf8-mode": {"PYTHONUTF8": "1"}}
        for wl, rl in (("C", "C"), ("utf8-mode", "C"), ("C", "utf8-mode")):
            b2 = os.path.join(os.path.dirname(d), os.path.basename(d) + ".loc.json")
            rcw, _, sew = cli_env(["-r", ".", "-f", "json", "-o", b2, "-q"], LOCALES[wl])
            out = os.path.join(d, "rescan.json")
            if os.path.exists(out):
                os.remove(out)
            rc, so, se = cli_env(["-r", ".", "-f", "json", "-b", b2, "-o", out, "-q"], LOCALES[rl])
            res.case(("cross-process-self-baseline-locale", wl, rl), True)
            res.count("cross-process-self-baseline-locale")
            try:
                new = json.load(open(out, encoding="utf-8"))["results"]
            except Exception:
                new = None
            if new is None or new or rc != 0:
                res.violation("unchanged code scanned against its own baseline in another process under another locale: findings reported, or no report at all",
                              {"files": picked, "baseline_written_under": LOCALES[wl], "rescan_under": LOCALES[rl], "exit_of_writer": rcw, "exit": rc, "stderr_tail": se[-300:],
                               "reported": [[x["test_id"], os.path.basename(x["filename"]), x["line_number"], x["issue_text"][:80]] for x in (new or [])][:8]})
            if os.path.exists(b2):
                os.remove(b2)
        os.remove(base)
    finally:
        shutil.rmtree(d, ignore_errors=True)


def run(res, ctx):
    thorough = res.tier == "thorough"
    kinds = KINDS[res.tier]
    thr = THR[res.tier]
    fmts = [f for f in baseline_formats() if f in PARSE]
    unknown_fmts = [f for f in baseline_formats() if f not in PARSE]
    res.rule = ("a case is one history (baseline report, current files, thresholds, observation level) = (before state | edited report) x (after state, layout) x "
                "(severity, confidence) x {manager: populate_baseline+get_issue_list | cli: bandit -b -f FMT}; states are ALL multisets of <= 3 statements over 2 files x "
                f"{len(kinds)} kinds; manager level enumerates every (before, after, layout) pair x {len(thr)} thresholds; CLI level every single-edit history (thorough: every pair) "
                "x baseline-capable formats.  Non-trivial = the baseline report or the current scan holds at least one finding passing the thresholds "
                "(so the filter has something to decide); distinctness is by the symbolic history, not by scratch paths.")
    res.assumptions = [
        "Lean 4.33.0 kernel; axioms propext, Classical.choice, Quot.sound only (audited per theorem on every run)",
        "JSON text layer (formatter + json.dumps + file + json.loads) is not modelled: Props.C07.roundtrip_identity / self_baseline_empty take it as the explicit hypothesis Spec.JsonFaithful; exercised end-to-end by every history of the correspondence run (reports are written and read back by real bandit, including a non-BMP/HTML-special literal quoted in the message)",
        "texts with lone surrogates are not representable in the model (Lean Char = Unicode scalar value); on them as_dict raises (recorded under C09), no baseline can be written",
        "a baseline is a JSON report in bandit's documented format; keys with values of another JSON type than the formatter writes are outside the model (the driver refuses them)",
        "harness/translate_c07.py prints match_types / as_dict / from_dict key tables from the source AST; harness canonicalisation and report parsers (json/custom/txt/screen/html) are trusted",
        "the excerpt (`code`) is opaque: linecache/get_code are not modelled (C10)",
    ]
    world = World()
    chk = Checker(res, ctx, world)
    try:
        if ctx.get("replay"):
            return replay(res, chk, ctx["replay"])
        _run(res, ctx, chk, world, kinds, thr, fmts, thorough)
        self_baseline_variants(res)
        chained_baselines(res)
        cross_process_self_baseline(res)
        if unknown_fmts:
            res.notes.append("baseline-capable formats without a parser here (only exit status checked): %s" % unknown_fmts)
    finally:
        chk.close()
        world.close()


def _run(res, ctx, chk, world, kinds, thr_all, fmts, thorough):
    rng = C.rng_for(res.seed, "C07")
    states = all_states(kinds)
    variant = chk.detect_variant(kinds)
    if variant is None:
        res.break_("witness", "replaying NEG_duplicate_not_reported on the implementation gave neither reading: %r" % res.extra["witness_replay"])
    # ---- before-reports through the real CLI
    base_by_state = {}
    thresholded = []
    for si, S in enumerate(states):
        world.write(render(S, 0, kinds))
        base_by_state[si] = Baseline(("scan", si), world.scan_report())
        if S and (si % 3 == 0 if thorough else si % 7 == rng.randrange(7)):
            for (bs, bc) in (("MEDIUM", "UNDEFINED"), ("UNDEFINED", "MEDIUM")):
                thresholded.append(Baseline(("scan", si, bs, bc), world.scan_report(bs, bc)))
    common = [base_by_state[si] for si in range(len(states))] + thresholded
    extra_b = [Baseline("not-json", "{not json"), Baseline("no-results-key", '{"errors": []}')]
    common += extra_b
    res.extra["states"] = len(states)
    res.extra["baseline_reports"] = len(common)
    res.extra["formats"] = fmts
    cli_states_ok = [k for k in kinds if k in CLI_KINDS]
    n_cli = 0
    for ti, T in enumerate(states):
        for layout in (0, 1, 2):
            files = render(T, layout, kinds)
            world.write(files)
            mgr = world.scan_manager()
            recs = [rec_of_issue(i) for i in mgr.results]
            idx = {id(i): n for n, i in enumerate(mgr.results)}
            # reports of T itself edited field by field (pure-edit histories): only against T
            if layout == 0:
                edits_T = [(ekind, Baseline(("edit", ti, label), text)) for label, ekind, text in report_edits(base_by_state[ti].text)] if T else []
            edits = edits_T if layout in (0, 1) else []
            if layout == 2 and not thorough:
                bl = [b for b in common if b.label[0] != "scan" or len(b.label) > 2 or is_neighbor(states[b.label[1]], T)]
            else:
                bl = list(common)
            bl += [b for _, b in edits]
            thr = thr_all if layout == 0 else THR["quick"]
            model = ask_lean(chk.drv, recs, bl, thr) if chk.drv else None
            if model is not None and "error" in model:
                res.break_("driver-error", model["error"])
                model = None
            if model is not None and chk.model_variant is None:
                chk.model_variant = model.get("current_variant")
            for bi, b in enumerate(bl):
                mgr.populate_baseline(b.text)
                if model is not None:
                    loaded = model["out"][bi]["loaded"]
                    if hasattr(mgr, "baseline") and loaded != len(mgr.baseline):
                        brk(res, "correspondence", {"what": "number of baseline issues loaded", "model": loaded, "impl": len(mgr.baseline), "baseline": str(b.label)})
                if b.label[0] == "scan" and len(b.label) == 2:
                    cls = edit_class(states[b.label[1]], T, layout)
                elif b.label[0] == "scan":
                    cls = "thresholded-baseline"
                elif b.label[0] == "edit":
                    cls = "report-edit:" + b.label[2].split("@")[0]
                else:
                    cls = "unloadable-report"
                for tj, (sev, conf) in enumerate(thr):
                    kind, ent = impl_outcome(mgr, idx, sev, conf)
                    key = ("mgr", str(b.label), ti, layout, sev, conf)
                    m = model["out"][bi]["thr"][tj] if model is not None else None
                    exp, region, bad = chk.verdict("manager", key, recs, b, sev, conf, kind, ent, m, files)
                    nontrivial = bool(b.entries) or any(passes(r, sev, conf) for r in recs)
                    res.case(key, nontrivial, sample={"history": cls, "baseline": str(b.label), "after_state": [list(x) for x in T], "layout": layout,
                                                        "thresholds": [sev, conf], "current_findings": len(recs), "reported": ent, "demanded": exp,
                                                        "known_region": region} if (ent and region and len(res.samples) < 2) or (cls.startswith("report-edit:issue_text") and len(res.samples) < 4 and ent) else None)
                    res.count("mgr:" + cls)
                    res.count("outcome:" + kind + (":empty" if not ent else ""))
                    if tj == 0:
                        n = mgr.results_count(sev_filter=sev, conf_filter=conf)
                        if n != len(ent):
                            res.violation(WHAT["exit"], chk.replay_dict("manager", files, b, sev, conf, results_count=n, reported=ent))
            C.take_log()
            # ---- CLI level
            if all(kinds[k] in CLI_KINDS for (_, k) in T):
                plan = plan_cli(rng, states, T, layout, thorough, fmts, 0)
                plan = [p for p in plan if all(kinds[k] in CLI_KINDS for (_, k) in states[p[0][1]])]
                if edits and layout == 0:
                    pick = edits if thorough else rng.sample(edits, min(3, len(edits)))
                    for n, (ekind, b) in enumerate(pick):
                        plan.append((b, fmts[(ti + n) % len(fmts)], (ti + n) % len(CLI_THR), False))
                # group by threshold so the model is asked once per after-variant
                cli_b = []
                for bk, fmt, tix, ez in plan:
                    b = bk if isinstance(bk, Baseline) else base_by_state[bk[1]]
                    cli_b.append(b)
                uniq = {id(b): b for b in cli_b}
                ub = list(uniq.values())
                cli_model = ask_lean(chk.drv, recs, ub, CLI_THR) if (chk.drv and ub) else None
                pos = {id(b): n for n, b in enumerate(ub)}
                for (bk, fmt, tix, ez), b in zip(plan, cli_b):
                    sev, conf = CLI_THR[tix]
                    m = cli_model["out"][pos[id(b)]]["thr"][tix] if cli_model and "error" not in cli_model else None
                    cli_case(res, chk, world, recs, files, b, fmt, sev, conf, ez, m, T, ti, layout, states)
                    n_cli += 1
    res.extra["cli_histories"] = n_cli
    res.extra["implementation_reading"] = chk.variant
    res.extra["model_current_variant"] = chk.model_variant
    if chk.variant and chk.model_variant and chk.variant != chk.model_variant:
        res.notes.append(f"NOTE: the implementation follows the '{chk.variant}' reading of _compare_baseline_results while Bandit.Baseline.currentVariant is "
                         f"'{chk.model_variant}': known finding {FID} no longer reproduces; flip currentVariant and retire the finding")
        print(f"NOTE: known finding {FID} no longer reproduces (implementation now counts occurrences); model variant constant is due for an update")
    subprocess_histories(res, chk, world, kinds)
    res.exhaustive = True
    res.extra["violations_total"] = chk.nviol


def cli_case(res, chk, world, recs, files, b, fmt, sev, conf, ez, m, T, ti, layout, states):
    with open(world.rep, "w", encoding="utf-8") as f:
        f.write(b.text)
    r = run_cli_baseline(world, fmt, sev, conf, ez)
    key = ("cli", fmt, str(b.label), ti, layout, sev, conf, ez)
    cls = edit_class(states[b.label[1]], T, layout) if b.label[0] == "scan" and len(b.label) == 2 else "report-edit"
    res.count("cli:" + fmt)
    res.count("cli:" + cls)
    extra = {"format": fmt, "exit_zero": ez}
    exp, region, plain = spec_expected(recs, b, sev, conf)
    nontrivial = bool(b.entries) or any(passes(x, sev, conf) for x in recs)
    if r["exc"] or r["exit"] not in (0, 1):
        res.violation("bandit -b ended with %s instead of reporting" % (r["exc"] or ("exit status %r" % r["exit"])),
                      chk.replay_dict("cli", files, b, sev, conf, stderr=r["err"][-600:], **extra))
        res.case(key, nontrivial)
        return
    parse, view = PARSE[fmt]
    try:
        got = parse(r["out"])
    except Exception as e:  # unparsable report
        res.violation("report of format %s cannot be parsed back (%s)" % (fmt, type(e).__name__),
                      chk.replay_dict("cli", files, b, sev, conf, output=r["out"][-1500:], **extra))
        res.case(key, nontrivial)
        return
    kind_spec = "plain" if plain else "cands"
    want = view(recs, kind_spec, exp)
    want_exit = 1 if (exp and not ez) else 0
    ok_spec = (got == want and r["exit"] == want_exit)
    m_ok = None
    if m is not None:
        mv = m.get(chk.variant or "membership", {})
        m_ok = (view(recs, mv.get("kind"), mv.get("entries") or []) == got and (mv.get("exit") if not ez else 0) == r["exit"])
        if not m_ok:
            brk(res, "correspondence", {"case": key, "level": "cli", "impl": {"report": got, "exit": r["exit"]},
                                          "model": {"report": view(recs, mv.get("kind"), mv.get("entries") or []), "exit": mv.get("exit")},
                                          "replay": chk.replay_dict("cli", files, b, sev, conf, **extra)})
            res.count("correspondence-mismatch")
    if not ok_spec:
        # attributable to the known finding iff the implementation behaves exactly as the (membership) model and
        # the only difference to the demanded report are withheld findings inside the region
        attributable = False
        if chk.variant == "membership" and m is not None and m_ok:
            mv = m["membership"]
            bad = judge(mv.get("entries") or [], exp, plain)
            attributable = bool(bad) and all(w == "withheld" for w, _ in bad) and all(k in region for _, ks in bad for k in ks)
        if attributable:
            res.known_finding(FID)
            res.count("known-region-hit")
        else:
            chk.nviol += 1
            if chk.nviol <= 40:
                what = "bandit -b -f %s: the report/exit status is not the one the baseline accounts for" % fmt
                if got == want:
                    what = WHAT["exit"]
                res.violation(what, chk.replay_dict("cli", files, b, sev, conf, observed={"report": got, "exit": r["exit"]},
                                                    demanded={"report": want, "exit": want_exit}, **extra))
    res.case(key, nontrivial, sample={"level": "cli", "format": fmt, "history": cls, "thresholds": [sev, conf], "exit": r["exit"],
                                      "reported": len(got), "demanded": len(want)} if (len(res.samples) < 6 and got and fmt != "json") else None)


def subprocess_histories(res, chk, world, kinds):
    """the same through separate `python -m bandit` processes (no shared in-process state): the witness and a self-baseline"""
    def bandit(args):
        p = subprocess.run([sys.executable, "-m", "bandit"] + args, stdout=subprocess.PIPE, stderr=subprocess.PIPE, text=True, encoding="utf-8")
        return p.returncode, p.stdout
    S = ((0, 0), (0, 1), (1, 2 % len(kinds)))
    for label, before, after, layout in (("self-baseline", S, S, 1), ("duplicate", ((0, 0),), ((0, 0), (0, 0)), 0)):
        world.write(render(before, 0, kinds))
        rc, _ = bandit(["-f", "json", "-o", world.rep] + world.paths)
        with open(world.rep, encoding="utf-8") as f:
            b = Baseline(("subprocess", label), f.read())
        files = render(after, layout, kinds)
        world.write(files)
        rc0, full = bandit(["-f", "json"] + world.paths)
        recs = []
        for e in json.loads(full)["results"]:
            recs.append(Rec(e["issue_text"], e["issue_severity"], int((e.get("issue_cwe") or {}).get("id", 0)), e["issue_confidence"], e["filename"],
                            e["test_name"], e["test_id"], e["line_number"], tuple(e["line_range"]), e["col_offset"], e["end_col_offset"]))
        rc, out = bandit(["-f", "json", "-b", world.rep] + world.paths)
        key = ("subprocess", label)
        res.count("subprocess:" + label)
        try:
            got = parse_json(out)
        except Exception:
            res.violation("bandit -b (separate process) produced no JSON report", chk.replay_dict("cli", files, b, "UNDEFINED", "UNDEFINED", format="json", exit=rc))
            continue
        exp, region, plain = spec_expected(recs, b, "UNDEFINED", "UNDEFINED")
        want = view_json(recs, "plain" if plain else "cands", exp)
        if got == want and rc == (1 if exp else 0):
            pass
        elif chk.variant == "membership" and label == "duplicate" and got == [] and rc == 0 and all(e[0] in region for e in exp):
            res.known_finding(FID)
        else:
            res.violation("bandit -b (separate processes): report/exit status is not the one the baseline accounts for",
                          chk.replay_dict("cli", files, b, "UNDEFINED", "UNDEFINED", format="json", observed={"report": got, "exit": rc},
                                          demanded={"report": want, "exit": 1 if exp else 0}))
        res.case(key, True)


# ----------------------------------------------------------------------------- replay
def replay(res, chk, rp):
    """re-run exactly one stored history"""
    world = chk.world
    d = rp.get("replay", rp)
    if "files" not in d:
        # a broken obligation / correspondence without failing input: re-run the regular check
        res.notes.append("replay file carries no concrete history; running the regular check")
        kinds = KINDS[res.tier]
        return _run(res, chk.ctx, chk, world, kinds, THR[res.tier], [f for f in baseline_formats() if f in PARSE], res.tier == "thorough")
    chk.detect_variant(KINDS["quick"])
    files = {n: d["files"].get(n, "x = 1\n") for n in FILES}
    world.write(files)
    b = Baseline(("replay", d.get("baseline_label")), world.concrete(d["baseline_report"]))
    sev, conf = d.get("severity_threshold", "LOW"), d.get("confidence_threshold", "LOW")
    mgr = world.scan_manager()
    recs = [rec_of_issue(i) for i in mgr.results]
    idx = {id(i): n for n, i in enumerate(mgr.results)}
    res.rule = "replay of one stored history"
    if d.get("level") == "cli":
        m = None
        if chk.drv:
            mm = ask_lean(chk.drv, recs, [b], [(sev, conf)])
            m = mm["out"][0]["thr"][0] if "error" not in mm else None
        # thresholds outside CLI_THR are fine: flags are derived from the names
        cli_case(res, chk, world, recs, files, b, d.get("format", "json"), sev, conf, bool(d.get("exit_zero")), m, (), -1, 0, [])
    else:
        mgr.populate_baseline(b.text)
        msev, mconf = (sev if sev != "UNDEFINED" else "LOW"), (conf if conf != "UNDEFINED" else "LOW")
        kind, ent = impl_outcome(mgr, idx, msev, mconf)
        m = None
        if chk.drv:
            mm = ask_lean(chk.drv, recs, [b], [(msev, mconf)])
            m = mm["out"][0]["thr"][0] if "error" not in mm else None
        chk.verdict("manager", ("replay",), recs, b, msev, mconf, kind, ent, m, files)
        res.case(("replay",), True, sample={"reported": ent})
    res.extra["replayed"] = True
