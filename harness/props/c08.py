"""C08 — findings are a deterministic function of file, config and selection."""
import glob, json, os, re, subprocess, sys
import common as C
import progs
import histories as hist_mod

LEVEL = "proof"

FORMATS = ["json", "yaml", "csv", "xml", "sarif"]


def strip_volatile(fmt, text):
    """remove the generation timestamp (the only thing allowed to differ)"""
    if fmt == "json":
        return re.sub(r'"generated_at": "[^"]*"', '"generated_at": ""', text)
    if fmt == "yaml":
        return re.sub(r"generated_at: .*", "generated_at:", text)
    if fmt == "sarif":
        return re.sub(r'"endTimeUtc": "[^"]*"', '"endTimeUtc": ""', text)
    return text


def cli_subprocess(args, cwd, seed):
    env = dict(os.environ, PYTHONHASHSEED=str(seed))
    p = subprocess.run([sys.executable, "-c", "import sys; sys.path[:0]=%r; from bandit.cli.main import main; main()" % ([os.environ["PYTHONPATH"].split(os.pathsep)[0], C.REPO],)] + args,
                       cwd=cwd, env=env, capture_output=True, text=True, timeout=300)
    return p.returncode, p.stdout, p.stderr


def per_file(mgr):
    out = {}
    for r in mgr.results:
        out.setdefault(os.path.basename(r.fname), []).append(C.finding_tuple(r) + (r.text,))
    return {k: sorted(v) for k, v in out.items()}


def run(res, ctx):
    from bandit.core import config as b_config, manager as b_manager
    import yaml
    rng = C.rng_for(res.seed, "C08")
    thorough = res.tier == "thorough"
    res.rule = ("(1) co-scan: each seeded program scanned alone, with others, in shuffled target order and inside a superset — per-file findings incl. message texts must be identical; "
                "(2) histories in one process: sequences of construct/run operations over two managers with the same or different plugin settings / selections — each run compared with a fresh "
                "run of that manager and with the Lean process model (exec); (3) whole reports: bandit's examples directory through the real CLI in subprocesses under 8 (quick 3) hash seeds x "
                "5 machine-readable formats — bytes must be identical apart from the timestamp, and must not contain memory addresses; (4) files created in different directory-entry orders; "
                "non-trivial = distinct (scenario, input)")
    scratch = C.Scratch()
    d = C.Driver() if ctx["driver_ok"] else None
    try:
        # ---------------- (1) co-scan / order
        n = 8 if thorough else 5
        sources = [progs.make_program(rng)[0] for _ in range(n)]
        # suppression comments: the same comment texts recur across lines and files (blanket, specific by id / by name, unknown), and multi-line statements carry two
        # different comments (seeded change C08-m1: a memoised comment parser + in-place merge made `# nosec` mean something else after such a statement was scanned)
        NOSEC = ["# nosec", "# nosec B602", "#nosec B301, B403", "# nosec: subprocess_popen_with_shell_equals_true", "# nosec B999", "# nosec B404 B603", "# NOSEC", "# nosec B607 -- why"]
        ML = ["import subprocess\nsubprocess.Popen('/bin/ls %s' % d,  {a}\n                 shell=True)  {b}\n", "import pickle\nx = pickle.loads(  {a}\n    blob)  {b}\n",
              "import os\nos.system('ls'  {a}\n          ' -l' + arg)  {b}\n", "def f(a,  {a}\n      password='pw'):  {b}\n    pass\n", "cfg = {{'password': 'x',  {a}\n       'tmp': '/tmp/y'}}  {b}\n"]
        def nosecify(src):
            out = []
            for l in src.split("\n"):
                out.append(l + "  " + rng.choice(NOSEC) if l and rng.random() < 0.45 else l)
            return "\n".join(out)
        pairs = [(a, b) for a in NOSEC for b in NOSEC if a != b]          # every ordered pair of different comments on the two lines of one statement
        rng.shuffle(pairs)
        per = -(-len(pairs) // n)
        for i in range(n):
            body = "".join(rng.choice(ML).format(a=a, b=b) for a, b in pairs[i * per:(i + 1) * per])
            sources.append(body + nosecify(progs.make_program(rng, k=4)[0]))
        sources.append("import pickle  # nosec\nimport subprocess  # nosec\npickle.loads(b)  # nosec\n")
        # many small modules whose findings sit on nodes WITHOUT a position of their own (string defaults under `arguments`), of different shapes: anything remembered
        # about one file's tree (by object identity, say) is stale once that tree is gone (seeded change C08-m11 memoised line ranges in a module-level table
        # keyed by id(node): after a dozen files a new node landed on an old address and took over its range)
        for gi in range(24 if thorough else 16):
            pad = "\n" * (gi % 5)
            sources.append("import os\n" + pad + "".join(
                "def part%d_%d(a, %s,\n          scratch='/tmp/p%d_%d',\n%s          host='0.0.0.0'):\n    return a\n\n\n" % (gi, k, "b=%d" % k, gi, k, "          c=None,\n" * ((gi + k) % 3))
                for k in range(2 + gi % 3)) + "x%d = lambda t='/var/tmp/q', *, u='/dev/shm/z': t\n" % gi)
        root = os.path.join(scratch.root, "cos"); os.makedirs(root)
        paths = []
        for i, s in enumerate(sources):
            p = os.path.join(root, f"f{i}.py"); open(p, "w").write(s); paths.append(p)
        # files that are SKIPPED (not valid Python 3) placed so that each sorts immediately before a file with findings: what happens to a skipped
        # file must not touch its neighbours (seeded change C08-m3 removed skipped files from the list being iterated)
        for i in (0, 2, len(sources) - 1):
            p = os.path.join(root, f"f{i}.a_skipped.py"); open(p, "w").write("print 'python 2 statement'\nimport pickle\n"); paths.append(p)
        # a file deep enough to exhaust the interpreter's recursion limit, followed by one whose B608 analysis sits between the limits of the check and of
        # the visitor: whatever the first does to the process must not change what the second yields (seeded change C08-m4 raised the limit for good)
        p = os.path.join(root, "f0.b_deep.py"); open(p, "w").write("x = " + " + ".join("v%d" % i for i in range(2000)) + "\n"); paths.append(p)
        p = os.path.join(root, "f0.c_sql.py"); open(p, "w").write("q = 'SELECT * FROM t WHERE a = ' + " + " + ".join("v%d" % i for i in range(700)) + "\n"); paths.append(p)
        # a small file that the same checks fire on, sorting AFTER the deep ones: a check that raised on an earlier file must still run on later ones
        # (seeded change C08-m6 removed a check from the shared test list once it had raised)
        p = os.path.join(root, "f0.d_after.py"); open(p, "w").write("import tarfile\nq = 'SELECT * FROM t WHERE a = ' + v\ntarfile.open(n).extractall()\nt = tarfile.open(m)\nt.extractall(members=pick(t))\n"); paths.append(p)
        p = os.path.join(root, "f0.c_tar.py"); open(p, "w").write("import tarfile\nt = tarfile.open(n)\nt.extractall(dest, members=" + " + ".join("p%d" % i for i in range(700)) + ")\n"); paths.append(p)
        paths.sort()
        # two names for one file (a symbolic link next to its target): each discovered name is scanned and reported under that name, whatever the
        # directory enumeration order (seeded change C08-m5 kept only the first name os.walk yields)
        symdir = os.path.join(scratch.root, "sym"); os.makedirs(os.path.join(symdir, "pkg"))
        open(os.path.join(symdir, "pkg", "serializer.py"), "w").write("import pickle\npickle.loads(b)\n")
        os.symlink("serializer.py", os.path.join(symdir, "pkg", "codec.py"))
        os.symlink("serializer.py", os.path.join(symdir, "pkg", "zcodec.py"))
        open(os.path.join(symdir, "run.py"), "w").write("import subprocess\n")

        def scan(ps):
            import linecache
            linecache.clearcache()
            m = b_manager.BanditManager(b_config.BanditConfig(), "file")
            m.discover_files(list(ps)); m.run_tests(); C.take_log()
            return per_file(m)

        # the reference for each file is a scan of it ALONE IN A PRISTINE INTERPRETER (nothing was scanned, no scanner object existed before): an in-process
        # "alone" scan would already be behind whatever state an earlier scan of this very run left
        from concurrent.futures import ThreadPoolExecutor
        def pristine(p):
            rc, out, err = cli_subprocess(["-f", "json", "-q", p], root, 0)
            try:
                data = json.loads(out)
            except ValueError:
                return os.path.basename(p), None, err[-300:]
            return os.path.basename(p), sorted((r["test_id"], r["issue_severity"], r["issue_confidence"], r["line_number"], list(r["line_range"]), r["col_offset"], r["issue_text"])
                                               for r in data["results"]), None
        alone = {}
        with ThreadPoolExecutor(8) as ex:
            for b, fs, err in ex.map(pristine, paths):
                if fs is None:
                    res.break_("pristine-scan-failed", {"file": b, "stderr": err})
                    fs = []
                alone[b] = fs
        for p in paths:
            got = scan([p])
            b = os.path.basename(p)
            res.case(("in-process-alone", b), bool(alone[b]))
            if got.get(b, []) != alone[b]:
                res.violation("a file's findings in this process differ from its findings in a pristine interpreter (something scanned or constructed earlier leaked)",
                              {"file": b, "program": open(p).read(), "pristine": [list(x) for x in alone[b]], "in_process": [list(x) for x in got.get(b, [])]})
        # (1c) neighbours on disk that are NOT scanned: a file's findings are a function of its content — an `__init__.py`, a sibling module named like a standard
        #      library module, a `py.typed` or `setup.py` appearing next to it (or in the parent directory) changes nothing (seeded change C08-m15 resolved relative
        #      imports against the package found by looking for `__init__.py` on disk: `from .subprocess import Popen` stopped being subprocess.Popen)
        ndir = os.path.join(scratch.root, "neigh", "acme"); os.makedirs(ndir)
        nprogs = {"rel_from.py": "from .subprocess import Popen\nfrom .pickle import loads\nfrom . import os\n\n\ndef run(c, b):\n    Popen(c, shell=True)\n    return loads(b)\n",
                  "rel_parent.py": "from ..pickle import loads as ld\nfrom ..xml.sax import parse\nfrom .. import subprocess\nld(b)\nparse(s)\nsubprocess.call(c, shell=True)\n",
                  "plain.py": "import subprocess\nimport pickle\nsubprocess.Popen(c, shell=True)\npickle.loads(b)\nassert c\n"}
        for nm, body in nprogs.items():
            open(os.path.join(ndir, nm), "w").write(body)
        before_ = {nm: scan([os.path.join(ndir, nm)]).get(nm, []) for nm in nprogs}
        added_ = []
        for rel in ("__init__.py", "subprocess.py", "pickle.py", "os.py", "py.typed", "../__init__.py", "../setup.py", "../pickle.py", "xml/__init__.py", "xml/sax.py"):
            pth = os.path.normpath(os.path.join(ndir, rel))
            os.makedirs(os.path.dirname(pth), exist_ok=True)
            open(pth, "w").write("" if rel.endswith(("__init__.py", "py.typed")) else "VALUE = 1\n")
            added_.append(rel)
            for nm in nprogs:
                got_ = scan([os.path.join(ndir, nm)]).get(nm, [])
                res.case(("neighbour-files", nm, rel), bool(before_[nm]))
                res.count("neighbour-file-cases")
                if got_ != before_[nm]:
                    res.violation("a file's findings changed when a file that is not scanned appeared next to it",
                                  {"file": "acme/" + nm, "program": nprogs[nm], "files_added_so_far (relative to acme/)": list(added_), "before": [list(x) for x in before_[nm]], "after": [list(x) for x in got_]})
                    before_[nm] = got_
        trials = [("all", paths), ("reversed", paths[::-1])]
        for k in range(6 if thorough else 3):
            sub = rng.sample(paths, rng.randint(2, len(paths)))
            rng.shuffle(sub)
            trials.append((f"subset{k}", sub))
        # recursive scan of the symlink tree vs each of its names alone
        def scan_dir(dd):
            import linecache
            linecache.clearcache()
            m = b_manager.BanditManager(b_config.BanditConfig(), "file")
            m.discover_files([dd], True); m.run_tests(); C.take_log()
            out = {}
            for r in m.results:
                out.setdefault(os.path.relpath(r.fname, dd), []).append(C.finding_tuple(r))
            return {k: sorted(v) for k, v in out.items()}, sorted(os.path.relpath(f, dd) for f in m.files_list)
        got_dir, listed = scan_dir(symdir)
        for rel in ("pkg/serializer.py", "pkg/codec.py", "pkg/zcodec.py", "run.py"):
            one = scan([os.path.join(symdir, rel)])
            want = one.get(os.path.basename(rel), [])
            res.case(("symlink", rel), True)
            if [x[:6] for x in want] != [tuple(x) if not isinstance(x, tuple) else x for x in got_dir.get(rel, [])] and [list(x[:6]) for x in want] != [list(x) for x in got_dir.get(rel, [])]:
                res.violation("a file reachable under several names is not scanned under each discovered name (or its findings depend on the other names)",
                              {"name": rel, "alone": [list(x[:6]) for x in want], "in_directory_scan": [list(x) for x in got_dir.get(rel, [])], "files_list": listed})
        trials += [("alone-again:" + os.path.basename(p), [p]) for p in paths]      # nothing scanned so far may have changed what a file yields
        for label, ps in trials:
            got = scan(ps)
            for p in ps:
                b = os.path.basename(p)
                res.case(("coscan", label, b), bool(alone.get(b)))
                res.count("coscan")
                if got.get(b, []) != alone.get(b, []):
                    res.violation("a file's findings depend on which other files are scanned with it / in which order",
                                  {"trial": label, "targets": [os.path.basename(x) for x in ps], "file": b, "program": open(p).read(),
                                   "alone": [list(x) for x in alone.get(b, [])], "together": [list(x) for x in got.get(b, [])]})
        # ---------------- (2) histories in one process
        prog = "import subprocess\nimport mylib\nmylib.run(cmd, shell=True)\nsubprocess.Popen(cmd, shell=True)\npath = '/scratch/x'\ntmp = '/tmp/y'\nimport pickle\n"
        target = scratch.fresh("hist.py", prog.encode())
        cfgs = {
            "D": None,
            "X": {"shell_injection": {"subprocess": ["mylib.run"], "shell": [], "no_shell": []}, "hardcoded_tmp_directory": {"tmp_dirs": ["/scratch"]}},
        }
        cfgfiles = {k: (scratch.fresh(k + ".yaml", yaml.safe_dump(v).encode()) if v else None) for k, v in cfgs.items()}
        profiles = {"all": {}, "noB403": {"exclude": {"B403"}}}

        def construct(ck, pk):
            return b_manager.BanditManager(b_config.BanditConfig(cfgfiles[ck]), "file", profile=dict(profiles[pk]))

        def run_mgr(m):
            import linecache
            linecache.clearcache()
            m.results = []; m.skipped = []; m.files_list = []
            m.discover_files([target]); m.run_tests(); C.take_log()
            return sorted(C.finding_tuple(r) for r in m.results)

        fresh = {}
        for ck in cfgs:
            for pk in profiles:
                m = construct(ck, pk)
                fresh[(ck, pk)] = run_mgr(m)
        keys = list(fresh)
        histories = []
        for a in keys:
            for b in keys:
                histories.append([("c", a), ("c", b), ("r", a), ("r", b)])     # construct both, then run both
                histories.append([("c", a), ("r", a), ("c", b), ("r", b), ("r", a)])
        if not thorough:
            histories = rng.sample(histories, 10)
        for h in histories:
            mgrs = {}
            outs = []
            for op, k in h:
                if op == "c":
                    mgrs[k] = construct(*k)
                else:
                    outs.append((k, run_mgr(mgrs[k])))
            # Lean process model (Bandit.Process.exec): settings/blacklist data are global (last construction wins), tests are per manager
            model_pred = []
            if d is not None:
                ans = d.ask({"op": "process_exec", "history": [[op, keys.index(k)] for op, k in h]})
                if isinstance(ans, dict) and "error" in ans:
                    res.break_("driver-error", ans["error"])
                    ans = []
                for (op, k), a in zip(h, ans):
                    if op == "r":
                        model_pred.append((k, keys[a[1]]))     # a = [tests, settings, blData] indices
            else:
                last = None
                for op, k in h:
                    if op == "c":
                        last = k
                    else:
                        model_pred.append((k, last))
            for (k, got), (_, lastk) in zip(outs, model_pred):
                res.case(("history", tuple(h), k), True, sample={"history": h, "run": k, "got": [list(x[:4]) for x in got]} if len(res.samples) < 3 else None)
                res.count("history-run")
                want = fresh[k]
                # correspondence: the model says which construction's settings this run reads
                if got != fresh[lastk]:
                    res.break_("correspondence:process", {"history": h, "run": k, "model_says_settings_of": lastk, "got": [list(x) for x in got]})
                if got == want:
                    continue
                # deviation: attributable to the known shared-state finding iff the model predicts it: the most recent construction differs from k
                if lastk != k:
                    res.known_finding("C08-shared-plugin-config")
                else:
                    res.violation("a run's findings depend on what was constructed/run earlier in the process",
                                  {"history": h, "run": k, "program": prog, "fresh": [list(x) for x in want], "got": [list(x) for x in got]})
        if d is not None:
            pass
        # ---------------- (3) whole reports under different hash seeds, through the CLI in subprocesses
        ex = os.path.join(C.REPO, "examples")
        seeds = [0, 1, 2, 3, 4, 5, 6, 7] if thorough else [0, 7]
        fmts = FORMATS if thorough else ["json", "sarif"]
        for fmt in fmts:
            ref = None
            for sd in seeds:
                out = os.path.join(scratch.root, f"rep_{fmt}_{sd}")
                rc, so, se = cli_subprocess(["-r", "examples", "-f", fmt, "-o", out, "-q"], C.REPO, sd)
                res.case(("hashseed", fmt, sd), True)
                res.count("hashseed:" + fmt)
                if not os.path.exists(out):
                    res.violation("no report produced in a subprocess run", {"format": fmt, "seed": sd, "rc": rc, "stderr": se[-400:]})
                    continue
                text = strip_volatile(fmt, open(out, encoding="utf-8", errors="replace").read())
                m = re.search(r"object at 0x[0-9a-fA-F]+", text)
                if m:
                    res.violation("a report contains a memory address", {"format": fmt, "seed": sd, "excerpt": text[max(0, m.start() - 120):m.end() + 20]})
                if ref is None:
                    ref = (sd, text)
                elif text != ref[1]:
                    i = next((j for j in range(min(len(text), len(ref[1]))) if text[j] != ref[1][j]), 0)
                    res.violation("two runs over the same inputs produced different machine-readable reports",
                                  {"format": fmt, "seeds": [ref[0], sd], "first_difference_at": i, "a": ref[1][max(0, i - 100):i + 100], "b": text[max(0, i - 100):i + 100]})
        # names that differ only in letter case, in a combining mark, or not at all once lower-cased: every total order on file names must be independent of the
        # hash seed (seeded change C08-m8 sorted with key=str.lower; ties kept the iteration order of a set)
        ctree = os.path.join(scratch.root, "casetree")
        for rel, body in (("pkg/Settings.py", "import pickle\n"), ("pkg/settings.py", "import subprocess\n"), ("pkg/SETTINGS.py", "assert x\n"), ("Lib/x.py", "exec(c)\n"),
                          ("lib/x.py", "import telnetlib\n"), ("lib/X.py", "password = 'pw'\n"), ("a/B.py", "import pickle\n"), ("A/b.py", "import marshal\n"),
                          ("z\u00e9.py", "assert y\n"), ("ze\u0301.py", "assert z\n"), ("Z\u00c9.py", "exec(d)\n"),
                          # several DIFFERENT bidi control characters on one line: which one is reported (message, column) must not depend on the hash seed
                          # (seeded change C08-m10 iterated a frozenset of the characters)
                          ("bidi.py", "access = 'user'\nif access == 'none\u202e \u2066# check\u2069 \u2066':\n    pass  # \u202d x \u2067 y \u202c\n")):
            os.makedirs(os.path.dirname(os.path.join(ctree, rel)), exist_ok=True)
            open(os.path.join(ctree, rel), "w").write(body)
        for fmt in (FORMATS if thorough else ["json", "csv"]):
            ref = None
            for sd in ([0, 1, 2, 3, 4, 5, 6, 7, 8, 9, 10, 11] if thorough else [0, 1, 2, 3, 5, 8]):
                out = os.path.join(scratch.root, f"case_{fmt}_{sd}")
                rc, so, se = cli_subprocess(["-r", "casetree", "-f", fmt, "-o", out, "-q"], scratch.root, sd)
                res.case(("hashseed-case-colliding-names", fmt, sd), True)
                res.count("hashseed-case:" + fmt)
                if not os.path.exists(out):
                    res.violation("no report produced in a subprocess run", {"format": fmt, "seed": sd, "rc": rc, "stderr": se[-400:]})
                    continue
                text = strip_volatile(fmt, open(out, encoding="utf-8", errors="replace").read())
                if ref is None:
                    ref = (sd, text)
                elif text != ref[1]:
                    i = next((j for j in range(min(len(text), len(ref[1]))) if text[j] != ref[1][j]), 0)
                    res.violation("two runs over the same inputs (file names equal up to letter case) produced different machine-readable reports",
                                  {"format": fmt, "seeds": [ref[0], sd], "tree": "pkg/{Settings,settings,SETTINGS}.py Lib/x.py lib/{x,X}.py a/B.py A/b.py z\u00e9.py ze\u0301.py Z\u00c9.py",
                                   "first_difference_at": i, "a": ref[1][max(0, i - 100):i + 100], "b": text[max(0, i - 100):i + 100]})
                    break
        # messages that quote a set / dict display (defect C08-set-display-quoted-in-message, repaired by /repo 044ca88): identical under every hash seed, no addresses
        stree = os.path.join(scratch.root, "settree"); os.makedirs(stree)
        open(os.path.join(stree, "perm.py"), "w").write("import os\nos.chmod({'alpha', 'beta', 'gamma'}, 0o777)\nos.chmod('/etc/x', 0o777)\nimport pickle\nos.chmod({'a': 1, 'b': [2]}, 0o775)\nos.chmod(['x', 'y'], 0o777)\n")
        texts_ = {}
        for sd in (0, 1, 2, 3):
            out = os.path.join(scratch.root, f"set_{sd}")
            rc, so, se = cli_subprocess(["-r", "settree", "-f", "json", "-o", out, "-q"], scratch.root, sd)
            res.case(("hashseed-set-display", sd), True)
            if os.path.exists(out):
                texts_[sd] = strip_volatile("json", open(out, encoding="utf-8").read())
        if len(set(texts_.values())) > 1:
            a_, b_ = list(texts_.values())[:2]
            i_ = next((j for j in range(min(len(a_), len(b_))) if a_[j] != b_[j]), 0)
            res.violation("two runs over the same inputs produced different machine-readable reports (a message quoting a set / dict display: fixed defect C08-set-display-quoted-in-message is back?)",
                          {"program": open(os.path.join(stree, "perm.py")).read(), "a": a_[max(0, i_ - 200):i_ + 200], "b": b_[max(0, i_ - 200):i_ + 200]})
        for t_ in texts_.values():
            m_ = re.search(r"object at 0x[0-9a-fA-F]+", t_)
            if m_:
                res.violation("a report contains a memory address", {"program": open(os.path.join(stree, "perm.py")).read(), "excerpt": t_[max(0, m_.start() - 150):m_.end() + 20]})
                break
        # ---------------- (3a') display sweep: every call of bandit's own examples, with each positional argument and keyword value in turn replaced by a set / dict
        #      display — bare, and nested in a list / tuple / dict value — scanned under two hash seeds: messages that quote an argument must quote the same text
        #      (found on the unchanged tree after 044ca88: B103 still quoted a display NESTED in a list or tuple)
        import ast as _ast
        DISPLAYS = ['{"alpha", "beta", "gamma", "delta"}', '[{"alpha", "beta", "gamma"}]', '({"k": "v"},)', '[[{"s1", "s2", "s3", "s4"}]]', '{"k": {"a", "b", "c"}}', '(1, [{"x": {"p", "q", "r"}}])']
        sweep_dir = os.path.join(scratch.root, "display_sweep"); os.makedirs(sweep_dir)
        ex_files = sorted(f for f in os.listdir(os.path.join(C.REPO, "examples")) if f.endswith(".py"))
        n_stmt = 0
        budget = 20000 if thorough else 2500
        rng.shuffle(ex_files)
        for ef in ex_files:
            try:
                tree_ = _ast.parse(open(os.path.join(C.REPO, "examples", ef), "rb").read())
            except Exception:
                continue
            imports_ = [_ast.unparse(n) for n in tree_.body if isinstance(n, (_ast.Import, _ast.ImportFrom)) and not (isinstance(n, _ast.ImportFrom) and n.module == "__future__")]
            stmts_ = []
            seen_ = set()
            for n in _ast.walk(tree_):
                if not isinstance(n, _ast.Call):
                    continue
                try:
                    fsrc = _ast.unparse(n.func)
                except Exception:
                    continue
                if len(fsrc) > 60:
                    continue
                args_ = [_ast.unparse(a) for a in n.args if not isinstance(a, _ast.Starred)]
                kws_ = [(k.arg, _ast.unparse(k.value)) for k in n.keywords if k.arg]
                sig = (fsrc, len(args_), tuple(k for k, _ in kws_))
                if sig in seen_:
                    continue
                seen_.add(sig)
                for i in range(len(args_) + len(kws_)):
                    for dsp in (DISPLAYS if thorough else rng.sample(DISPLAYS, 2)):
                        a2 = list(args_); k2 = list(kws_)
                        if i < len(a2):
                            a2[i] = dsp
                        else:
                            k2[i - len(a2)] = (k2[i - len(a2)][0], dsp)
                        stmts_.append("%s(%s)" % (fsrc, ", ".join(a2 + ["%s=%s" % kv for kv in k2])))
            if stmts_ and n_stmt < budget:
                stmts_ = stmts_[:budget - n_stmt]
                n_stmt += len(stmts_)
                body_ = "\n".join(imports_) + "\n" + "\n".join(stmts_) + "\n"
                try:
                    _ast.parse(body_)
                except SyntaxError:
                    continue
                open(os.path.join(sweep_dir, "sw_" + ef), "w").write(body_)
        sw = {}
        for sd in (1, 2):
            out = os.path.join(scratch.root, f"sweep_{sd}.json")
            rc, so, se = cli_subprocess(["-r", "display_sweep", "-f", "json", "-o", out, "-q"], scratch.root, sd)
            res.case(("hashseed-display-sweep", sd), True)
            if os.path.exists(out):
                try:
                    sw[sd] = sorted((os.path.basename(x["filename"]), x["line_number"], x["test_id"], x["issue_text"]) for x in json.loads(open(out, encoding="utf-8").read())["results"])
                except Exception:
                    sw[sd] = None
        res.count("display-sweep-statements", n_stmt)
        if len(sw) == 2 and sw[1] is not None and sw[2] is not None:
            res.count("display-sweep-findings", len(sw[1]))
            diff_ = [(a, b) for a, b in zip(sw[1], sw[2]) if a != b]
            if diff_ or len(sw[1]) != len(sw[2]):
                a, b = diff_[0] if diff_ else (sw[1][-1], sw[2][-1])
                try:
                    line_ = open(os.path.join(sweep_dir, a[0])).read().split("\n")[a[1] - 1]
                except Exception:
                    line_ = None
                res.violation("two runs over the same inputs differ in a message that quotes an argument (a set / dict display nested in the argument): the text depends on the hash seed "
                              "or on node addresses", {"statement": line_, "seed_1": list(a), "seed_2": list(b), "differing_findings": len(diff_)})
            else:
                for a in sw[1]:
                    if re.search(r"object at 0x[0-9a-fA-F]+", a[3]):
                        res.violation("a message contains a memory address", {"finding": list(a)})
                        break
        else:
            res.violation("no report produced for the display sweep", {"have": sorted(sw)})
        # ---------------- (3b) several reports written in ONE process: what an earlier report contained must not show in a later one (seeded change C08-m7 kept SARIF
        #      rule descriptors — whose precision / tags come from the first finding of the rule — in a module-level cache across reports)
        pairs_ = [("cur.execute('SELECT a FROM t WHERE b = %s' % x)\nq = 'DELETE FROM t WHERE c = ' + y\n", "q = 'SELECT a FROM t WHERE b = %s' % x\ncur.execute('UPDATE t SET c = ' + y)\n"),
                  ("import subprocess\nsubprocess.Popen('ls -l', shell=True)\nsubprocess.Popen(cmd, shell=True)\n", "import subprocess\nsubprocess.Popen(cmd, shell=True)\nsubprocess.Popen('ls', shell=True)\n"),
                  ("import hashlib\nhashlib.md5(b)\nhashlib.new('md4')\npassword = 'x'\n", "import hashlib\nhashlib.new('sha1')\ntoken = 'y'\n")]
        rdir = os.path.join(scratch.root, "reports_seq"); os.makedirs(rdir)
        seq_files = []
        for k, (a, b) in enumerate(pairs_):
            for nm, body in ((f"s{k}_first.py", a), (f"s{k}_second.py", b)):
                open(os.path.join(rdir, nm), "w").write(body)
                seq_files.append(os.path.join(rdir, nm))

        def report_of(path, fmt):
            import linecache
            linecache.clearcache()
            m = b_manager.BanditManager(b_config.BanditConfig(), "file")
            m.discover_files([path]); m.run_tests(); C.take_log()
            outp = os.path.join(scratch.root, "seq_report.out")
            m.output_results(3, "LOW", "LOW", open(outp, "w", encoding="utf-8"), fmt)
            return strip_volatile(fmt, open(outp, encoding="utf-8").read())
        avail = FORMATS
        try:
            import sarif_om, jschema_to_python  # noqa: F401
        except ImportError:
            avail = [f for f in FORMATS if f != "sarif"]
        def pristine_report(job):
            p_, fmt_ = job
            outp = os.path.join(scratch.root, "pristine_%s_%s" % (os.path.basename(p_), fmt_))
            rc, so, se = cli_subprocess(["-f", fmt_, "-o", outp, "-q", p_], rdir, 0)
            return job, (strip_volatile(fmt_, open(outp, encoding="utf-8").read()) if os.path.exists(outp) else None)
        with ThreadPoolExecutor(8) as ex:
            pristine_reports = dict(ex.map(pristine_report, [(p_, f_) for p_ in seq_files for f_ in avail]))
        for fmt in avail:
            for order_label, order in (("as-listed", seq_files), ("reversed", list(reversed(seq_files)))):
                for p in order:
                    got = report_of(p, fmt)
                    want = pristine_reports[(p, fmt)]
                    res.case(("reports-in-one-process", fmt, order_label, os.path.basename(p)), True)
                    res.count("report-sequence:" + fmt)
                    if want is None:
                        res.break_("pristine-report-failed", {"file": os.path.basename(p), "format": fmt})
                    elif got != want:
                        i = next((j for j in range(min(len(got), len(want))) if got[j] != want[j]), 0)
                        res.violation("the report of one file depends on which reports were written earlier in the same process (it differs from the report a fresh interpreter writes)",
                                      {"format": fmt, "file": os.path.basename(p), "program": open(p).read(), "reports_written_before": [os.path.basename(x) for x in order[:order.index(p)]],
                                       "first_difference_at": i, "in_this_process": got[max(0, i - 150):i + 150], "fresh_interpreter": want[max(0, i - 150):i + 150]})
        # ---------------- (3c) seeded histories: versions of files written, scanners constructed with different selections / settings, several reports per scanner
        hist_mod.run(res, ctx, C, scratch, rng, 30 if thorough else 12, 8, sarif=("sarif" in avail))
        # ---------------- (4) directory-entry order
        for order in ("asc", "desc"):
            droot = os.path.join(scratch.root, "ord_" + order); os.makedirs(droot)
            names = [f"m{i:02d}.py" for i in range(12)]
            for nme in (names if order == "asc" else names[::-1]):
                open(os.path.join(droot, nme), "w").write(sources[int(nme[1:3]) % len(sources)])
        reps = []
        for order in ("asc", "desc"):
            r = C.run_cli(["-r", "ord_" + order, "-f", "json", "-q"], cwd=scratch.root)
            res.case(("dirorder", order), True)
            reps.append(strip_volatile("json", r["out"]).replace("ord_" + order, "ord"))
        if len(set(reps)) != 1:
            res.violation("report depends on directory enumeration order", {"a": reps[0][:600], "b": reps[1][:600]})
    finally:
        scratch.close()
        if d is not None:
            d.close()
