"""C09 — every report format renders the same findings, safely encoded.

Scenarios (small trees of generated source files whose findings carry literal text from a
metacharacter alphabet, hostile file names, single/multi-line ranges, a file-level finding and a
skipped file) are scanned by real bandit; every machine-readable format is produced through
`BanditManager.output_results`, parsed back with an independent parser, and

  (spec)  the decoded records (id, file, line, severity, confidence, message) are compared with the
          manager's reported set and therefore with each other; skipped files, grouping, escaping
          (HTML: the parse of the real report must equal the parse of the ideally escaped report);
  (corr)  bandit's own encoders are compared with the Lean model through the driver
          (abstract Doc per format, concrete HTML blocks, SARIF region arithmetic, get_code, custom
          template expansion, html_escape).
"""
import base64, csv, html, html.parser, io, json, linecache, os, re, shutil, tempfile, urllib.parse
import xml.etree.ElementTree as ET

import common as C

LEVEL = "proof"
RANK = ["UNDEFINED", "LOW", "MEDIUM", "HIGH"]
FORMATS = ["json", "yaml", "csv", "xml", "sarif", "html", "custom"]
SIX_TEMPLATE = "{test_id}\x1f{abspath}\x1f{line}\x1f{severity}\x1f{confidence}\x1f{msg}\x1e"
MARK = "<script>MARK</script>"

# literal texts that end up (quoted) in B105's message
LITS = [
    MARK, "<b>&amp;</b>", "a&lt;b&", "a < b > c", "q\"q'q", "c,d;e", "n\nl", "r\rl", "rn\r\nl", "t\tt",
    "]]>", "<![CDATA[x]]>", "{}{0}{msg}{{", "%s%d%(x)s%", "nb\u00a0sp", "emoji\U0001F600\U0001F4A9x", "cmbe\u0301\u0323",
    "nel\u0085ls\u2028ps\u2029", "\ufeffbom", "---\n- a: b\n...", "': '\"", "\\n\\t\\", "# x", "&#x27;&#60;", "<!-- c -->",
    "plain", "", " lead trail ", "\u202eRTL", "-->", "</pre></div>", "'\"><img src=x onerror=alert(1)>",
]
# long texts: lines beyond every serialiser's preferred width, line breaks followed by indented long lines, blanks around line breaks (seeded change C09-m16 dumped YAML
# strings in the folded style, whose writer breaks a line that starts with a blank at a space beyond column 80: the text no longer round-trips)
LITS += ["\n    " + "correct horse battery staple " * 4, "word " * 40, "a" * 100 + " " + "b" * 100, "first\n  " + "x y " * 30 + "\nlast", "\n\n  lead" + " w" * 50,
         "trail " * 20 + "\n", "tab\t" * 30, " " + "lead blank then long " * 6 + "\n " + "second line also long " * 6, "k: v " * 25 + "\n- item " * 12]
# characters XML 1.0 cannot represent
LITS_XMLBAD = ["z\x00z", "ff\x0cx", "\x1b[31mred", "\ufffe\uffff", "\x01\x02\x7f"]

NAMES = ["plain.py", "with space.py", "q'uo\"te.py", "\u00fcn\u00ef\U0001F600.py", "a<b>&c.py", "semi;com,ma.py",
         "{brace}%s.py", "amp&lt;.py", "<script>MARK<.py", "nl\nname.py", "tab\tname.py", "#hash?.py", "]]>.py"]
NAMES_XMLBAD = ["ctl\x01name.py"]


def is_xml_char(ch):
    o = ord(ch)
    return o in (9, 10, 13) or 0x20 <= o <= 0xD7FF or 0xE000 <= o <= 0xFFFD or 0x10000 <= o <= 0x10FFFF


def py_lit(s, rng):
    """a Python string literal denoting s; sometimes with the characters raw in the source"""
    raw_ok = all(ch not in "\n\r\0\\\"" and ch != "\x0c" and (ord(ch) >= 32 or ch == "\t") for ch in s)
    if raw_ok and rng.random() < 0.6:
        return '"' + s + '"'
    return ascii(s)


# ----------------------------------------------------------------------------- scenarios
def prog_b105(lit_src):
    return "password = %s\n" % lit_src


def prog_b105_multiline(lit_src, pad):
    return "password = (\n" + "    # pad\n" * pad + "    %s\n)\nx = 1\n" % lit_src


def prog_popen_multiline(lit_src, k, trailing):
    body = "import subprocess\nsubprocess.Popen(%s,\n" % lit_src + "".join("    %d,\n" % i for i in range(k)) + "    shell=True)\n"
    return body + "".join("t%d = %d\n" % (i, i) for i in range(trailing))


def prog_pickle():
    return "import pickle\n\n\ndef f(x):\n    return pickle.loads(x)\n"


def prog_popen_high(comment):
    return "import subprocess\n\nsubprocess.Popen(cmd, shell=True)  # %s\n" % comment


def prog_sql():
    return "def q(c, x):\n    c.execute(\"SELECT * FROM t WHERE a = '%s'\" % x)\n"


def prog_assert(lit_src):
    return "\n\nassert %s\n" % lit_src


def prog_bidi():
    return "x = 1\n# bidi \u202e here\ny = 2\n"


def prog_syntax_error():
    return "def (:\n    '<script>SKIP</script>'\n"


def make_scenarios(rng, tier):
    """list of dicts: files=[(name, bytes)], agg, relative, kind"""
    out = []
    lits = LITS[:]
    rng.shuffle(lits)
    names = NAMES[:]
    rng.shuffle(names)

    def files_for(chunk, nm, with_extras, k_multi=None):
        fs = []
        for j, l in enumerate(chunk):
            src = prog_b105(py_lit(l, rng))
            if j % 3 == 1:
                src += prog_assert(py_lit(l, rng))
            if j % 4 == 2:
                src = prog_b105(py_lit(l, rng)) + prog_pickle()
            fs.append((nm[j % len(nm)] if j < len(nm) else "f%d.py" % j, src.encode("utf-8")))
        if with_extras:
            fs.append(("zz_bad_" + nm[-1], prog_syntax_error().encode()))
            fs.append(("m_bidi.py", prog_bidi().encode("utf-8")))
            fs.append(("b_sql.py", prog_sql().encode()))
            fs.append(("c_high.py", prog_popen_high("note").encode()))
        # unique names
        seen, res = set(), []
        for n, b in fs:
            while n in seen:
                n = "x" + n
            seen.add(n)
            res.append((n, b))
        return res

    # A: clean scenarios (every format must be perfect except the HTML known region)
    size = 5
    chunks = [lits[i:i + size] for i in range(0, len(lits), size)]
    for ci, ch in enumerate(chunks):
        nm = names[(ci * 3) % len(names):] + names[:(ci * 3) % len(names)]
        out.append(dict(kind="alphabet", files=files_for(ch, nm[:size + 1], True), agg="vuln" if ci % 2 else "file", relative=(ci % 3 == 2)))
    # A2: names that START with a character spreadsheets treat as a formula (`=`, `+`, `-`, `@`) or that CONTAIN a percent-escape: they are file names, to be carried
    #     unaltered by every format — relative spellings, where the name itself comes first (seeded changes C09-m11: the CSV writer prefixed such cells with an
    #     apostrophe; C09-m12: the SARIF uri left `%` unescaped, so `My%20Script.py` decoded to another name)
    special = ["@vendor.py", "-old.py", "=cmd.py", "+plus.py", "My%20Script.py", "caf%C3%A9.py", "100%.py", "%41.py"]
    import diffhints
    special += [n for n in diffhints.file_names(C.REPO) if n not in special][:12]      # names built from literals of changed lines (none on the recorded tree)
    for ci in range(2):
        out.append(dict(kind="alphabet", files=[(nm, (prog_b105("'pw%d'" % i) + prog_pickle()).encode()) for i, nm in enumerate(special[ci::2])] +
                        [("zz_bad%20name.py", prog_syntax_error().encode())], agg="vuln" if ci else "file", relative=True))
    out.append(dict(kind="alphabet", files=[("@vendor/mod.py", (prog_b105("'pw1'") + prog_pickle()).encode()), ("-old/util.py", prog_b105("'pw2'").encode()),
                                            ("=x/a.py", prog_pickle().encode()), ("+y/b%41.py", prog_b105("'pw3'").encode()), ("@vendor/bad%20.py", prog_syntax_error().encode())],
                    dirs=["@vendor", "-old", "=x", "+y"], agg="file", relative=True))
    # B: benign text + benign names: nothing may be attributed to any known finding
    out.append(dict(kind="benign", files=[("a.py", (prog_b105("'pw1'") + prog_pickle()).encode()), ("b.py", prog_sql().encode()),
                                          ("c.py", prog_popen_high("c").encode()), ("d.py", prog_b105("'pw2'").encode()),
                                          ("e_bad.py", prog_syntax_error().replace("<script>SKIP</script>", "s").encode())],
                    agg="vuln", relative=False))
    out.append(dict(kind="benign", files=[("z.py", prog_b105("'pw1'").encode()), ("a.py", (prog_sql() + prog_b105("'pw3'") + prog_pickle()).encode()),
                                          ("m.py", (prog_pickle() + prog_b105("'pw0'")).encode())], agg="file", relative=True))
    # C: multi-line ranges reported on a later line (SARIF region)
    for k, trailing in ([(0, 2), (1, 0), (1, 3), (3, 0), (3, 1), (3, 6)] if tier == "quick" else [(k, t) for k in (0, 1, 2, 3, 5) for t in (0, 1, 2, 3, 6)]):
        out.append(dict(kind="multiline", files=[("ml.py", prog_popen_multiline("'ls'", k, trailing).encode())], agg="file", relative=False))
    for pad in (0, 1, 2, 4):
        out.append(dict(kind="multiline", files=[("pw.py", prog_b105_multiline(py_lit(rng.choice(lits), rng), pad).encode("utf-8")),
                                                 ("ok.py", prog_pickle().encode())], agg="file", relative=False))
    # D: characters XML cannot represent
    for l in LITS_XMLBAD:
        out.append(dict(kind="xmlbad", files=[("x.py", prog_b105(ascii(l)).encode()), ("y.py", prog_pickle().encode())], agg="file", relative=False))
    out.append(dict(kind="xmlbad", files=[(NAMES_XMLBAD[0], prog_b105("'pw'").encode())], agg="file", relative=False))
    # E: nothing reported / nothing scanned
    out.append(dict(kind="empty", files=[("ok.py", b"x = 1\n"), ("bad.py", prog_syntax_error().encode())], agg="file", relative=False))
    out.append(dict(kind="empty", files=[("ok.py", b"x = 1\n")], agg="vuln", relative=False))
    # F: bandit's own example corpus (every plugin's message shape), in chunks so that one crashing report does not hide the rest
    exdir = os.path.join(C.REPO, "examples")
    ex = sorted(f for f in os.listdir(exdir) if f.endswith(".py") and os.path.getsize(os.path.join(exdir, f)) < 30000) if os.path.isdir(exdir) else []
    rng.shuffle(ex)
    chunks_ex = [ex[i:i + 8] for i in range(0, len(ex), 8)]
    for ci, chn in enumerate(chunks_ex if tier == "thorough" else chunks_ex[:3]):
        fs = []
        for f in chn:
            with open(os.path.join(exdir, f), "rb") as g:
                fs.append((f, g.read()))
        out.append(dict(kind="examples", files=fs, agg="vuln" if ci % 2 else "file", relative=(ci % 3 == 1)))
    if tier == "thorough":
        # every literal x every name, one finding per file
        for i, l in enumerate(LITS):
            nm = NAMES[i % len(NAMES)]
            out.append(dict(kind="alphabet", files=[(nm, (prog_b105(py_lit(l, rng)) + prog_assert(py_lit(l, rng))).encode("utf-8")),
                                                    ("zz_bad.py", prog_syntax_error().encode())],
                            agg="file" if i % 2 else "vuln", relative=(i % 4 == 0)))
        for r in range(12):
            ch = [rng.choice(LITS) + rng.choice(LITS) for _ in range(4)]
            nm = [rng.choice(NAMES) for _ in range(5)]
            out.append(dict(kind="alphabet", files=files_for(ch, nm, r % 2 == 0), agg=rng.choice(["file", "vuln"]), relative=rng.random() < 0.3))
    return out


def combos_for(sc, tier, rng):
    """(fmt, n, sev, conf, template) to produce for a scenario"""
    ns = [0, 1, 3, 10]
    out = []
    for fmt in FORMATS:
        tpl = SIX_TEMPLATE if fmt == "custom" else None
        for n in (ns if fmt in ("json", "yaml", "html") else [3]):
            out.append((fmt, n, "LOW", "LOW", tpl))
        ths = [(s, c) for s in RANK[1:] for c in RANK[1:] if (s, c) != ("LOW", "LOW")]
        if tier == "quick":
            ths = rng.sample(ths, 2) if sc["kind"] in ("alphabet", "benign", "examples") else []
        for s, c in ths:
            out.append((fmt, 3, s, c, tpl))
    if sc["kind"] in ("alphabet", "benign"):
        for t in user_templates(rng, 3 if tier == "quick" else 10):
            out.append(("custom", 3, "LOW", "LOW", t))
    return out


TAGS = ["abspath", "relpath", "line", "col", "end_col", "test_id", "severity", "msg", "confidence", "range", "cwe"]


def user_templates(rng, k):
    """templates of the modelled fragment: literal text (with doubled braces and metacharacters),
    known tags, unknown tags"""
    pieces_lit = ["", " ", ":", "|", "<td>", "&", "\t", "{{", "}}", "{{x}}", "%s", "\\n", ",", "\"", "\u00e9\U0001F600", "[bandit]"]
    out = ["{msg}", None, "{severity}/{confidence} {test_id} {relpath}:{line}:{col}-{end_col} {range} {cwe} {msg}",
           "{unknown}{msg}{{literal}}", "{sev}|{severity}|{line_}|{line}"]
    while len(out) < k + 5:
        t = ""
        for _ in range(rng.randint(1, 7)):
            t += rng.choice(pieces_lit)
            r = rng.random()
            if r < 0.6:
                t += "{" + rng.choice(TAGS) + "}"
            elif r < 0.75:
                t += "{" + rng.choice(["foo", "mesg", "Line", "test id", "x-y", "sev"]) + "}"
        if "{" in t.replace("{{", ""):
            out.append(t)
    rng.shuffle(out)
    # (integer-only specifications such as `{col:03d}` are rejected by bandit's own template validation, which substitutes strings: not judged here)
    # format specifications and conversions on known tags (outside the modelled fragment: judged against Python's own str.format; found by
    # tools/mutation — the `!` marker of the re-assembled template could be altered without any check noticing)
    SPEC = ["{line:>6}|{severity!s:<8}|{test_id:^7}|{msg!r}", "{col!s:0>3}:{line!s:>4} {msg!a}", "{severity!r}{{{confidence:.3}}}", "{relpath!s:>40.40}|{range!s}"]
    # the line and the column are NUMBERS: zero padding, sign and integer presentation types mean what they mean for an int (seeded change C09-m15 wrapped every value
    # in str(): `{line:04}` wrote line 5 as `5000`, `{line:d}` produced no report); bandit validates a template with line=0 and strings for every other tag, so integer
    # presentation types are accepted on `line` only
    NUM = ["{line:04}|{col:03}|{test_id}", "{line:d}:{col} {severity}", "{line:+}/{line:,}/{line:<4}|{msg}", "{test_id} {line:05d}"]
    return out[:k] + ["{severity}|{msg}"] + ([rng.choice(SPEC), rng.choice(NUM)] if k < 5 else SPEC + NUM)


# ----------------------------------------------------------------------------- running real bandit
def rank_ok(i, sev, conf):
    return RANK.index(i["sev"]) >= RANK.index(sev) and RANK.index(i["conf"]) >= RANK.index(conf)


def scan(sc, root):
    """materialise, scan with the real manager; returns (mgr, issues(list of dict in manager order), skips, cwd_to_restore)"""
    from bandit.core import config as b_config, manager as b_manager, docs_utils
    d = os.path.join(root, "t")
    os.makedirs(d)
    paths = []
    for name, data in sc["files"]:
        p = os.path.join(d, name)
        os.makedirs(os.path.dirname(p), exist_ok=True)
        with open(p, "wb") as f:
            f.write(data)
        paths.append(name if sc["relative"] else p)
    if sc.get("dirs"):
        paths = list(sc["dirs"])          # walked directory targets, spelled relative to the working directory: the reported names start with the directory's name
    linecache.clearcache()
    C.take_log()
    if sc["relative"]:
        os.chdir(d)
    mgr = b_manager.BanditManager(b_config.BanditConfig(), sc["agg"])
    mgr.discover_files(paths, bool(sc.get("dirs")))
    mgr.run_tests()
    C.take_log()
    issues = []
    for r in mgr.results:
        fl = linecache.getlines(r.fname)
        issues.append(dict(test_id=r.test_id, test_name=r.test, fname=r.fname, sev=r.severity, conf=r.confidence, text=r.text,
                           lineno=r.lineno, range=list(r.linerange), col=r.col_offset, end_col=r.end_col_offset,
                           cwe_id=r.cwe.id, cwe_link=r.cwe.link(), url=docs_utils.get_url(r.test_id),
                           abspath=os.path.abspath(r.fname), relpath=os.path.relpath(r.fname), file=list(fl)))
    skips = [[a.decode("utf-8") if isinstance(a, bytes) else a, b] for a, b in mgr.skipped]
    return mgr, issues, skips


def produce(mgr, outdir, fmt, n, sev, conf, tpl):
    """returns (bytes or None, error string or None)"""
    p = os.path.join(outdir, "report." + fmt)
    f = open(p, "w", encoding="utf-8")
    err = None
    try:
        try:
            if fmt == "custom":
                mgr.output_results(n, sev, conf, f, fmt, tpl)
            else:
                mgr.output_results(n, sev, conf, f, fmt)
        except SystemExit as e:
            err = "exit%s" % e.code
        except Exception as e:  # RuntimeError wrapping whatever the formatter raised
            err = "%s: %s" % (type(e).__name__, e)
    finally:
        try:
            f.close()
        except Exception:
            pass
        C.take_log()
    if err is not None:
        return None, err
    with open(p, "rb") as g:
        return g.read(), None


# ----------------------------------------------------------------------------- decoders (independent parsers)
class Malformed(Exception):
    pass


def six(i):
    return (i["test_id"], i["fname"], i["lineno"], i["sev"], i["conf"], i["text"])


def dec_json_like(obj):
    try:
        recs = [(r["test_id"], r["filename"], r["line_number"], r["issue_severity"], r["issue_confidence"], r["issue_text"]) for r in obj["results"]]
        skipped = [[e["filename"], e["reason"]] for e in obj["errors"]]
        codes = [r.get("code") for r in obj["results"]]
    except (KeyError, TypeError) as e:
        raise Malformed("missing key %s" % e)
    return recs, skipped, codes


def dec_json(b):
    try:
        return dec_json_like(json.loads(b.decode("utf-8")))
    except ValueError as e:
        raise Malformed("json: %s" % e)


def dec_yaml(b):
    import yaml
    try:
        obj = yaml.safe_load(b.decode("utf-8"))
    except Exception as e:
        raise Malformed("yaml: %s" % e)
    return dec_json_like(obj)


def dec_csv(b):
    txt = b.decode("utf-8")
    rd = csv.reader(io.StringIO(txt, newline=""), strict=True)
    try:
        rows = list(rd)
    except csv.Error as e:
        raise Malformed("csv: %s" % e)
    if not rows:
        raise Malformed("csv: no header")
    hdr = rows[0]
    recs = []
    for r in rows[1:]:
        if len(r) != len(hdr):
            raise Malformed("csv: row with %d cells under a %d-column header" % (len(r), len(hdr)))
        d = dict(zip(hdr, r))
        try:
            recs.append((d["test_id"], d["filename"], int(d["line_number"]), d["issue_severity"], d["issue_confidence"], d["issue_text"]))
        except (KeyError, ValueError) as e:
            raise Malformed("csv: %s" % e)
    return recs, None, None


XML_HEAD = re.compile(r"\ATest ID: (\S+) Severity: (\S+) Confidence: (\S+)\n")


def dec_xml(b):
    try:
        root = ET.fromstring(b)
    except ET.ParseError as e:
        raise Malformed("xml: %s" % e)
    recs = []
    cases = list(root)
    if root.tag != "testsuite" or root.get("tests") != str(len(cases)):
        raise Malformed("xml: testsuite/tests count")
    for tc in cases:
        errs = list(tc)
        if tc.tag != "testcase" or len(errs) != 1 or errs[0].tag != "error":
            raise Malformed("xml: testcase shape")
        e = errs[0]
        body = e.text or ""
        m = XML_HEAD.match(body)
        m2 = re.search(r":(\d+)\Z", body)
        if not m or not m2 or e.get("message") is None or tc.get("classname") is None:
            raise Malformed("xml: error text shape")
        recs.append((m.group(1), tc.get("classname"), int(m2.group(1)), e.get("type"), m.group(3), e.get("message")))
        if m.group(2) != e.get("type"):
            raise Malformed("xml: severity in text and in attribute differ")
    return recs, None, None


def uri_to_path(u):
    if u.startswith("file://"):
        return urllib.parse.unquote(urllib.parse.urlparse(u).path)
    return urllib.parse.unquote(u)


def dec_sarif(b):
    try:
        o = json.loads(b.decode("utf-8"))
    except ValueError as e:
        raise Malformed("sarif json: %s" % e)
    try:
        if o["version"] != "2.1.0" or not isinstance(o["$schema"], str) or len(o["runs"]) != 1:
            raise Malformed("sarif: version/schema/runs")
        run = o["runs"][0]
        drv = run["tool"]["driver"]
        if not isinstance(drv["name"], str):
            raise Malformed("sarif: driver.name")
        rules = drv.get("rules", [])
        recs, regions = [], []
        for r in run.get("results", []):
            loc = r["locations"]
            if len(loc) != 1:
                raise Malformed("sarif: locations")
            pl = loc[0]["physicalLocation"]
            reg = pl["region"]
            for k in ("startLine", "endLine", "startColumn", "endColumn"):
                if not isinstance(reg[k], int):
                    raise Malformed("sarif: region.%s" % k)
            if reg["startLine"] < 1 or reg["startColumn"] < 1:
                raise Malformed("sarif: region numbers must be >= 1")
            if not (0 <= r["ruleIndex"] < len(rules)) or rules[r["ruleIndex"]]["id"] != r["ruleId"]:
                raise Malformed("sarif: ruleIndex does not point at ruleId")
            if r.get("level", "warning") not in ("error", "warning", "note", "none"):   # "warning" is the default and is omitted
                raise Malformed("sarif: level")
            # the severity is carried twice in a SARIF result: as properties.issue_severity and as the standard `level` consumers act on; the two must
            # tell the same story (found by tools/mutation: negating the LOW branch of level_from_severity survived)
            want_level = {"HIGH": "error", "MEDIUM": "warning", "LOW": "note"}.get(r["properties"]["issue_severity"], "warning")
            if r.get("level", "warning") != want_level:
                raise Malformed("sarif: level %r does not render severity %r" % (r.get("level", "warning"), r["properties"]["issue_severity"]))
            recs.append((r["ruleId"], uri_to_path(pl["artifactLocation"]["uri"]), reg["startLine"],
                         r["properties"]["issue_severity"], r["properties"]["issue_confidence"], r["message"]["text"]))
            regions.append(dict(startLine=reg["startLine"], endLine=reg["endLine"], startColumn=reg["startColumn"], endColumn=reg["endColumn"],
                                snippet=(reg.get("snippet") or {}).get("text"),
                                context=(dict(startLine=pl["contextRegion"]["startLine"], endLine=pl["contextRegion"]["endLine"],
                                              text=pl["contextRegion"]["snippet"]["text"]) if "contextRegion" in pl else None)))
        skipped = []
        for n in run["invocations"][0].get("toolConfigurationNotifications", []):
            skipped.append([uri_to_path(n["locations"][0]["physicalLocation"]["artifactLocation"]["uri"]), n["message"]["text"]])
    except (KeyError, TypeError, IndexError) as e:
        raise Malformed("sarif: missing %s" % e)
    return recs, skipped, regions


def dec_custom_six(b):
    txt = b.decode("utf-8")
    if txt == "":
        return [], None, None
    if not txt.endswith("\x1e\n"):
        raise Malformed("custom: record terminator")
    recs = []
    for chunk in txt[:-2].split("\x1e\n"):
        f = chunk.split("\x1f")
        if len(f) != 6:
            raise Malformed("custom: %d fields" % len(f))
        try:
            recs.append((f[0], f[1], int(f[2]), f[3], f[4], f[5]))
        except ValueError as e:
            raise Malformed("custom: %s" % e)
    return recs, None, None


class HtmlEvents(html.parser.HTMLParser):
    def __init__(self):
        super().__init__(convert_charrefs=True)
        self.ev = [["start-of-document", "", [], ""]]

    def handle_starttag(self, tag, attrs):
        self.ev.append(["s", tag, [list(a) for a in attrs], ""])

    def handle_startendtag(self, tag, attrs):
        self.ev.append(["se", tag, [list(a) for a in attrs], ""])

    def handle_endtag(self, tag):
        self.ev.append(["e", tag, [], ""])

    def handle_data(self, data):
        self.ev[-1][3] += data

    def handle_comment(self, data):
        self.ev.append(["comment", data, [], ""])

    def handle_decl(self, decl):
        self.ev.append(["decl", decl, [], ""])

    def handle_pi(self, data):
        self.ev.append(["pi", data, [], ""])

    def unknown_decl(self, data):
        self.ev.append(["unknown-decl", data, [], ""])


def html_events(text):
    p = HtmlEvents()
    p.feed(text)
    p.close()
    return p.ev


_TPL = None


def html_templates():
    global _TPL
    if _TPL is None:
        import translate_c09
        _TPL = translate_c09._templates(C.REPO)[0]
        for k in ("header_block", "report_block", "metrics_block"):
            if k not in _TPL:
                raise RuntimeError("html.py: template %s not found" % k)
    return _TPL


def ideal_html(mgr, exp, skips, n, real_issue_objs):
    """the report as the property wants it: bandit's own templates, every interpolated value html-escaped"""
    T = html_templates()
    esc = lambda s: html.escape(str(s), quote=True)

    class _Cwe:
        pass
    results = ""
    for k, (i, obj) in enumerate(zip(exp, real_issue_objs)):
        code = esc(obj.get_code(n, True).strip("\n").lstrip(" "))
        cwe = _Cwe()
        cwe.id = i["cwe_id"]
        results += T["issue_block"].format(
            issue_no=k, issue_class="issue-sev-" + i["sev"].lower(), test_name=esc(i["test_name"]), test_id=esc(i["test_id"]),
            test_text=esc(i["text"]), severity=esc(i["sev"]), confidence=esc(i["conf"]), cwe=cwe, cwe_link=esc(i["cwe_link"]),
            path=esc(i["fname"]), code=T["code_block"].format(code=code), candidates="", url=esc(i["url"]), line_number=i["lineno"])
    sk = "".join("%s <b>reason:</b> %s<br>" % (esc(a), esc(b)) for a, b in skips)
    sk = T["skipped_block"].format(files_list=sk) if sk else ""
    met = T["metrics_block"].format(loc=mgr.metrics.data["_totals"]["loc"], nosec=mgr.metrics.data["_totals"]["nosec"])
    return T["header_block"] + T["report_block"].format(metrics=met, skipped=sk, results=results)


# ----------------------------------------------------------------------------- checks
def stable_sorted_ok(recs_keys, exp_keys_in_manager_order):
    """recs sorted by key, and within equal keys in manager order (recs/exp are lists of (key, six))"""
    keys = [k for k, _ in recs_keys]
    if any(keys[j] > keys[j + 1] for j in range(len(keys) - 1)):
        return "records are not ordered by the grouping key"
    for k in set(keys):
        if [s for kk, s in recs_keys if kk == k] != [s for kk, s in exp_keys_in_manager_order if kk == k]:
            return "records of one group are not in scan order (unstable or lost)"
    return None


def replay_of(sc, combo, extra=None):
    fmt, n, sev, conf, tpl = combo
    d = dict(files=[[nm, base64.b64encode(b).decode()] for nm, b in sc["files"]], agg=sc["agg"], relative=sc["relative"], kind=sc["kind"],
             fmt=fmt, n=n, sev=sev, conf=conf, template=tpl,
             how="write the files into an empty directory, BanditManager(BanditConfig(), agg).discover_files(files); run_tests(); "
                 "output_results(n, sev, conf, open(out,'w'), fmt[, template]) and parse the report")
    if extra:
        d.update(extra)
    return d


def model_issue(i):
    return {k: i[k] for k in ("test_id", "test_name", "fname", "sev", "conf", "text", "lineno", "range", "col", "end_col",
                              "cwe_id", "cwe_link", "url", "abspath", "relpath", "file")}


def jsonable(s):
    try:
        json.dumps(s).encode("utf-8")
        return True
    except (UnicodeEncodeError, ValueError):
        return False


def oracle_custom(tpl, issues):
    """independent reading of what a custom template means: known `{tag}` -> value, unknown `{tag}` -> the bare
    name (what bandit documents as 'will be skipped'), `{{`/`}}` -> literal braces, one line per finding"""
    vals = lambda i: dict(abspath=i["abspath"], relpath=i["relpath"], line=i["lineno"], col=i["col"], end_col=i["end_col"],
                          test_id=i["test_id"], severity=i["sev"], msg=i["text"], confidence=i["conf"], range=i["range"],
                          cwe=("CWE-%d (%s)" % (i["cwe_id"], i["cwe_link"]) if i["cwe_id"] else ""))
    out = ""
    for i in issues:
        v = vals(i)
        line = re.sub(r"\{\{|\}\}|\{([^{}]*)\}",
                      lambda m: "{" if m.group(0) == "{{" else "}" if m.group(0) == "}}" else (str(v[m.group(1)]) if m.group(1) in v else m.group(1)),
                      tpl)
        out += line + "\n"
    return out


def oracle_custom_spec(tpl, issues):
    """templates with conversions / format specifications on KNOWN tags: the meaning is Python's str.format"""
    out = ""
    for i in issues:
        v = dict(abspath=i["abspath"], relpath=i["relpath"], line=i["lineno"], col=i["col"], end_col=i["end_col"], test_id=i["test_id"], severity=i["sev"], msg=i["text"],
                 confidence=i["conf"], range=i["range"], cwe=("CWE-%d (%s)" % (i["cwe_id"], i["cwe_link"]) if i["cwe_id"] else ""))
        out += tpl.format(**v) + "\n"
    return out


def check_combo(res, drv, sc, mgr, issues, skips, outdir, combo, sid):
    fmt, n, sev, conf, tpl = combo
    exp = [i for i in issues if rank_ok(i, sev, conf)]
    exp_objs = [o for o, i in zip(mgr.results, issues) if rank_ok(i, sev, conf)]
    exp6 = [six(i) for i in exp]
    data, err = produce(mgr, outdir, fmt, n, sev, conf, tpl)
    key = (sid, fmt, n, sev, conf, tpl)
    res.case(key, nontrivial=bool(exp) or bool(skips),
             sample=dict(scenario=sc["kind"], fmt=fmt, n=n, sev=sev, conf=conf, findings=len(exp), skipped=len(skips),
                         first_text=exp[0]["text"][:60] if exp else None, first_file=os.path.basename(exp[0]["fname"]) if exp else None)
             if (sid * 7 + FORMATS.index(fmt)) % 41 == 0 else None)
    res.count("fmt:" + fmt)
    res.count("scenario:" + sc["kind"])
    res.count("threshold:%s/%s" % (sev, conf))
    res.count("n:%d" % n)
    res.count("agg:" + sc["agg"])
    res.count("findings-in-report:%s" % ("0" if not exp else "1-3" if len(exp) <= 3 else "4+"))
    viol = lambda what, **extra: res.violation("%s report: %s" % (fmt, what), replay_of(sc, combo, extra))
    mi = [model_issue(i) for i in exp]
    model_ok = drv is not None and all(jsonable(x) for x in mi)

    # ---------------- custom with a user template: expansion only
    if fmt == "custom" and tpl != SIX_TEMPLATE:
        eff = tpl if tpl is not None else "{abspath}:{line}: {test_id}[bandit]: {severity}: {msg}"
        spec = re.search(r"\{[a-z_]+[!:]", eff.replace("{{", "")) is not None
        want = oracle_custom(eff, exp) if not spec else oracle_custom_spec(eff, exp)
        got = data.decode("utf-8") if data is not None else None
        if spec:
            res.count("custom-template-with-format-spec")
            model_ok = False
        if got != want:
            viol("template expansion differs from the documented meaning of the template", template=tpl, want=want[:400], got=(got or err)[:400] if (got or err) else None)
        if model_ok:
            m = drv.ask({"op": "fmt_custom", "template": eff, "issues": mi})
            res.count("corr:custom-template")
            mv = m.get("ok") if "ok" in m else None
            if "error" in m or (mv != got and not (err and "err" in m)):
                res.break_("correspondence", {"what": "custom template expansion", "template": tpl, "model": m, "real": got if got is not None else err})
        return

    # ---------------- the report must exist
    if data is None:
        viol("no report was produced (%s)" % err, error=err)
        if fmt == "sarif" and model_ok:
            m = drv.ask({"op": "fmt_sarif_regions", "issues": mi})
            if isinstance(m, list) and not any("err" in x for x in m):
                res.break_("correspondence", {"what": "SARIF report crashed but the model renders every region", "error": err})
        return

    # ---------------- decode
    dec = dict(json=dec_json, yaml=dec_yaml, csv=dec_csv, xml=dec_xml, sarif=dec_sarif, custom=dec_custom_six).get(fmt)
    recs = skipped = aux = None
    if fmt == "html":
        return check_html(res, drv, sc, combo, mgr, exp, exp_objs, skips, data, mi, model_ok, viol)
    try:
        recs, skipped, aux = dec(data)
    except Malformed as e:
        if fmt == "xml":
            bad = [ch for i in exp for ch in i["text"] + i["fname"] if not is_xml_char(ch)]
            if bad:
                # the ONLY problem must be those characters: replace them in the produced bytes and parse again
                txt = data.decode("utf-8", errors="surrogateescape")
                clean = "".join(ch if is_xml_char(ch) else "?" for ch in txt).encode("utf-8", errors="surrogateescape")
                try:
                    recs2, _, _ = dec_xml(clean)
                    san = lambda s: "".join(ch if is_xml_char(ch) else "?" for ch in s)
                    if recs2 == [(a, san(b), c, d, e2, san(f)) for a, b, c, d, e2, f in exp6]:
                        res.known_finding("C09-xml-control-chars")
                        return
                except Malformed:
                    pass
        viol("not well-formed: %s" % e, parse_error=str(e))
        return

    # ---------------- one record per finding, six fields unaltered
    if fmt in ("json", "yaml"):
        keyf = (lambda s, i: i["test_name"]) if sc["agg"] == "vuln" else (lambda s, i: i["fname"])
        name_of = {}
        for i in exp:
            name_of.setdefault(six(i), i)
        try:
            got_keys = [(keyf(r, name_of[r]), r) for r in recs]
        except KeyError:
            got_keys = None
        exp_keys = [(keyf(None, i), six(i)) for i in exp]
        if got_keys is None or sorted(map(repr, recs)) != sorted(map(repr, exp6)):
            viol("records differ from the reported findings", want=exp6[:8], got=recs[:8])
        else:
            why = stable_sorted_ok(got_keys, exp_keys)
            if why:
                viol(why + " (aggregation by %s)" % sc["agg"], got_order=[k for k, _ in got_keys])
        order = recs
    else:
        order = exp6
        if fmt == "custom":
            exp_c = [(a, os.path.abspath(b), c, d, e, f) for a, b, c, d, e, f in exp6]
            if recs != exp_c:
                viol("records differ from the reported findings", want=exp_c[:8], got=recs[:8])
        elif fmt == "sarif":
            exp_s = [(a, os.path.normpath(b), c, d, e, f) for a, b, c, d, e, f in exp6]
            got_s = [(a, os.path.normpath(b), c, d, e, f) for a, b, c, d, e, f in recs]
            if len(got_s) != len(exp_s):
                viol("records differ from the reported findings", want=exp_s[:8], got=got_s[:8])
            else:
                for i, w, g in zip(exp, exp_s, got_s):
                    if w == g:
                        continue
                    if w[:2] + w[3:] == g[:2] + g[3:] and i["range"] and i["lineno"] != i["range"][0] and g[2] == i["range"][0]:
                        res.known_finding("C09-sarif-line-is-range-start")
                    else:
                        viol("a record differs from the reported finding", want=w, got=g)
        else:
            if recs != exp6:
                viol("records differ from the reported findings", want=exp6[:8], got=recs[:8])

    # ---------------- skipped files
    if fmt in ("json", "yaml", "sarif"):
        want_sk = [[os.path.normpath(a), b] for a, b in skips] if fmt == "sarif" else skips
        got_sk = [[os.path.normpath(a), b] for a, b in skipped] if fmt == "sarif" else skipped
        if got_sk != want_sk:
            viol("skipped files are not listed", want=want_sk, got=got_sk)

    # ---------------- format specific: excerpts, SARIF regions
    if fmt in ("json", "yaml") and aux is not None:
        for r, code in zip(recs, aux):
            i = name_of.get(r)
            if i is None or code is None:
                continue
            c = code.replace("\\n", "\n") if fmt == "yaml" else code
            why = excerpt_ok(c, i["file"], " ")
            if why and not (fmt == "yaml" and "\\n" in "".join(i["file"])):
                viol("code excerpt: " + why, code=code[:300])
    if fmt == "sarif":
        for i, reg in zip(exp, aux):
            neg = bool(i["range"]) and i["range"][0] < max(1, i["lineno"] - 1)
            if reg["snippet"] is not None:
                want_line = i["file"][reg["startLine"] - 1] if 0 < reg["startLine"] <= len(i["file"]) else None
                if reg["snippet"] != want_line:
                    # (was the known finding C09-sarif-negative-snippet-index until /repo fix bd86973: a negative index quoted an unrelated line)
                    viol("region.snippet is not the source line at region.startLine", region=reg, want=want_line)
            if neg:
                res.count("sarif:range-start-above-excerpt")
        if model_ok:
            m = drv.ask({"op": "fmt_sarif_regions", "issues": mi})
            res.count("corr:sarif-regions")
            mm = [x.get("ok") for x in m] if isinstance(m, list) else None
            if mm != aux:
                res.break_("correspondence", {"what": "SARIF region/contextRegion", "model": mm, "real": aux, "scenario": sc["kind"]})

    # ---------------- correspondence: abstract Doc of the model vs decoded report
    if model_ok and fmt != "custom":
        req = {"op": "fmt_doc", "fmt": fmt, "agg": sc["agg"], "n": n, "issues": mi, "skips": skips}
        m = drv.ask(req)
        res.count("corr:doc-" + fmt)
        if "records" not in m:
            res.break_("correspondence", {"what": "model Doc", "fmt": fmt, "model": m})
        else:
            def leaf(rec, o):
                return [v for oo, _, v in rec if oo == o]
            mrec = []
            for rec in m["records"]:
                try:
                    mrec.append((leaf(rec, "test_id")[0], leaf(rec, "file")[0], int(leaf(rec, "line")[0]), leaf(rec, "sev")[0], leaf(rec, "conf")[0], leaf(rec, "text")[0]))
                except (IndexError, ValueError):
                    mrec.append(None)
            norm = (lambda r: (r[0], os.path.normpath(r[1])) + tuple(r[2:])) if fmt == "sarif" else (lambda r: r)
            if [norm(r) for r in recs] != [norm(r) if r else None for r in mrec]:
                res.break_("correspondence", {"what": "model Doc records differ from the decoded report", "fmt": fmt, "model": mrec[:6], "real": recs[:6]})
            msk = m["skipped"]
            if (msk is None) != (skipped is None):
                res.break_("correspondence", {"what": "model Doc skipped section", "fmt": fmt})
            if fmt in ("json", "yaml") and aux is not None:
                mcodes = [leaf(rec, "code")[0] if leaf(rec, "code") else None for rec in m["records"]]
                if mcodes != aux:
                    res.break_("correspondence", {"what": "get_code excerpt", "fmt": fmt, "n": n, "model": mcodes[:3], "real": aux[:3]})
    if model_ok and fmt == "custom":
        m = drv.ask({"op": "fmt_custom", "template": tpl, "issues": mi})
        res.count("corr:custom-six")
        if m.get("ok") != data.decode("utf-8"):
            res.break_("correspondence", {"what": "custom (six-field template)", "model": str(m)[:300], "real": data.decode("utf-8")[:300]})


def excerpt_ok(code, file_lines, sep):
    """every excerpt line is '<ln><sep><source line ln>' for consecutive ln (window size is C10's business)"""
    if code == "":
        return None
    pos, prev = 0, None
    while pos < len(code):
        m = re.compile(r"(\d+)" + re.escape(sep)).match(code, pos)
        if not m:
            return "line without '<number>%s' prefix" % sep
        ln = int(m.group(1))
        if prev is not None and ln != prev + 1:
            return "line numbers are not consecutive"
        if not (1 <= ln <= len(file_lines)):
            return "line number outside the file"
        src = file_lines[ln - 1]
        if not code.startswith(src, m.end()):
            return "excerpt text differs from source line %d" % ln
        pos = m.end() + len(src)
        prev = ln
    return None


def check_html(res, drv, sc, combo, mgr, exp, exp_objs, skips, data, mi, model_ok, viol):
    fmt, n, sev, conf, tpl = combo
    try:
        text = data.decode("utf-8")
    except UnicodeDecodeError as e:
        viol("not valid UTF-8: %s" % e)
        return
    want = ideal_html(mgr, exp, skips, n, exp_objs)
    ev_real, ev_want = html_events(text), html_events(want)
    injected = [s for s in ("<script>MARK", "<script>SKIP", "<img src=x") if s in text]
    bad = None
    if ev_real != ev_want:
        k = next((j for j in range(min(len(ev_real), len(ev_want))) if ev_real[j] != ev_want[j]), min(len(ev_real), len(ev_want)))
        bad = dict(first_difference_at_event=k, real=ev_real[k] if k < len(ev_real) else None, want=ev_want[k] if k < len(ev_want) else None)
    elif injected:
        bad = dict(raw_marker=injected)
    cur = fixed = None
    which = None
    if model_ok:
        req = {"op": "fmt_html", "n": n, "issues": mi, "skips": skips}
        cur = drv.ask(dict(req, html_cfg="current"))
        fixed = drv.ask(dict(req, html_cfg="fixed"))
        res.count("corr:html-blocks")

        def inside(m):
            return m.get("results") is not None and m.get("skipped") is not None and m["results"] in text and m["skipped"] in text and \
                (m["results"] != "" or not exp) and (m["skipped"] != "" or not skips)
        if inside(cur):
            which = "current"
        if inside(fixed) and (which is None or cur == fixed):
            which = "fixed" if which is None else "both"
        if which is None:
            res.break_("correspondence", {"what": "HTML results/skipped blocks differ from the model (neither the current nor the fixed escaping placement)",
                                          "scenario": sc["kind"], "n": n, "model_current": (cur.get("results") or "")[:300]})
        elif which == "fixed":
            note = "html: the implementation matches the FIXED model (known finding C09-html-unescaped no longer reproduces)"
            if note not in res.notes:
                res.notes.append(note)
    if bad is None:
        return
    # attribute to the known finding only if (i) the implementation equals the current model and (ii) the
    # current model with escaping switched on for text/path/skipped (nothing else changed) passes the oracle
    if which == "current":
        spliced = text
        if cur["results"]:
            spliced = spliced.replace(cur["results"], fixed["results"], 1)
        if cur["skipped"]:
            spliced = spliced.replace(cur["skipped"], fixed["skipped"], 1)
        hot = any(ch in s for i in exp for s in (i["text"], i["fname"]) for ch in "<>&\"") or any(ch in a + b for a, b in skips for ch in "<>&\"")
        if hot and html_events(spliced) == ev_want and not any(s in spliced for s in ("<script>MARK", "<script>SKIP", "<img src=x")):
            res.known_finding("C09-html-unescaped")
            return
    viol("markup is not the ideally escaped report (source text unescaped or altered)", **bad)


# ----------------------------------------------------------------------------- unit-level correspondence of the encoders
def check_html_escape(res, drv, rng, k):
    alphabet = "<>&\"'ax;#27lgtmpqo \n\u00e9\U0001F600&&<<"
    reqs, strs = [], []
    for s in ["", "&amp;", "&#x27;", "&lt;script&gt;", "<>&\"'", "&&amp;;", "&#x27", "a&b<c>d\"e'f"] + \
            ["".join(rng.choice(alphabet) for _ in range(rng.randint(0, 12))) for _ in range(k)]:
        strs.append(s)
        reqs.append({"op": "fmt_html_escape", "s": s})
    outs = drv.ask_many(reqs)
    for s, o in zip(strs, outs):
        res.case(("html_escape", s), True)
        res.count("unit:html_escape")
        py = html.escape(s, quote=True)
        if o.get("esc") != py or not o.get("roundtrip"):
            res.break_("correspondence", {"what": "html.escape", "s": s, "model": o, "python": py})
        if html.unescape(py) != s:
            res.violation("html.escape does not round-trip through html.unescape", {"s": s})
        bad = [c for c in "<>\"'" if c in py]
        if bad:
            res.violation("html.escape leaves markup characters", {"s": s})


def surrogate_probe(res, root):
    """observation only (arguable reading): a lone surrogate in a string literal"""
    sc = dict(kind="probe", files=[("s.py", b"password = '\\ud800'\n")], agg="file", relative=False)
    d = os.path.join(root, "probe")
    os.makedirs(d)
    mgr, issues, skips = scan(sc, d)
    out = os.path.join(d, "o")
    os.makedirs(out)
    failed = []
    for fmt in FORMATS:
        data, err = produce(mgr, out, fmt, 3, "LOW", "LOW", None)
        if err:
            failed.append(fmt)
    if failed:
        res.notes.append("observation (not a finding; lone surrogates are not characters): a string literal containing a lone surrogate "
                         "makes Issue.as_dict()/the file writer raise UnicodeEncodeError in formats %s" % ",".join(failed))


def template_probe(res, root):
    """observation only: conversion + format spec are re-composed in the wrong order"""
    sc = dict(kind="probe", files=[("s.py", b"password = 'pw'\n")], agg="file", relative=False)
    d = os.path.join(root, "probe2")
    os.makedirs(d)
    mgr, issues, skips = scan(sc, d)
    out = os.path.join(d, "o")
    os.makedirs(out)
    data, err = produce(mgr, out, "custom", 3, "LOW", "LOW", "{msg!r:>40}")
    if err:
        res.notes.append("observation (outside the modelled template fragment): the valid template '{msg!r:>40}' passes validation and then fails with "
                         + err[:120] + " (custom.py re-composes fields as {name:spec!conv})")
    res.notes.append("observation (narrow reading taken): CSV, XML and custom reports have no section for skipped files; "
                     "the spec demands the skipped list only of JSON, YAML, SARIF and HTML")


# ----------------------------------------------------------------------------- entry point
def run_scenario(res, drv, sc, sid, combos):
    root = tempfile.mkdtemp(prefix="bverif_c09_")
    cwd = os.getcwd()
    try:
        mgr, issues, skips = scan(sc, root)
        outdir = os.path.join(root, "out")
        os.makedirs(outdir)
        # sanity of the scenario itself (not a verdict): the generator's expectation about what is found
        for combo in combos:
            check_combo(res, drv, sc, mgr, issues, skips, outdir, combo, sid)
        return issues, skips
    finally:
        os.chdir(cwd)
        shutil.rmtree(root, ignore_errors=True)
        linecache.clearcache()


def _run_props(res, ctx):
    res.rule = ("scenario (generated source tree: B105/B101 findings quoting literals from the metacharacter alphabet, hostile file names, "
                "multi-line ranges reported on a later line, file-level B613, skipped syntax-error file, mixed severities/confidences) "
                "x format (json,yaml,csv,xml,sarif,html,custom) x context lines {0,1,3,10} x thresholds x aggregation (file|vuln) x user templates; "
                "a case is one produced report; it is non-trivial when it contains at least one finding or skipped file")
    drv = C.Driver() if ctx.get("driver_ok", True) and os.path.exists(C.DRIVER) else None
    if drv is None:
        res.break_("driver", "Lean driver not available: correspondence not checked")
    try:
        if ctx.get("replay"):
            rp = ctx["replay"]["replay"]
            if "files" not in rp:
                res.notes.append("replay file carries no scenario")
                return
            sc = dict(kind=rp.get("kind", "replay"), files=[(n, base64.b64decode(b)) for n, b in rp["files"]], agg=rp["agg"], relative=rp["relative"])
            run_scenario(res, drv, sc, 0, [(rp["fmt"], rp["n"], rp["sev"], rp["conf"], rp["template"])])
            return
        rng = C.rng_for(res.seed, "C09")
        scs = make_scenarios(rng, res.tier)
        tot_findings = 0
        for sid, sc in enumerate(scs):
            issues, skips = run_scenario(res, drv, sc, sid, combos_for(sc, res.tier, rng))
            tot_findings += len(issues)
            for i in issues:
                res.count("finding:" + i["test_id"])
                res.count("range:" + ("single" if len(i["range"]) <= 1 else "multi-first" if i["lineno"] == i["range"][0] else "multi-later"))
            # generator self-check: scenarios must produce what they were built for
            if sc["kind"] in ("alphabet", "multiline", "xmlbad", "benign", "examples") and not issues:
                res.break_("generator", {"what": "scenario produced no finding", "kind": sc["kind"], "files": [n for n, _ in sc["files"]]})
        if drv is not None:
            check_html_escape(res, drv, rng, 300 if res.tier == "quick" else 3000)
        root = tempfile.mkdtemp(prefix="bverif_c09_")
        cwd = os.getcwd()
        try:
            surrogate_probe(res, root)
            template_probe(res, root)
        finally:
            os.chdir(cwd)
            shutil.rmtree(root, ignore_errors=True)
        res.extra["scenarios"] = len(scs)
        res.extra["findings_total"] = tot_findings
        res.exhaustive = False
    finally:
        if drv is not None:
            drv.close()


def stdout_reports_many_files(res):
    """A report written to STANDARD OUTPUT is the report and nothing else, also for a scan of more files than the progress display's threshold (found on the unchanged
    tree: with more than 50 files and the default log level rich's progress line `Working... 100%` was printed to standard output in front of the JSON / YAML / XML /
    CSV / SARIF report, which then no longer parsed; repaired by /repo a30efef)."""
    import tempfile, shutil
    d = tempfile.mkdtemp(prefix="bverif_c09many_")
    try:
        for i in range(57):
            with open(os.path.join(d, "m%02d.py" % i), "w") as fh:
                fh.write("import pickle\n" if i % 2 else "x = %d\nassert x\n" % i)
        for fmt in ("json", "yaml", "xml", "csv", "sarif"):
            for extra in ([], ["-v"]):
                import subprocess, sys
                pr = subprocess.run([sys.executable, "-c", "import sys; sys.path[:0]=%r; from bandit.cli.main import main; main()" % ([os.environ["PYTHONPATH"].split(os.pathsep)[0], C.REPO],),
                                     "-r", d, "-f", fmt] + extra, capture_output=True, timeout=300)          # a real pipe on standard output
                r = {"out": pr.stdout.decode("utf-8", "replace"), "exit": pr.returncode, "exc": None if pr.returncode in (0, 1) else "exit %d: %s" % (pr.returncode, pr.stderr.decode("utf-8", "replace")[-200:])}
                res.case(("stdout-report-many-files", fmt, bool(extra)), True)
                res.count("stdout-reports-many-files")
                ok, why = True, None
                try:
                    if fmt == "json":
                        n = len(json.loads(r["out"])["results"])
                    elif fmt == "sarif":
                        n = len(json.loads(r["out"])["runs"][0]["results"])
                    elif fmt == "yaml":
                        import yaml
                        n = len(yaml.safe_load(r["out"])["results"])
                    elif fmt == "xml":
                        n = len(ET.fromstring(r["out"]).findall("testcase"))
                    else:
                        rows = list(csv.reader(io.StringIO(r["out"])))
                        n = len(rows) - 1
                        if rows and rows[0][:1] != ["filename"]:
                            raise ValueError("first row is not the header: %r" % rows[0][:2])
                    if n != 57:
                        ok, why = False, "%d records for 57 findings" % n
                except Exception as e:
                    ok, why = False, "%s: %s" % (type(e).__name__, str(e)[:120])
                if not ok or r["exc"] is not None:
                    res.violation("%s report written to standard output is not well-formed for a scan of 57 files" % fmt,
                                  {"argv": ["-r", "<dir with 57 files>", "-f", fmt] + extra, "problem": why, "stdout_head": r["out"][:200], "exit": r["exit"], "exc": r["exc"]})
    finally:
        shutil.rmtree(d, ignore_errors=True)


def odd_environment_reports(res):
    """(a) a scanned file whose NAME is not valid UTF-8: the YAML report is produced, parses, and carries the records and the file name the JSON report carries (seeded
    change C09-m17 switched to the libyaml C emitter, which cannot write the lone surrogates os.fsdecode puts into such a name: no report).  (b) a report written to a
    standard output that is not UTF-8 (PYTHONIOENCODING=latin-1): the XML report, decoded as it declares, carries the message the JSON report carries (seeded change
    C09-m18 wrote XML through the text stream, whose error handler turned every character outside latin-1 into a literal backslash escape)."""
    import subprocess, sys, tempfile, shutil
    d = tempfile.mkdtemp(prefix="bverif_c09env_")
    boot = "import sys; sys.path[:0]=%r; from bandit.cli.main import main; main()" % ([os.environ["PYTHONPATH"].split(os.pathsep)[0], C.REPO],)
    try:
        bad = os.path.join(os.fsencode(d), b"caf\xe9_latin1.py")
        with open(bad, "wb") as fh:
            fh.write(b"import pickle\npassword = 'pw'\n")
        outs = {}
        for fmt in ("json", "yaml"):
            outp = os.path.join(d, "r." + fmt)
            pr = subprocess.run([sys.executable, "-c", boot, "-r", d, "-f", fmt, "-o", outp, "-q"], capture_output=True, timeout=300)
            try:
                text = open(outp, encoding="utf-8").read()
                if fmt == "json":
                    data = json.loads(text)
                else:
                    import yaml
                    data = yaml.safe_load(text)
                outs[fmt] = sorted((x["filename"], x["test_id"], x["line_number"], x["issue_text"]) for x in data["results"])
            except Exception as e:
                outs[fmt] = "no report: %s: %s | exit %s %s" % (type(e).__name__, str(e)[:100], pr.returncode, pr.stderr.decode("utf-8", "replace")[-160:])
        res.case(("undecodable-file-name", "yaml-vs-json"), True)
        res.count("odd-environment-reports")
        if not isinstance(outs["json"], list) or outs["yaml"] != outs["json"] or len(outs["json"]) != 2:
            res.violation("yaml report for a file whose name is not valid UTF-8: missing, malformed or different from the JSON report",
                          {"file_name_bytes": "caf\\xe9_latin1.py", "json": outs["json"] if not isinstance(outs["json"], list) else [list(x) for x in outs["json"]],
                           "yaml": outs["yaml"] if not isinstance(outs["yaml"], list) else [list(x) for x in outs["yaml"]]})
        os.remove(bad)
        prog = os.path.join(d, "euro.py")
        with open(prog, "w", encoding="utf-8") as fh:
            fh.write("password = 's\u20accret-\u30d1\u30b9-\U0001f511'\ntoken = 'caf\u00e9'\n")
        msgs = {}
        for fmt in ("json", "xml"):
            pr = subprocess.run([sys.executable, "-c", boot, "-f", fmt, "-q", prog], capture_output=True, timeout=300, env=dict(os.environ, PYTHONIOENCODING="latin-1"))
            try:
                if fmt == "json":
                    msgs[fmt] = sorted(x["issue_text"] for x in json.loads(pr.stdout.decode("latin-1"))["results"])
                else:
                    msgs[fmt] = sorted(t.find("error").get("message") for t in ET.fromstring(pr.stdout).findall("testcase"))
            except Exception as e:
                msgs[fmt] = "no report: %s: %s | exit %s" % (type(e).__name__, str(e)[:100], pr.returncode)
        res.case(("latin-1-stdout", "xml-vs-json"), True)
        res.count("odd-environment-reports")
        if not isinstance(msgs["json"], list) or msgs["xml"] != msgs["json"] or len(msgs["json"]) != 2:
            res.violation("XML report on a latin-1 standard output does not carry the messages the JSON report carries", {"program": open(prog, encoding="utf-8").read(), "json": msgs["json"], "xml": msgs["xml"]})
    finally:
        shutil.rmtree(d, ignore_errors=True)


def run(res, ctx):
    import clirel
    _run_props(res, ctx)
    if not ctx.get("replay"):
        stdout_reports_many_files(res)
        odd_environment_reports(res)
    # relations between runs of the command-line tool that differ in one kind of option (harness/clirel.py): the relations this property owns
    clirel.family(res, ctx, C, "C09", 150, 900)
