"""C10 — reported locations and excerpts point at the flagged code."""
import ast, io, os, tokenize
import common as C
import metamorph
import progs

LEVEL = "proof"
BIDI_CHARS = "\u202a\u202b\u202c\u202d\u202e\u2066\u2067\u2068\u2069\u200f"

MULTILINE = [
    "import subprocess\nresult = subprocess.Popen(\n    cmd,\n    shell=True,\n)\n",
    "import pickle\ndata = pickle.loads(\n    blob\n)\nother = 1\n",
    "def connect(host,\n            password='hunter2',\n            bind='0.0.0.0'):\n    return host\n",
    "cfg = {\n    'password': 'x',\n    'dir': '/tmp/x',\n}\n",
    "import requests\nr = requests.get(url,\n                 verify=False)\n",
    "try:\n    work()\nexcept Exception:\n    pass\nassert done, (\n    'message'\n)\n",
    "query = ('SELECT * FROM t '\n         'WHERE id = %s' % uid)\ncur.execute(query)\n",
    "class K:\n    def m(self):\n        exec(\n            code)\n",
    "import os\nos.chmod(\n    '/etc/passwd',\n    0o777)\nos.system('ls'\n          ' -l')\n",
    "s = '''multi\nline string /tmp/x\n'''\npassword = 'pw'\n",
    # decorated definitions: the node is positioned at `def`, the decorators precede it (seeded change C10-m4 moved the reported line to the first decorator)
    "import functools\n\n@functools.wraps(f)\n@other\ndef login(user,\n          password='hunter2'):\n    return user\n",
    "import ssl\nclass K:\n    @staticmethod\n    def connect(host, version=ssl.PROTOCOL_SSLv3,\n                token='tok'):\n        pass\n\n    @property\n    def p(self, password='x'): return 1\n",
    "@decorate(\n    option=1,\n)\nasync def handler(request, secret='s3cret'):\n    try:\n        pass\n    except Exception:\n        pass\n",
    # a dict-item secret whose value starts on a later line than the key (seeded change C10-m5 reported the value's line with the key's range)
    "cfg['password'] = (\n    'hunter2')\nd['token'] = \\\n    'tok'\nconf['secret'] = \\\n    (\n        's3cret'\n    )\n",
    # nosec comments on a later line of a bracketed construct: inserting an ORDINARY comment line inside the brackets, above the marker, changes nothing
    # (seeded change C10-m6: the first commented line of the range decided, so an ordinary comment shadowed the marker)
    # the flagged call is the LAST link of a chain broken across lines: its node starts where the chain starts (seeded change C10-m17 let the range of such a call begin
    # at the line of the attribute name: the reported line fell outside its own range)
    "import tarfile\nimport requests\n\n\ndef unpack(path, dest):\n    tarfile.open(\n        path,\n    ).extractall(dest)\n\n\nr = (requests\n     .get(url, verify=False))\n",
    "import subprocess\nout = subprocess.Popen(\n    cmd,\n    shell=True,\n).communicate(\n    pickle.loads(b))\nimport pickle\nv = (yaml\n     .load(\n         s))\nimport yaml\n",
    "import hashlib\nh = hashlib.md5(\n    data,\n    more,\n)  # nosec\nx = 1\n",
    "import subprocess\nsubprocess.Popen('ls *',\n                 env=e,\n                 shell=True\n                 )  # nosec B602, B607\nsubprocess.call(c,\n    shell=True)  # nosec B604\n",
]


def unpositioned_parent_programs(rng, n):
    """Flagged literals whose parent node has no position of its own (`arguments`, `comprehension`, `withitem`, `match_case`): the range then comes
    from the neighbouring positioned nodes.  Multi-line parameter lists with defaults in every parameter class and order, where the LAST child in
    field order (last positional default, **kwarg, last kw-only default) ends above or below the flagged one (seeded change C10-m7 took
    `first child .lineno .. last child .end_lineno`)."""
    FLAG = ["'0.0.0.0'", "'/tmp/x.sock'", "'/var/tmp/y'", "'hunter2'"]
    PLAIN = ["8080", "None", "(1,\n        2)", "dict(\n        a=1)", "3.5", "b'x'"]
    out = []
    for _ in range(n):
        k = rng.randrange(6)
        if k <= 2:
            names = ["host", "password", "token", "bind", "scratch", "retries", "secret", "path"]
            rng.shuffle(names)
            n_pos, n_args, n_kw = rng.randint(0, 2), rng.randint(1, 3), rng.randint(0, 3)
            parts = []
            need_default = False
            def param(nm, force):
                nonlocal need_default
                if force or need_default or rng.random() < 0.7:
                    need_default = True
                    return f"{nm}={rng.choice(FLAG + PLAIN)}"
                return nm
            pos = [param(names.pop(), False) for _ in range(n_pos)]
            args = [param(names.pop(), False) for _ in range(n_args)]
            parts += pos + (["/"] if pos else []) + args
            if n_kw:
                parts.append(rng.choice(["*", "*rest"]))
                parts += [f"{names.pop()}={rng.choice(FLAG + PLAIN)}" if rng.random() < 0.8 else names.pop() for _ in range(n_kw)]
            if rng.random() < 0.5:
                parts.append("**extra")
            sep = ",\n        "
            head = rng.choice(["def serve(", "async def serve(", "class K:\n    def serve(self, "])
            ind = "        " if head.startswith("class") else "    "
            out.append(f"{head}{sep.join(parts)}):\n{ind}return 1\n")
        elif k == 3:
            a, b = rng.choice(FLAG + PLAIN), rng.choice(FLAG)
            out.append(f"handler = lambda host={a},\\\n    *, bind={b},\\\n    **kw: host\n")
        elif k == 4:
            out.append(f"rows = [x\n        for x in\n        {rng.choice(FLAG)}\n        if x !=\n        {rng.choice(FLAG)}\n        if ok(x)]\n")
        else:
            out.append(f"with open(\n        {rng.choice(FLAG)}) as fh, \\\n     lock({rng.choice(FLAG)},\n          1) as lk:\n    pass\nmatch cmd:\n    case {rng.choice(FLAG)} | \\\n         'other':\n        go()\n")
    return out


def safe_insert_points(src: str):
    """1-based line numbers L such that inserting whole lines BEFORE line L keeps the program's meaning:
    not inside a multi-line string token, not after a backslash continuation"""
    lines = src.split("\n")
    n = len(lines) - 1 if src.endswith("\n") else len(lines)
    bad = set()
    for tok in tokenize.generate_tokens(io.StringIO(src).readline):
        if tok.type == tokenize.STRING and tok.end[0] > tok.start[0]:
            bad.update(range(tok.start[0] + 1, tok.end[0] + 1))
    for i, l in enumerate(lines[:n], 1):
        if l.rstrip().endswith("\\"):
            bad.add(i + 1)
    return [L for L in range(1, n + 2) if L not in bad]


def node_spans(src):
    """spans of all positioned nodes, and of statements separately"""
    spans, stmts = set(), set()
    for nd in ast.walk(ast.parse(src)):
        if hasattr(nd, "lineno"):
            spans.add((nd.lineno, nd.end_lineno))
            if isinstance(nd, ast.stmt):
                stmts.add((nd.lineno, nd.end_lineno))
    return spans, stmts


def belongs_to_construct(lo, hi, line, spans, stmts):
    """the range is the span of a node, or (for unpositioned parents such as `arguments`) lies inside the
    innermost statement that contains the flagged line"""
    if (lo, hi) in spans:
        return True
    encl = [s for s in stmts if s[0] <= line <= s[1]]
    if not encl:
        return False
    a, b = min(encl, key=lambda s: s[1] - s[0])
    return a <= lo and hi <= b


def shifted(f, L, k):
    """expected image of finding f = (id, sev, conf, line, range, col) when k lines are inserted before line L"""
    def m(x):
        return x + k if x >= L else x
    rng = list(f[4])
    if not rng:        # an empty range is reported as a violation of the per-finding invariants; here it maps to itself
        return (f[0], f[1], f[2], m(f[3]), (), f[5])
    return (f[0], f[1], f[2], m(f[3]), tuple(range(m(rng[0]), m(rng[-1]) + 1)), f[5])


def _run_main(res, ctx):
    rng = C.rng_for(res.seed, "C10")
    thorough = res.tier == "thorough"
    res.rule = ("programs with multi-line constructs (10 fixed + seeded mixes of trigger statements): for every finding — line inside the file and inside its range, range contiguous, "
                "ascending and equal to the span of an AST node of the file, excerpt for every -n in {0,1,2,3,5,10} verbatim/numbered/containing the line/bounded; then for every safe insertion "
                "point (between statements and inside bracketed multi-line expressions; not inside a multi-line string, not after a backslash) x inserted text (blank, whitespace, ordinary "
                "comment) x k in {1,3}: findings of the edited program = findings of the original with every location at or below the insertion point shifted by k and ranges mapped as intervals "
                "(real bandit vs that expectation and vs the Lean model); non-trivial = distinct (program, insertion) whose original has at least one finding")
    programs = list(MULTILINE)
    # B613 findings behind characters that str.splitlines() treats as line ends but Python's parser does not (seeded change C10-m2)
    programs += ["import os\n\x0c\ndef f():\n    os.system(cmd)  # \u202e hidden\n", "s = 'a\u2028b\x0bc\x1cd\x85e'\nt = 1  # \u2067 x\nimport pickle\n",
                 "# first \u202d\nimport subprocess\nsubprocess.Popen(c,\n    shell=True)\n", "x = 1\n\x0c\n\x0c\ny = '\u2066'"]
    for _ in range(12 if thorough else 4):
        programs.append(progs.make_program(rng)[0])
    for p in unpositioned_parent_programs(rng, 60 if thorough else 14):
        try:
            ast.parse(p)
            programs.append(p)
        except SyntaxError:
            res.count("generated-invalid-dropped")
    scratch = C.Scratch()
    d = C.Driver() if ctx["driver_ok"] else None
    blids = C.blacklist_ids()
    try:
        base = C.batch_real_scan(scratch, [p.encode() for p in programs])
        from bandit.core import config as b_config, manager as b_manager
        # ---- (a)/(b) per-finding invariants and excerpts
        for pi, src in enumerate(programs):
            p = scratch.fresh("p.py", src.encode())
            mgr = b_manager.BanditManager(b_config.BanditConfig(), "file")
            mgr.discover_files([p]); mgr.run_tests(); C.take_log()
            flines = src.split("\n")
            nlines = len(flines) - 1 if src.endswith("\n") else len(flines)
            spans, stmts = node_spans(src)
            for r in mgr.results:
                res.case(("inv", pi, r.test_id, r.lineno), True)
                lr = list(r.linerange)
                probs = []
                if not lr:
                    res.violation("location / excerpt invariant broken", {"program": src, "finding": [r.test_id, r.lineno, lr, r.col_offset], "problems": ["line range is empty"]})
                    continue
                if not (1 <= r.lineno <= nlines):
                    probs.append("line outside the file")
                if r.lineno not in lr:
                    probs.append("line not in its range")
                if lr != list(range(lr[0], lr[-1] + 1)):
                    probs.append("range not a contiguous ascending run")
                if r.test_id == "B613":
                    if not (1 <= r.lineno <= nlines and any(ch in flines[r.lineno - 1] for ch in BIDI_CHARS)):
                        probs.append("flagged line holds no bidirectional control character")
                    if lr != [r.lineno]:
                        probs.append("B613 range is not the flagged line")
                elif not belongs_to_construct(lr[0], lr[-1], r.lineno, spans, stmts):
                    probs.append("range does not belong to the flagged construct")
                for n in (0, 1, 2, 3, 5, 10):
                    code = r.get_code(n)
                    got = [l for l in code.split("\n") if l != ""]
                    nums = []
                    for l in got:
                        num, _, text = l.partition(" ")
                        if not num.isdigit() or int(num) > nlines or flines[int(num) - 1] != text:
                            probs.append(f"excerpt line not verbatim/numbered (-n {n}): {l!r}")
                            break
                        nums.append(int(num))
                    if nums and nums != list(range(nums[0], nums[0] + len(nums))):
                        probs.append(f"excerpt lines not consecutive (-n {n})")
                    if r.lineno not in nums:
                        probs.append(f"excerpt does not include the flagged line (-n {n})")
                    if len(nums) > len(lr) + max(n, 1) - 1:
                        probs.append(f"excerpt longer than range + context (-n {n})")
                    res.count("excerpt-n%d" % n)
                if probs:
                    res.violation("location / excerpt invariant broken", {"program": src, "finding": [r.test_id, r.lineno, lr, r.col_offset], "problems": probs})
        # ---- (b2) the same excerpt invariants for source piped on STDIN (the excerpt is then cut from the buffered stream, not from linecache), for findings at
        #      every small distance from one another (seeded change C10-m10 kept the stream position between excerpts and rewound on the wrong test: a
        #      finding one line past the previous excerpt showed the neighbouring lines under its numbers)
        import json as _json
        gap_programs = []
        for gap in range(0, 7):
            gap_programs.append("import pickle\n" + "".join("v%d = %d\n" % (i, i) for i in range(gap)) + "obj = pickle.loads(blob)\nprint(obj)\nprint('done')\n")
            gap_programs.append("import subprocess\nimport pickle\n" + "\n" * gap + "subprocess.Popen(cmd,\n    shell=True)\n" + "\n" * (gap // 2) + "assert obj\nx = 1\ny = 2\n")
        for src in gap_programs + programs[:6]:
            flines = src.split("\n")
            nlines = len(flines) - 1 if src.endswith("\n") else len(flines)
            for n in (0, 1, 2, 3, 4, 5):          # -n 0 is a value (no surrounding lines), not "not given" (seeded change C10-m18 tested it for truth and fell back to 3)
                r = C.run_cli(["-f", "json", "-q", "-n", str(n), "-"], stdin_bytes=src.encode())
                res.case(("stdin-excerpt", src, n), True)
                res.count("stdin-excerpt-n%d" % n)
                try:
                    results = _json.loads(r["out"])["results"]
                except Exception:
                    res.violation("no JSON report for a program piped on stdin", {"program": src, "n": n, "exit": r["exit"], "exc": r["exc"]})
                    continue
                for x in results:
                    probs = []
                    nums = []
                    for l in [l for l in x["code"].split("\n") if l != ""]:
                        num, _, text = l.partition(" ")
                        if not num.isdigit() or int(num) > nlines or flines[int(num) - 1] != text:
                            probs.append(f"excerpt line not verbatim/numbered (-n {n}): {l!r}")
                            break
                        nums.append(int(num))
                    if nums and nums != list(range(nums[0], nums[0] + len(nums))):
                        probs.append(f"excerpt lines not consecutive (-n {n})")
                    if not probs and x["line_number"] not in nums:
                        probs.append(f"excerpt does not include the flagged line (-n {n})")
                    if not probs and len(nums) > len(x["line_range"]) + max(n, 1) - 1:
                        probs.append(f"excerpt has {len(nums)} lines, more than the construct's {len(x['line_range'])} plus the requested context (-n {n})")
                    if probs:
                        res.violation("location / excerpt invariant broken for source piped on stdin",
                                      {"program": src, "channel": "stdin", "finding": [x["test_id"], x["line_number"], x["line_range"]], "excerpt": x["code"], "problems": probs})
        # ---- (b3) one path, two texts, one process: the locations of the second scan are those of the second text (seeded change C10-m11 cached the line of a
        #      call's keyword per (file name, call position): after an edit that kept the call's start but moved the keyword, the old line was reported — outside the file)
        from bandit.core import config as b_config2, manager as b_manager2
        vpath = scratch.fresh("edited.py", b"")
        pairs2 = [("import subprocess\nsubprocess.Popen(cmd,\n                 env=e,\n                 cwd=d,\n                 close_fds=True,\n                 shell=True)\n",
                   "import subprocess\nsubprocess.Popen(cmd, shell=True)\nx = 1\n"),
                  ("import requests\nrequests.get(url,\n             timeout=3,\n             headers=h,\n             verify=False)\n",
                   "import requests\nrequests.get(url, verify=False,\n             timeout=3)\n"),
                  ("from flask import Flask\napp = Flask(__name__)\napp.run(host=h,\n        port=p,\n        debug=True)\n", "from flask import Flask\napp = Flask(__name__)\napp.run(debug=True)\n")]
        for v1, v2 in pairs2:
            outs = []
            for path_, text_ in ((vpath, v1), (vpath, v2), (scratch.fresh("fresh.py", b""), v2)):
                with open(path_, "w") as fh:
                    fh.write(text_)
                mgr = b_manager2.BanditManager(b_config2.BanditConfig(), "file")
                mgr.discover_files([path_]); mgr.run_tests(); C.take_log()
                outs.append(sorted((r.test_id, r.lineno, tuple(r.linerange), r.col_offset) for r in mgr.results))
            res.case(("same-path-two-texts", v1), True)
            res.count("same-path-two-texts")
            n2 = v2.count("\n")
            bad = [f for f in outs[1] if not (1 <= f[1] <= n2 and f[1] in f[2])]
            if bad or outs[1] != outs[2]:
                res.violation("locations reported for a file depend on a text the same path held earlier in the process (line outside the file / its range, or different from a fresh path)",
                              {"first_text": v1, "second_text": v2, "second_scan_same_path": [list(map(lambda x: list(x) if isinstance(x, tuple) else x, f)) for f in outs[1]],
                               "second_text_fresh_path": [list(map(lambda x: list(x) if isinstance(x, tuple) else x, f)) for f in outs[2]]})
        # ---- (c) insertions
        texts = [("blank", ""), ("whitespace", "    "), ("comment", "# an ordinary comment"), ("indented-comment", "        # note")]
        edits = []
        for pi, src in enumerate(programs):
            pts = safe_insert_points(src)
            if not thorough and len(pts) > 8:
                pts = sorted(rng.sample(pts, 8))
            for L in pts:
                for tname, text in (texts if thorough else rng.sample(texts, 2)):
                    for k in ((1, 3) if thorough else (rng.choice((1, 3)),)):
                        lines = src.split("\n")
                        new = "\n".join(lines[:L - 1] + [text] * k + lines[L - 1:])
                        edits.append((pi, L, k, tname, new))
        real = C.batch_real_scan(scratch, [e[4].encode() for e in edits])
        model = d.ask_many([C.scan_request(e[4].encode()) for e in edits]) if d is not None else None
        for i, (pi, L, k, tname, new) in enumerate(edits):
            orig = base[pi]["findings"]
            res.case((pi, L, k, tname), bool(orig), sample={"program": programs[pi], "insert_before_line": L, "k": k, "text": tname,
                                                            "original": [list(f[:5]) for f in orig], "edited": [list(f[:5]) for f in real[i]["findings"]]} if i % 97 == 0 else None)
            res.count("insert:" + tname)
            want = sorted(shifted(f, L, k) for f in C.norm_findings(orig))
            got = C.norm_findings(real[i]["findings"])
            if want != got:
                res.violation("inserting blank/comment lines changed something other than shifting later locations",
                              {"program": programs[pi], "insert_before_line": L, "k": k, "text": tname, "expected": [list(x) for x in want], "got": [list(x) for x in got]})
            if model is not None:
                if "error" in model[i]:
                    res.break_("driver-error", model[i]["error"])
                else:
                    diff = C.compare_scan(real[i], model[i], blids)
                    if diff:
                        res.break_("correspondence", {"program": new, "diff": diff})
    finally:
        scratch.close()
        if d is not None:
            d.close()


def run(res, ctx):
    _run_main(res, ctx)
    # the neighbourhood of every construct of bandit's example files (harness/metamorph.py): model vs implementation on this family's ids
    metamorph.family(res, ctx, C, None, 500, 3000, sections="none")
