"""C11 — file discovery honours includes and excludes and loses nothing.

(a) `fnmatch` correspondence: Lean `Bandit.Glob.fnmatch` vs CPython `fnmatch.fnmatch` on all short
    patterns over the metacharacter alphabet + seeded random (name, pattern) pairs.
(b) discovery correspondence: real temporary trees x working directories x target spellings x
    pattern sets from `-x` and a YAML config; the REAL `BanditManager.discover_files` (and a few
    full `bandit.cli.main.main()` runs) vs the Lean model (`discover` driver op, tree sent as JSON).
(c) spec oracle, evaluated on the implementation's output (independent Python transcription of
    `Bandit.Discovery.Spec`, cross-checked against the Lean definitions): partition, predicate,
    explicit files, no descent without -r.
"""
import fnmatch as py_fnmatch
import itertools, json, os, shutil, tempfile, warnings

import common as C

LEVEL = "proof"
KNOWN_ID = "C11-exclude-dir-in-cwd"
# frozen copy of the published default excludes (the property's "default VCS/cache directories")
PUBLISHED_DEFAULT_EXCLUDE = [".svn", "CVS", ".bzr", ".hg", ".git", "__pycache__", ".tox", ".eggs", "*.egg"]
DEFAULT_X = "<default>"
BASE = "{BASE}"


# ============================================================================ (a) fnmatch
META = list("a-]![*?b")
NAMES_SMALL = ["", "a", "b", "-", "]", "!", "[", "*", "?", "ab", "ba", "a-b", "[a]", "aa", "a]", "]a"]
RICH = list("abcxyz019-!][*?./\\\n ~&|^AZ_é,")


def py_match(name, pat):
    try:
        with warnings.catch_warnings():
            warnings.simplefilter("ignore")
            return bool(py_fnmatch.fnmatch(name, pat))
    except Exception as e:  # noqa
        return "EXC:" + type(e).__name__


def fnmatch_pairs(rng, thorough):
    pairs = []
    maxlen = 5 if thorough else 4
    for L in range(0, maxlen + 1):
        for p in itertools.product(META, repeat=L):
            pat = "".join(p)
            for name in NAMES_SMALL:
                pairs.append((name, pat))
    # ranges with ordering effects, `]` first, negation, unclosed `[`, `**`, dots, slashes, newlines
    fixed_pats = ["*", "**", "***", "*.py", "*.pyw", "?", "??", "[a-c]", "[c-a]", "[!a-c]", "[]]", "[!]]", "[]-a]", "[a-]", "[-a]",
                  "[--0]", "[a-c-e]", "[a-cx-z]", "[!]", "[", "[a", "[]", "[!", "a[", "*/tests/*", "**/*.py", "*.py*", ".*", "*.",
                  "./*", "*/", "/*", "a\nb", "*\n*", "[\n]", "[.]", "[/]", "[*]", "[?]", "[[]", "[]a]", "[^a]", "[!^a]", "[a^]",
                  "[\\]", "[\\a]", "\\", "[a-b-c]", "[a--]", "[%--]", "[z-a-z]", "[!z-a]", "[&&]", "[~~a]", "[||]", "[a-z&&[^b]]",
                  "test_*.py", "*test*", ".git", ".git/*", "*.egg", "x[1].py", "x[[]1].py", "[a-c][0-9]?*.p[yw]"]
    fixed_names = ["", "a", "b", "c", "d", "x", "-", "]", "[", "!", "^", "\\", "0", "%", "&", "~", "|", "a.py", "a.pyw", ".py", "py", "a/b.py",
                   "./a.py", "./.git/hooks/x.py", ".git", ".git/x", "a\nb", "\n", "a\n", ".", "..", "/", "a/", "x[1].py", "x1.py", "test_a.py",
                   "contest.py", "a0z.py", "b9.pw", "proj/tests/t.py", "tests/t.py", "x.egg", "p.egg/a.py", "a.py\n", "é.py", "a-b", "*", "?"]
    for p in fixed_pats:
        for n in fixed_names:
            pairs.append((n, p))
    n_rand = 60000 if thorough else 12000

    def rs(k):
        return "".join(rng.choice(RICH) for _ in range(rng.randint(0, k)))
    for _ in range(n_rand):
        pat = rs(8)
        if rng.random() < 0.5:
            # a name derived from the pattern so that matches are not rare
            name = "".join(rng.choice("abxy0-.") if ch in "*?[" else ch for ch in pat)
            if rng.random() < 0.5 and name:
                i = rng.randrange(len(name))
                name = name[:i] + rng.choice(RICH) + name[i + (rng.random() < 0.5):]
        else:
            name = rs(7)
        pairs.append((name, pat))
    return pairs


def run_fnmatch(res, ctx, rng, thorough):
    pairs = fnmatch_pairs(rng, thorough)
    res.extra["fnmatch_pairs"] = len(pairs)
    model = None
    if ctx["driver_ok"]:
        d = C.Driver()
        model = []
        for i in range(0, len(pairs), 5000):
            r = d.ask({"op": "fnmatch_many", "pairs": [list(p) for p in pairs[i:i + 5000]]})
            if "error" in r:
                res.break_("driver-error", r["error"])
                model = None
                break
            model += r["r"]
        d.close()
    n_true = 0
    bad = 0
    for i, (name, pat) in enumerate(pairs):
        r = py_match(name, pat)
        n_true += r is True
        # facts proved in Lean, re-observed on CPython (the runtime is trusted; this is a sanity tie)
        if pat == "*" and r is not True:
            res.break_("fnmatch-fact", {"name": name, "pat": pat, "python": r})
        if model is not None and model[i] != r:
            bad += 1
            if bad <= 5:
                res.break_("correspondence:fnmatch", {"name": name, "pat": pat, "python": r, "lean": model[i], "regex": safe_translate(pat)})
    res.evaluations += len(pairs)
    res.nontrivial.add("fnmatch-pairs:%d" % len(pairs))
    res.count("fnmatch:pairs", len(pairs))
    res.count("fnmatch:python-true", n_true)
    res.count("fnmatch:mismatch", bad)
    if len(res.samples) < 6:
        res.samples.append({"fnmatch": {"name": "./.git/hooks/x.py", "pat": ".git/*", "python": py_match("./.git/hooks/x.py", ".git/*")}})


def safe_translate(p):
    try:
        return py_fnmatch.translate(p)
    except Exception as e:  # noqa
        return "EXC:" + type(e).__name__


# ============================================================================ trees
DIRN = [".git", ".svn", "CVS", ".hg", ".bzr", "__pycache__", ".tox", ".eggs", "a.egg", "pkg", "tests", "test", "latest", "src", "sub",
        "sub dir", ".hidden", "mod.py", "x[1]", "dür", "build", "gen\\d", "old\\src"]     # a backslash is an ordinary character of a POSIX name (seeded change C11-m12)
FILN = ["a.py", "b.pyw", "c.txt", "test_x.py", "contest.py", ".hidden.py", "setup.cfg", "noext", "d.PY", "e.py.bak", "x.egg", "w[1].py",
        "sp ace.py", "ü.py", ".py", "py", "__init__.py", "conftest.py", "m.pyw", "cfg\\x.py", "settings.py.in"]
# names in DECOMPOSED form (as an archive made on macOS holds them), their composed twins (two different files on a normalisation-sensitive file system), compatibility
# characters: a walked path is reported under the name the file system gave (seeded change C11-m16 NFC-normalised walked paths: the file was then listed under a name
# that does not exist and skipped by the scan)
FILN += ["cafe\u0301.py", "caf\u00e9.py", "\u212b.py", "nin\u0303o.py"]
DIRN += ["re\u0301sume\u0301", "\ufb01les"]


_hinted = [False]


def gen_tree(rng, small=False):
    if not _hinted[0]:
        _hinted[0] = True
        import diffhints
        extra = diffhints.file_names(C.REPO)          # names built from literals of changed lines (none on the recorded tree)
        FILN.extend(n for n in extra[:10] if n not in FILN)
        DIRN.extend(n[:-3] for n in extra[:6] if n[:-3] not in DIRN)
    """tree = nested dict name -> node; node = "f" | {"d": {...}} | {"lf": relpath-from-link-dir} | {"dang": 1} | {"ld": [components from tree root]}"""
    root = {}
    dirs = [([], root)]          # (components, children-dict)
    for _ in range(rng.randint(1, 4 if small else 7)):
        comps, ch = rng.choice(dirs)
        if len(comps) >= 4:
            continue
        name = rng.choice(DIRN)
        if name not in ch:
            sub = {}
            ch[name] = {"d": sub}
            dirs.append((comps + [name], sub))
    files = []
    for _ in range(rng.randint(1, 5 if small else 10)):
        comps, ch = rng.choice(dirs)
        name = rng.choice(FILN)
        if name not in ch:
            ch[name] = "f"
            files.append(comps + [name])
    # make sure interesting places are populated
    for comps, ch in dirs:
        if comps and not ch and rng.random() < 0.8:
            ch[rng.choice(["a.py", "x.py", "c.txt"])] = "f"
    n_links = 0 if small else rng.choice([0, 0, 1, 2])
    # directory links: targets first, placements outside every target subtree (no cycles, targets link-free)
    targets = []
    cand = [d for d in dirs if d[0]]
    for _ in range(n_links):
        if cand and rng.random() < 0.6:
            targets.append(rng.choice(cand))

    def inside(comps, tcomps):
        return comps[:len(tcomps)] == tcomps
    for tcomps, _ in targets:
        places = [d for d in dirs if not any(inside(d[0], t[0]) for t in targets)]
        if not places:
            continue
        comps, ch = rng.choice(places)
        name = rng.choice(["lnk", "ldir", "link.py"])
        if name not in ch:
            ch[name] = {"ld": list(tcomps)}
    if not small:
        for _ in range(rng.choice([0, 0, 1, 2])):
            comps, ch = rng.choice(dirs)
            if any(inside(comps, t[0]) for t in targets):
                continue
            name = rng.choice(["lf.py", "lf.txt", "dang.py"])
            if name in ch:
                continue
            if name.startswith("dang") or not files:
                ch[name] = {"dang": 1}
            else:
                ch[name] = {"lf": rng.choice(files)}
    return root


def subtree(tree, comps):
    node = {"d": tree}
    for c in comps:
        node = node["d"][c]
    return node


def build_tree(tree, top):
    """materialise under directory `top` (which is created)"""
    os.makedirs(top, exist_ok=True)
    later = []

    def rec(ch, path, comps):
        for name, node in ch.items():
            p = os.path.join(path, name)
            if node == "f":
                with open(p, "w") as f:
                    f.write("x = 1\n")
            elif "d" in node:
                os.mkdir(p)
                rec(node["d"], p, comps + [name])
            else:
                later.append((p, path, node))
    rec(tree, top, [])
    for p, parent, node in later:
        if "dang" in node:
            os.symlink("no-such-target", p)
        elif "lf" in node:
            os.symlink(os.path.relpath(os.path.join(top, *node["lf"]), parent), p)
        else:
            os.symlink(os.path.relpath(os.path.join(top, *node["ld"]), parent), p)


def model_node(tree, node):
    if node == "f" or "dang" in node or "lf" in node:
        return 0
    if "d" in node:
        return {"l": False, "e": [[n, model_node(tree, c)] for n, c in node["d"].items()]}
    tgt = subtree(tree, node["ld"])
    m = model_node(tree, tgt)
    return {"l": True, "e": m["e"]}


def model_fs(tree, base, proj_name, extra_dirs):
    """the model's root: `/` … base … {proj_name: tree, extra…}"""
    top = {"l": False, "e": [[proj_name, model_node(tree, {"d": tree})]] + [[n, {"l": False, "e": []}] for n in extra_dirs]}
    node = top
    for c in reversed([c for c in base.split("/") if c] + ["top"]):
        node = {"l": False, "e": [[c, node]]}
    return node


# ============================================================================ spec oracle (Python transcription of Bandit.Discovery.Spec)
def name_of(path):
    return path.rsplit("/", 1)[-1]


def under_path(d, path):
    if not d:
        return False
    i = path.find(d)
    while i >= 0:
        j = i + len(d)
        if (i == 0 or path[i - 1] == "/") and (j == len(path) or path[j] == "/"):
            return True
        i = path.find(d, i + 1)
    return False


def glob_any(path, pats):
    return any(py_match(path, g) is True for g in pats)


def verdict(inc, exc, path, may=()):
    must_excl = ((not glob_any(name_of(path), inc) and not glob_any(path, inc))
                 or any(under_path(d, path) for d in exc) or glob_any(path, exc))
    if must_excl:
        return "exclude"
    allx = list(exc) + list(may)
    must_scan = (glob_any(name_of(path), inc) and glob_any(path, inc) and not glob_any(path, allx)
                 and not any(d in path for d in allx))
    return "scan" if must_scan else "either"


def explicit_must_scan(exc, t):
    return not glob_any(t, exc) and not any(d in t for d in exc)


def explicit_must_exclude(exc, t):
    return any(under_path(d, t) for d in exc) or glob_any(t, exc)


def documented_predicate(path, inc, exc, enforce=True):
    """the predicate with the patterns as the user gave them (no rewriting): include glob, exclude glob or text occurrence"""
    if enforce and not glob_any(path, inc):
        return False
    return not glob_any(path, exc) and not any(d in path for d in exc)


def explicit_spelling(t):
    return t if t == "-" else os.path.join(".", t)


# ============================================================================ cases
X_POOL = [DEFAULT_X] * 14 + ["", "tests", "test", ".git", "pkg", "pkg,latest", "./pkg", "pkg/", "pkg/sub", "proj/pkg", "src/pkg",
          "*/tests/*", "*.pyw", "test_*.py", "*test*", "*/pkg/*.py", "[a-c].py", "*.egg", "pkg/a.py", "a.py", "tests,", ",", "{BASE}/top/proj/pkg",
          "{BASE}/top/proj", "sub dir", "x[1]", "proj", ".", "./", "..", "*", "build,.tox,*.egg"]
CFG_POOL = [None, None, None, {"exclude_dirs": ["tests"]}, {"exclude_dirs": ["*/latest/*"]}, {"exclude_dirs": [".git", "pkg/sub"]},
            {"include": ["*.py"]}, {"include": ["*.py", "*.pyw", "*.txt"]}, {"include": ["test_*.py"]}, {"include": ["*"]},
            {"include": []}, {"exclude_dirs": []}, {"exclude_dirs": ["pkg"], "include": ["*.py", "*.cfg"]}, {"exclude_dirs": ["/pkg/"]},
            {"exclude_dirs": ["./tests"]}, {}]


def all_paths(tree):
    """(components, kind) of every object in the tree; kind in d f ld lf dang"""
    out = []

    def rec(ch, comps):
        for n, node in ch.items():
            if node == "f":
                out.append((comps + [n], "f"))
            elif "d" in node:
                out.append((comps + [n], "d"))
                rec(node["d"], comps + [n])
            elif "ld" in node:
                out.append((comps + [n], "ld"))
            elif "lf" in node:
                out.append((comps + [n], "lf"))
            else:
                out.append((comps + [n], "dang"))
    rec(tree, [])
    return out


def spell(rng, abs_path, cwd_abs):
    """a spelling of abs_path as seen from cwd_abs; returns (text, label)"""
    rel = os.path.relpath(abs_path, cwd_abs)
    k = rng.randrange(9)
    if k == 0:
        return rel, "relative"
    if k == 1:
        return (rel if rel.startswith(".") else "./" + rel), "dot-relative"
    if k == 2:
        return rel + "/", "trailing-slash"
    if k == 3:
        return abs_path, "absolute"
    if k == 4:
        return abs_path + "/", "absolute-trailing-slash"
    if k == 5:
        return rel.replace("/", "//", 1) if "/" in rel else "./" + rel, "double-slash"
    if k == 6:
        return "../" + os.path.basename(cwd_abs) + "/" + rel, "up-and-down"
    if k == 7:
        return rel.replace("/", "/./", 1) if "/" in rel else rel, "dot-component"
    return rel, "relative"


def gen_case(rng, tree, small=False):
    objs = all_paths(tree)
    dirs = [o for o in objs if o[1] in ("d", "ld")]
    cwd_kind = rng.choice(["root", "root", "parent", "sibling", "subdir"])
    if cwd_kind == "subdir":
        real_dirs = [o for o in objs if o[1] == "d"]
        if real_dirs:
            cwd_rel = "top/proj/" + "/".join(rng.choice(real_dirs)[0])
        else:
            cwd_kind, cwd_rel = "root", "top/proj"
    else:
        cwd_rel = {"root": "top/proj", "parent": "top", "sibling": "top/sib"}[cwd_kind]
    cwd_abs = "/B/" + cwd_rel          # symbolic base, replaced later
    targets, labels = [], []
    file_with_slash = False          # `file.py/` cannot be opened (ENOTDIR): discovered, then skipped by the scan
    for _ in range(rng.choice([1, 1, 1, 2, 2, 3])):
        r = rng.random()
        if r < 0.45 or not objs:
            t_abs = "/B/top/proj"
        elif r < 0.70 and dirs:
            t_abs = "/B/top/proj/" + "/".join(rng.choice(dirs)[0])
        elif r < 0.95:
            t_abs = "/B/top/proj/" + "/".join(rng.choice(objs)[0])
        else:
            t_abs = "/B/top/proj/" + rng.choice(["nonexistent.py", "nodir/x.txt", "pkg"])
            file_with_slash = True       # (possibly) missing target: discovered, then skipped by the scan — not a CLI case either
        text, lab = spell(rng, t_abs, cwd_abs)
        targets.append(text.replace("/B", BASE) if text.startswith("/B") else text)
        labels.append(lab)
        t_comps = t_abs[len("/B/top/proj"):].strip("/").split("/") if t_abs != "/B/top/proj" else []
        t_is_dir = (not t_comps) or any(o[0] == t_comps and o[1] in ("d", "ld") for o in objs)
        if "trailing-slash" in lab and not t_is_dir:
            file_with_slash = True
    if rng.random() < 0.03:
        targets.append(rng.choice(["", "-"]))
        labels.append("special")
    x = rng.choice(X_POOL)
    if rng.random() < 0.25 and dirs:
        # an entry derived from the tree: a directory name, its path relative to cwd, or a glob around it
        dcomps = rng.choice(dirs)[0]
        rel = os.path.relpath("/B/top/proj/" + "/".join(dcomps), cwd_abs)
        x = rng.choice([dcomps[-1], rel, "./" + rel, "*/" + dcomps[-1] + "/*", rel + "/*", dcomps[-1] + ",tests"])
    cfg = rng.choice(CFG_POOL)
    # one case in ten goes through the command-line tool (argument handling in cli/main.py sits in front of discover_files: seeded change C11-m10 expanded
    # glob metacharacters in target names there, so `jobs[nightly]` or `w[1].py` matched nothing): only cases whose every scanned file survives the scan
    # itself (no dangling links, no missing targets, no stdin), so that the verbose report lists exactly the discovered files
    via = "api"
    if rng.random() < 0.1 and not file_with_slash and "special" not in labels and not any("nonexistent" in t or "nodir" in t for t in targets) and '"dang"' not in json.dumps(tree):
        via = "cli"
    return {"kind": "discover", "tree": tree, "cwd": cwd_rel, "cwd_kind": cwd_kind, "targets": targets, "labels": labels,
            "recursive": rng.random() < 0.85, "x": x, "cfg": cfg, "via": via}


# ============================================================================ running one case
class Env:
    def __init__(self):
        self.base = os.path.realpath(tempfile.mkdtemp(prefix="bverif_c11_"))
        self.k = 0

    def fresh(self):
        self.k += 1
        b = os.path.join(self.base, "c%d" % self.k)
        os.makedirs(os.path.join(b, "top", "sib"))
        return b

    def close(self):
        shutil.rmtree(self.base, ignore_errors=True)


def subst(s, base):
    return s.replace(BASE, base)


def write_cfg(base, cfg):
    if cfg is None:
        return None
    p = os.path.join(base, "bandit.yaml")
    lines = []
    for k in ("exclude_dirs", "include"):
        if k in cfg:
            lines.append("%s: %s" % (k, json.dumps(cfg[k], ensure_ascii=False)))
    if not lines:
        lines.append("skips: []")
    with open(p, "w", encoding="utf-8") as f:
        f.write("\n".join(lines) + "\n")
    return p


def parse_verbose(out):
    """files in scope / excluded from the text report of `-v`"""
    files, excl, mode = [], [], None
    for line in out.splitlines():
        if line.startswith("Files in scope ("):
            mode = "f"
        elif line.startswith("Files excluded ("):
            mode = "e"
        elif mode and line.startswith("\t"):
            if mode == "f":
                files.append(line[1:].rsplit(" (score: {", 1)[0])
            else:
                excl.append(line[1:])
        elif mode == "e" and not line.startswith("\t"):
            mode = None
    return files, excl


def real_discover(case, base, cfg_path):
    """returns dict(files, excluded, exc, include, exclude_dirs, x_runtime)"""
    from bandit.core import config as b_config, manager as b_manager, constants
    cwd = os.path.join(base, case["cwd"])
    targets = [subst(t, base) for t in case["targets"]]
    x_runtime = ",".join(constants.EXCLUDE) if case["x"] == DEFAULT_X else subst(case["x"], base)
    old = os.getcwd()
    out = {"x_runtime": x_runtime, "exc": None}
    try:
        os.chdir(cwd)
        if case.get("via") == "cli":
            argv = list(targets) + ["-v", "-f", "txt"]
            if case["recursive"]:
                argv.append("-r")
            if case["x"] != DEFAULT_X:
                argv += ["-x", x_runtime]
            if cfg_path:
                argv += ["-c", cfg_path]
            if case.get("ini"):
                ini = os.path.join(base, "bandit.ini")
                with open(ini, "w") as f:
                    f.write("[bandit]\nexclude = %s\n" % subst(case["ini"], base))
                argv += ["--ini", ini]
                if case["x"] == DEFAULT_X:
                    x_runtime = subst(case["ini"], base)      # ini value replaces the default (main._log_option_source)
                    out["x_runtime"] = x_runtime
            r = C.run_cli(argv, cwd=cwd)
            out["cli_exit"] = r["exit"]
            if r["exc"]:
                out["exc"] = r["exc"] + ": " + r.get("exc_msg", "")
            out["files"], out["excluded"] = parse_verbose(r["out"])
            conf = b_config.BanditConfig(cfg_path)
        else:
            conf = b_config.BanditConfig(cfg_path)
            mgr = b_manager.BanditManager(conf, "file")
            try:
                mgr.discover_files(list(targets), case["recursive"], x_runtime)
            except Exception as e:  # noqa
                out["exc"] = "%s: %s" % (type(e).__name__, e)
            out["files"], out["excluded"] = list(mgr.files_list), list(mgr.excluded_files)
            # a second scanner given the SAME configuration object and no -x at all sees what a scanner with a fresh copy of that configuration sees: the first
            # scanner's command-line exclusions are not part of the configuration (found on the unchanged tree: discover_files appended its -x entries to the list
            # object held by the BanditConfig, so every later scanner sharing it inherited them)
            if not out.get("exc") and x_runtime:
                try:
                    again = b_manager.BanditManager(conf, "file")
                    again.discover_files(list(targets), case["recursive"], "")
                    fresh = b_manager.BanditManager(b_config.BanditConfig(cfg_path), "file")
                    fresh.discover_files(list(targets), case["recursive"], "")
                    a, f = (sorted(again.files_list), sorted(again.excluded_files)), (sorted(fresh.files_list), sorted(fresh.excluded_files))
                    out["reuse_checked"] = "config-with-exclude_dirs" if (case["cfg"] or {}).get("exclude_dirs") else "config-without-exclude_dirs"
                    if a != f:
                        out["reuse_diff"] = {"first_scanner_x": x_runtime, "second_scanner_sharing_the_config": {"files": a[0], "excluded": a[1]},
                                             "scanner_with_a_fresh_config": {"files": f[0], "excluded": f[1]}}
                except Exception as e:  # noqa
                    out["reuse_diff"] = {"exception": "%s: %s" % (type(e).__name__, e)}
        inc = conf.get_option("include")
        out["include"] = list(inc) if isinstance(inc, list) else []
        # the config's own exclude_dirs (discover_files appends to this very list, so read the file's value)
        out["exclude_dirs"] = list((case["cfg"] or {}).get("exclude_dirs", []))
        # oracle inputs that depend on the OS
        out["isdir"] = [os.path.isdir(t) for t in targets]
        walked = set()
        if case["recursive"]:
            for t, d in zip(targets, out["isdir"]):
                if d:
                    for root, _, fs in os.walk(t):
                        for f in fs:
                            walked.add(os.path.join(root, f))
        out["walked"] = sorted(walked)
        out["exists"] = {p for p in set(out["files"]) | set(out["excluded"]) if os.path.lexists(p)}
        out["targets"] = targets
        out["entry_isdir"] = [os.path.isdir(p) for p in x_runtime.split(",")] if x_runtime else []
    finally:
        os.chdir(old)
    return out


def run_case(res, case, env, driver, count=True):
    """Build the tree, run implementation + model + oracle.  Returns list of problems
    [(kind, what, detail)] with kind in violation|known|break|obs."""
    base = env.fresh()
    problems = []
    try:
        build_tree(case["tree"], os.path.join(base, "top", "proj"))
        cfg_path = write_cfg(base, case["cfg"])
        real = real_discover(case, base, cfg_path)
    finally:
        pass
    targets = real["targets"]
    if real.get("reuse_checked"):
        problems.append(("obs", "second-scanner-sharing-config:" + real["reuse_checked"], None))
    if real.get("reuse_diff"):
        problems.append(("violation", "a scanner's -x entries leak into the configuration object: a later scanner sharing it (and given no -x) excludes files that match no exclude "
                         "pattern of its own", real["reuse_diff"]))
    F, E = real["files"], real["excluded"]
    inc_eff = real["include"] or ["*.py"]
    x_spec_entries = (PUBLISHED_DEFAULT_EXCLUDE if case["x"] == DEFAULT_X and not case.get("ini")
                      else (real["x_runtime"].split(",") if real["x_runtime"] else []))
    exc_user = real["exclude_dirs"] + x_spec_entries
    # when -x / ini `exclude` replaced the default, the default names are tolerated but not demanded
    exc_may = [] if (case["x"] == DEFAULT_X and not case.get("ini")) else list(PUBLISHED_DEFAULT_EXCLUDE)
    W = real["walked"]
    explicit = [t for t, d in zip(targets, real["isdir"]) if not d]
    # the property does not fix how an explicitly named file is spelled in the lists: any listed path that
    # lexically denotes the named file counts (bandit writes os.path.join(".", t); the model checks that exactly)
    def spellings_of(t, listed):
        nt = os.path.normpath(t) if t else "."
        return {f for f in listed if (os.path.normpath(f) if f else ".") == nt} | ({t} if t in listed else set())
    expl_sp = set()
    for t in explicit:
        expl_sp |= spellings_of(t, F) | {explicit_spelling(t)}

    # ---------------- model
    model = None
    if driver is not None:
        req = {"op": "discover", "tree": model_fs(case["tree"], base, "proj", ["sib"]),
               "cwd": [c for c in os.path.join(base, case["cwd"]).split("/") if c],
               "targets": targets, "recursive": case["recursive"], "excluded_paths": real["x_runtime"],
               "exclude_dirs": real["exclude_dirs"], "include": real["include"], "spec_x": ",".join(x_spec_entries), "spec_may": exc_may, "variant": VARIANT}
        model = driver.ask(req)
        if "error" in model:
            problems.append(("break", "driver-error", model["error"]))
            model = None
    same_as_model = None
    if model is not None:
        same_as_model = (sorted(F) == model["files"] and sorted(E) == model["excluded"])
        if not same_as_model:
            # DESIGN section 5: if model and implementation differ only on paths of the known-finding region
            # (the model loses them through the rewrite) the defect was repaired: a NOTE, not a broken tie,
            # provided the implementation satisfies the spec on this case (checked below)
            diff_paths = (set(F) ^ set(model["files"])) | (set(E) ^ set(model["excluded"]))
            lostw = {w[0] for w in model["walked"] if w[2]}
            loste = set()
            for e in model["explicit"]:
                if e[4]:
                    loste |= {e[0], e[1]}
            if diff_paths and diff_paths <= (lostw | loste):
                problems.append(("repaired", KNOWN_ID, sorted(diff_paths)[:4]))
            else:
                problems.append(("break", "correspondence:discover_files",
                                 {"real_files": sorted(F), "model_files": model["files"], "real_excluded": sorted(E), "model_excluded": model["excluded"]}))
        if model["target_isdir"] != real["isdir"]:
            problems.append(("break", "correspondence:os.path.isdir(target)", {"targets": targets, "real": real["isdir"], "model": model["target_isdir"]}))
        if [e[1] for e in model["entries"]] != real["entry_isdir"]:
            problems.append(("break", "correspondence:os.path.isdir(-x entry)", {"entries": model["entries"], "real": real["entry_isdir"]}))
        if [w[0] for w in model["walked"]] != W:
            problems.append(("break", "correspondence:os.walk", {"real": W, "model": [w[0] for w in model["walked"]]}))
        if F != sorted(set(F)) or E != sorted(set(E)):
            res.notes.append("files_list/excluded_files not a sorted duplicate-free list for %r" % (targets,)) if len(res.notes) < 5 else None
    lost = {}
    if model is not None:
        lost = {w[0]: w[2] for w in model["walked"]}
        lost_expl = {e[0]: e[4] for e in model["explicit"]}
        lean_v = {w[0]: w[1] for w in model["walked"]}
    any_entry_dir = any(real["entry_isdir"])
    mF, mE = (set(model["files"]), set(model["excluded"])) if model is not None else (set(), set())

    def model_agrees_on(path):
        """the model reproduces what the implementation did with this path"""
        if model is None:
            return True
        return (path in mF) == (path in set(F)) and (path in mE) == (path in set(E))

    def in_region(path, enforce):
        """known-finding region: excluded by the patterns as given, some -x entry is an existing directory (so it was rewritten)"""
        py = any_entry_dir and not documented_predicate(path, inc_eff, real["exclude_dirs"] + (real["x_runtime"].split(",") if real["x_runtime"] else []), enforce)
        if model is None:
            return py
        ln = lost.get(path, False) if enforce else lost_expl.get(path, False)
        return bool(ln) and py

    # ---------------- spec oracle on the implementation's output
    if real["exc"]:
        problems.append(("violation", "discovery raised instead of accounting for every file", {"exception": real["exc"]}))
    Fs, Es = set(F), set(E)
    if len(F) != len(Fs) or len(E) != len(Es):
        problems.append(("violation", "a path is listed twice in one list", {"files": F, "excluded": E}))
    for p in W:
        if p not in Fs and p not in Es:
            problems.append(("violation", "walked file is in neither list", {"path": p}))
    for t in explicit:
        if not spellings_of(t, F) and not spellings_of(t, E):
            problems.append(("violation", "explicitly named file is in neither list", {"target": t}))
    allowed = set(W) | expl_sp | set(explicit)
    for p in sorted((Fs | Es) - allowed):
        if not case["recursive"]:
            problems.append(("violation", "directory given without -r was descended", {"path": p}))
        elif p not in real["exists"]:
            problems.append(("violation", "a path that does not exist is listed", {"path": p}))
        else:
            # e.g. symlinked directories followed: not what os.walk(top) yields, but no clause of the property is broken
            problems.append(("break", "listed path is not among os.walk(target) results", {"path": p}))
    for p in sorted(Fs & Es):
        if p in expl_sp:
            problems.append(("obs", "same-file-two-roles", p))
        else:
            problems.append(("violation", "file is in both lists", {"path": p}))
    vcount = {"scan": 0, "exclude": 0, "either": 0}
    for p in W:
        v = verdict(inc_eff, exc_user, p, exc_may)
        vcount[v] += 1
        if model is not None and lean_v.get(p) != v:
            problems.append(("break", "spec-oracle: Python and Lean verdicts differ", {"path": p, "python": v, "lean": lean_v.get(p), "inc": inc_eff, "exc": exc_user}))
        bad = None
        if v == "scan" and p not in Fs:
            bad = "file the property says must be scanned is not in files_list"
        elif v == "exclude" and (p not in Es or (p in Fs and p not in expl_sp)):
            bad = "file the property says must be excluded is scanned / not listed as excluded"
        if bad:
            if v == "exclude" and in_region(p, True) and model_agrees_on(p):
                problems.append(("known", KNOWN_ID, p))
            else:
                problems.append(("violation", bad, {"path": p, "verdict": v, "include": inc_eff, "exclude": exc_user}))
    for t in explicit:
        if t in ("-",):
            continue
        sp = explicit_spelling(t)
        ms, me = explicit_must_scan(exc_user + exc_may, t), explicit_must_exclude(exc_user, t)
        if model is not None:
            row = next((e for e in model["explicit"] if e[0] == t), None)
            if row is None or row[1] != sp or row[2] != ms or row[3] != me:
                problems.append(("break", "spec-oracle: Python and Lean explicit verdicts differ", {"target": t, "python": [sp, ms, me], "lean": row}))
        if ms and not spellings_of(t, F):
            problems.append(("violation", "explicitly named, unexcluded file is not scanned", {"target": t, "exclude": exc_user}))
        if me and not spellings_of(t, E):
            if in_region(t, False) and (model is None or ((t in mE) == bool(spellings_of(t, E)) and (sp in mF) == bool(spellings_of(t, F)))):
                problems.append(("known", KNOWN_ID, t))
            else:
                problems.append(("violation", "explicitly named file under an excluded directory is not listed as excluded", {"target": t, "exclude": exc_user}))
    if count:
        res.count("cwd:" + case.get("cwd_kind", "?"))
        for lab in case.get("labels", []):
            res.count("target-spelling:" + lab)
        res.count("x:" + ("default" if case["x"] == DEFAULT_X else "empty" if case["x"] == "" else "glob" if any(ch in case["x"] for ch in "*?[") else "path" if "/" in case["x"] else "name"))
        res.count("cfg:" + ("none" if case["cfg"] is None else "+".join(sorted(case["cfg"])) or "empty"))
        res.count("recursive:" + str(case["recursive"]))
        res.count("via:" + case.get("via", "api"))
        res.count("guard:" + ("no -x entry is a directory" if not any_entry_dir else "some -x entry is an existing directory"))
        for k, n in vcount.items():
            res.count("verdict:" + k, n)
        res.count("walked-files", len(W))
        res.count("explicit-targets", len(explicit))
        if any(k in json.dumps(case["tree"]) for k in ('"ld"', '"lf"', '"dang"')):
            res.count("tree-with-symlinks")
    if any(k == "repaired" for k, _, _ in problems) and any(k == "violation" for k, _, _ in problems):
        # differs from the model inside the region AND violates the spec: a broken tie after all
        problems = [(("break", "correspondence:discover_files (inside the known region, spec violated)", d) if k == "repaired" else (k, w, d)) for k, w, d in problems]
    shutil.rmtree(base, ignore_errors=True)
    problems = json.loads(json.dumps(problems, ensure_ascii=False, default=str).replace(base, BASE))
    sample = {"cwd": case["cwd"], "targets": case["targets"], "recursive": case["recursive"], "x": case["x"], "cfg": case["cfg"],
              "files_list": [f.replace(base, BASE) for f in F][:8], "excluded_files": [f.replace(base, BASE) for f in E][:8],
              "verdicts": vcount}
    return problems, (len(F) + len(E) > 0), sample


def case_key(case):
    return json.dumps({k: case[k] for k in ("tree", "cwd", "targets", "recursive", "x", "cfg", "via") if k in case}, sort_keys=True, ensure_ascii=True)


def replay_of(case, what, detail):
    r = {k: case[k] for k in ("kind", "tree", "cwd", "cwd_kind", "targets", "labels", "recursive", "x", "cfg", "via", "ini") if k in case}
    r["detail"] = detail
    r["how"] = ("build `tree` under {BASE}/top/proj (\"f\" file, {\"d\":…} directory, {\"ld\":[…]} symlink to that directory of the tree, {\"lf\":[…]} symlink to file, "
                "{\"dang\":1} dangling symlink), mkdir {BASE}/top/sib, chdir {BASE}/<cwd>, write cfg as YAML if not null, then "
                "BanditManager(BanditConfig(cfg), 'file').discover_files(targets, recursive, x) with x = ','.join(constants.EXCLUDE) when x is <default>; "
                "or run ./check C11 --replay <this file>")
    return r


def handle(res, case, problems):
    for kind, what, detail in problems:
        if kind == "violation":
            res.violation(what, replay_of(case, what, detail))
        elif kind == "known":
            res.known_finding(KNOWN_ID)
            res.count("known-finding-files")
        elif kind == "break":
            if len(res.broken) < 12:
                res.break_(what, {"case": replay_of(case, what, None), "detail": detail})
            res.count("broken:" + what)
        elif kind == "obs":
            res.count("observation:" + what)
        elif kind == "repaired":
            res.count("known-finding-region:implementation-now-satisfies-spec")
            msg = "NOTE: known finding %s no longer reproduces: inside its region the implementation satisfies the spec where the model does not (model variant 'fixed' is due)" % KNOWN_ID
            if msg not in res.notes:
                res.notes.append(msg)
                print(msg)


# ============================================================================ fixed cases (witnesses of the Lean NEG theorems, CLI plumbing)
REPO_ROOT_TREE = {".git": {"d": {"hooks": {"d": {"x.py": "f"}}}}, "a.py": "f", "notes.txt": "f"}
PROJ_TREE = {"a.py": "f", "data.txt": "f"}
CLI_TREE = {".git": {"d": {"x.py": "f"}}, "pkg": {"d": {"a.py": "f", "tests": {"d": {"t.py": "f"}}, "b.pyw": "f", "c.txt": "f"}},
            "tests": {"d": {"t2.py": "f"}}, "latest": {"d": {"l.py": "f"}}, "__pycache__": {"d": {"c.py": "f"}}, "p.egg": {"d": {"e.py": "f"}},
            "setup.py": "f", "contest.py": "f"}


def fixed_cases():
    out = []
    # NEG_default_exclude_in_cwd / default_exclude_from_parent
    out.append(dict(kind="discover", tree=REPO_ROOT_TREE, cwd="top/proj", cwd_kind="root", targets=["."], labels=["relative"], recursive=True, x=DEFAULT_X, cfg=None, via="api", tag="NEG_default_exclude_in_cwd"))
    out.append(dict(kind="discover", tree=REPO_ROOT_TREE, cwd="top", cwd_kind="parent", targets=["proj"], labels=["relative"], recursive=True, x=DEFAULT_X, cfg=None, via="api", tag="default_exclude_from_parent"))
    # NEG_same_file_two_spellings / two roles
    out.append(dict(kind="discover", tree=PROJ_TREE, cwd="top", cwd_kind="parent", targets=["proj", "proj/a.py"], labels=["relative", "relative"], recursive=True, x=DEFAULT_X, cfg=None, via="api", tag="NEG_same_file_two_spellings"))
    out.append(dict(kind="discover", tree=PROJ_TREE, cwd="top", cwd_kind="parent", targets=["proj", "proj/data.txt"], labels=["relative", "relative"], recursive=True, x=DEFAULT_X, cfg=None, via="api", tag="NEG_same_file_two_roles"))
    # every default-excluded directory name, nested and at top level, from root / parent
    for d in PUBLISHED_DEFAULT_EXCLUDE:
        dn = d.replace("*", "pkg")
        tree = {dn: {"d": {"in.py": "f"}}, "src": {"d": {dn: {"d": {"deep.py": "f"}}, "ok.py": "f"}}, "top.py": "f"}
        out.append(dict(kind="discover", tree=tree, cwd="top", cwd_kind="parent", targets=["proj"], labels=["relative"], recursive=True, x=DEFAULT_X, cfg=None, via="api"))
        out.append(dict(kind="discover", tree=tree, cwd="top/proj", cwd_kind="root", targets=["."], labels=["relative"], recursive=True, x=DEFAULT_X, cfg=None, via="api"))
        out.append(dict(kind="discover", tree=tree, cwd="top/sib", cwd_kind="sibling", targets=[BASE + "/top/proj/"], labels=["absolute-trailing-slash"], recursive=True, x=DEFAULT_X, cfg=None, via="api"))
    # full CLI runs: default -x through argparse, -x, -c, --ini
    for cwd, tgt in (("top", ["proj"]), ("top/proj", ["."]), ("top/sib", ["../proj/"]), ("top", [BASE + "/top/proj"])):
        out.append(dict(kind="discover", tree=CLI_TREE, cwd=cwd, cwd_kind="cli", targets=tgt, labels=["cli"], recursive=True, x=DEFAULT_X, cfg=None, via="cli"))
    out.append(dict(kind="discover", tree=CLI_TREE, cwd="top", cwd_kind="cli", targets=["proj"], labels=["cli"], recursive=True, x="tests,*.pyw", cfg=None, via="cli"))
    out.append(dict(kind="discover", tree=CLI_TREE, cwd="top", cwd_kind="cli", targets=["proj"], labels=["cli"], recursive=True, x=DEFAULT_X, cfg={"exclude_dirs": ["tests", "*/latest/*"], "include": ["*.py", "*.pyw"]}, via="cli"))
    out.append(dict(kind="discover", tree=CLI_TREE, cwd="top", cwd_kind="cli", targets=["proj"], labels=["cli"], recursive=True, x=DEFAULT_X, cfg=None, via="cli", ini="latest,contest.py"))
    out.append(dict(kind="discover", tree=CLI_TREE, cwd="top", cwd_kind="cli", targets=["proj", "proj/pkg/c.txt"], labels=["cli", "cli"], recursive=False, x=DEFAULT_X, cfg=None, via="cli"))
    out.append(dict(kind="discover", tree=CLI_TREE, cwd="top/proj", cwd_kind="cli", targets=["pkg", "setup.py"], labels=["cli", "cli"], recursive=True, x="pkg/tests", cfg=None, via="cli"))
    # names and exclude entries that contain a blank (an entry is ONE pattern up to the next comma: seeded change C11-m3 re-split the -x value on whitespace in main())
    blank_tree = {"legacy code": {"d": {"old.py": "f", "deep": {"d": {"older.py": "f"}}}}, "app.py": "f", "build": {"d": {"gen.py": "f"}}, "my pkg": {"d": {"mod.py": "f", "notes.txt": "f"}}}
    for via in ("cli", "api"):
        for x in ("*/legacy code/*,*/build/*", "*/legacy code/*", "my pkg", "*/my pkg/mod.py,build"):
            out.append(dict(kind="discover", tree=blank_tree, cwd="top", cwd_kind="cli" if via == "cli" else "parent", targets=["proj"], labels=["relative"], recursive=True, x=x, cfg=None, via=via))
    out.append(dict(kind="discover", tree=blank_tree, cwd="top", cwd_kind="cli", targets=["proj"], labels=["cli"], recursive=True, x=DEFAULT_X, cfg=None, via="cli", ini="*/legacy code/*,*/build/*"))
    return out


# ============================================================================ entry point
def model_variant():
    """'fixed' once known_findings.json records the repair of C11-exclude-dir-in-cwd (entry moved to
    "fixed" or its status set to "fixed"): the driver then answers with Bandit.Discovery.Fixed"""
    try:
        kf = json.load(open(os.path.join(C.VERIF, "known_findings.json")))
    except Exception:  # noqa
        return "current"
    for e in kf.get("fixed", []):
        if (isinstance(e, dict) and (e.get("id") == KNOWN_ID or KNOWN_ID in str(e.get("what", "")))) or (isinstance(e, str) and KNOWN_ID in e):
            return "fixed"
    for e in kf.get("findings", []):
        if e.get("id") == KNOWN_ID and e.get("status") == "fixed":
            return "fixed"
    return os.environ.get("VERIF_C11_VARIANT", "current")


VARIANT = "current"


def run(res, ctx):
    global VARIANT
    VARIANT = model_variant()
    res.extra["model_variant"] = VARIANT
    thorough = res.tier == "thorough"
    rng = C.rng_for(res.seed, "C11")
    res.rule = ("(a) fnmatch: every pattern of length <= %d over the alphabet %s x %d names, a fixed list of class/range/negation/`]`-first/unclosed-`[`/`**`/dot/slash/newline patterns, "
                "and seeded random pairs; (b) discovery: seeded real temporary trees (VCS/cache/hidden/egg directories, extension mix, symlinks to files/directories, dangling links) "
                "x cwd in {tree root, parent, sibling, sub-directory} x target spellings ('.', relative, ./relative, trailing slash, absolute, //, ../x/, /./) x -x strings "
                "(default, names, relative paths, globs, empty entries, absolute) x YAML config exclude_dirs/include, plus fixed cases (each default-excluded name at top level and nested, "
                "from three working directories; the Lean NEG witnesses; 10 full CLI runs).  A discovery case is non-trivial when at least one path ends up in files_list or excluded_files; "
                "distinct = distinct (tree, cwd, targets, -r, -x, config) tuples" % (5 if thorough else 4, "".join(META), len(NAMES_SMALL)))
    env = Env()
    driver = None
    try:
        if ctx.get("replay"):
            rp = ctx["replay"].get("replay", ctx["replay"])
            if rp.get("kind") != "discover":
                res.notes.append("replay file has no discover case; nothing re-run")
                return
            driver = C.Driver() if ctx["driver_ok"] and os.path.exists(C.DRIVER) else None
            problems, nt, sample = run_case(res, rp, env, driver)
            res.case(case_key(rp), nt, sample=sample)
            handle(res, rp, problems)
            return
        # (a)
        run_fnmatch(res, ctx, C.rng_for(res.seed, "C11", "fnmatch"), thorough)
        # (b)+(c)
        driver = C.Driver() if ctx["driver_ok"] else None
        if driver is None:
            res.notes.append("Lean driver unavailable: correspondence skipped, spec oracle still evaluated on the implementation")
        for case in fixed_cases():
            problems, nt, sample = run_case(res, case, env, driver)
            res.case(case_key(case), nt, sample=sample if case.get("tag") or case.get("via") == "cli" and len(res.samples) < 4 else None)
            handle(res, case, problems)
            tag = case.get("tag")
            if tag == "NEG_default_exclude_in_cwd":
                if not any(k == "known" for k, _, _ in problems):
                    res.notes.append("NOTE: Lean witness NEG_default_exclude_in_cwd no longer reproduces on the implementation")
            if tag == "NEG_same_file_two_spellings":
                res.extra["observation_same_file_two_spellings"] = sample["files_list"]
        n_trees = 5000 if thorough else 350
        per_tree = 10 if thorough else 8
        for ti in range(n_trees):
            tree = gen_tree(rng, small=(ti % 4 == 0))
            for _ in range(per_tree):
                case = gen_case(rng, tree)
                problems, nt, sample = run_case(res, case, env, driver)
                res.case(case_key(case), nt, sample=sample if (ti % 40 == 0 and len(res.samples) < 6) else None)
                handle(res, case, problems)
        res.exhaustive = False
        res.extra["trees"] = n_trees
        res.assumptions = [
            "os.walk/os.path.isdir/os.path.join are modelled as functions of an explicit tree (Bandit/Discovery.lean) and compared with the OS on every generated case; "
            "permissions, mount points, '..' through a symlinked directory and undecodable names are outside the model",
            "fnmatch is CPython's; the Lean transcription is compared with it on every run, not proved equal",
            "spec reading: component-wise 'under directory' and fnmatch must exclude; a pattern merely occurring as text (bandit's substring test) may exclude; include patterns are demanded where name- and path-reading agree",
            "config values are lists of strings (other types are C13's subject)",
        ]
    finally:
        if driver is not None:
            driver.close()
        env.close()
