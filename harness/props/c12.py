"""C12 — run metrics are exact."""
import codecs, json, os
import common as C
import progs

LEVEL = "proof"

RANKS = ["UNDEFINED", "LOW", "MEDIUM", "HIGH"]


def spec_loc(data: bytes):
    """lines that are neither blank nor comment-only; a UTF-8 BOM in front of a line's text is not code"""
    n = 0
    for line in data.splitlines():
        t = line.strip()
        if t.startswith(codecs.BOM_UTF8):
            t = t[3:].strip()
        if t and not t.startswith(b"#"):
            n += 1
    return n


def variants(rng, src: str):
    """encoding / newline / BOM / trailing-line variants of one program text"""
    out = [("plain", src.encode())]
    out.append(("crlf", src.replace("\n", "\r\n").encode()))
    out.append(("no_final_newline", src.rstrip("\n").encode()))
    out.append(("bom", codecs.BOM_UTF8 + src.encode()))
    out.append(("bom_comment_first", codecs.BOM_UTF8 + b"# leading comment\n" + src.encode()))
    out.append(("cookie", b"# -*- coding: utf-8 -*-\n" + src.encode()))
    out.append(("latin1_cookie", b"# -*- coding: latin-1 -*-\nname = '\xe9t\xe9'\n" + src.encode("latin-1")))
    out.append(("blank_and_ws_lines", ("\n   \n\t\n# c\n   # indented comment\n" + src + "\n\n  \n").encode()))
    # form-feed-only and form-feed-before-comment lines are blank / comment-only for Python (seeded change C12-m19 stripped only blanks and tabs);
    # a vertical tab is legal only inside a comment or string (the earlier "x = 1 \x0b" made this variant a syntax error, i.e. always a skipped file)
    out.append(("formfeed_vtab", ("\x0c\n" + src + "\x0c# page break comment\n  \x0c  \nff_x = 1\n\x0c\x0c\n# tail \x0b\n \x0cff_y = 2\n").encode()))
    out.append(("lone_cr", src.replace("\n", "\r", 1).encode()))
    # characters str.splitlines() breaks at but Python source does not, INSIDE a line that goes on afterwards (seeded change C12-m6 counted the tail as a line)
    out.append(("separators_inside_lines", ("s = 'a\u2028b\u2029c'\n# page one\x0cpage two\n# see\x0bbelow\nx = 1 \x0c + 2\nd = 'x\x1cy\x1dz\x1e'\n" + src).encode()))
    out.append(("latin1_nel", b"# -*- coding: latin-1 -*-\n# note \x85 more\n" + src.encode("latin-1")))
    return out


def _run_props(res, ctx):
    rng = C.rng_for(res.seed, "C12")
    thorough = res.tier == "thorough"
    n_prog = 40 if thorough else 10
    res.rule = ("seeded programs mixing trigger statements (findings of several severity/confidence ranks, several per node) with bare and test-specific nosec "
                "comments, each in 10 byte-level variants (LF/CRLF/lone CR, BOM, BOM+comment first line, cookies, blank/whitespace/comment lines, form feed, no final newline); "
                "all files of a program family are scanned in ONE run so totals are checked against sums; non-trivial = distinct file content with at least one finding or nosec comment")
    scratch = C.Scratch()
    d = C.Driver() if ctx["driver_ok"] else None
    try:
        for pi in range(n_prog):
            src, frs = progs.make_program(rng)
            lines = src.split("\n")
            # sprinkle nosec comments: all-bare, all-specific or none
            mode = rng.choice(["none", "bare", "specific", "mixed"])
            if mode != "none":
                for k in rng.sample(range(len(lines) - 1), min(3, len(lines) - 1)):
                    if lines[k].strip() and not lines[k].rstrip().endswith(":"):
                        txt = "# nosec" if mode == "bare" or (mode == "mixed" and rng.random() < .5) else "# nosec " + rng.choice(["B101", "B602", "B105", "B404", "B301", "B108", "B603", "B001", "B403", "B001, B101", "pickle", "import_subprocess", "B001: reviewed"])
                        lines[k] += "  " + txt
            src = "\n".join(lines)
            # the SAME test firing twice on ONE commented line (nested calls): both withheld findings are counted (seeded change C12-m22 counted a
            # (test, line) pair once)
            if mode in ("bare", "mixed"):
                src += "import pickle as pk_\ndup_a = pk_.loads(pk_.loads(b_))  # nosec\ndup_b = eval(eval(x_), eval(y_))  # nosec\n"
            if mode in ("specific", "mixed"):
                src += "import pickle as pq_\ndup_c = pq_.loads(pq_.loads(b_))  # nosec B301\ndup_d = eval(eval(x_), eval(y_))  # nosec B307, B102\n"
            vs = variants(rng, src)
            datas = [v[1] for v in vs]
            real = C.batch_real_scan(scratch, datas)
            real_ign = C.batch_real_scan(scratch, datas, ignore_nosec=True)
            # totals of THIS run: rerun to grab the manager-level totals
            from bandit.core import config as b_config, manager as b_manager
            paths = []
            for i, data in enumerate(datas):
                paths.append(scratch.fresh(f"t{i}.py", data))
            mgr = b_manager.BanditManager(b_config.BanditConfig(), "file")
            mgr.discover_files(paths)
            mgr.run_tests()
            C.take_log()
            tot = mgr.metrics.data["_totals"]
            keys = set()
            for p in paths:
                keys |= set(mgr.metrics.data.get(p, {}))
            for k in sorted(keys | set(tot)):
                s = sum(mgr.metrics.data.get(p, {}).get(k, 0) for p in paths)
                if tot.get(k, 0) != s:
                    res.violation("a total differs from the sum over files", {"program": src, "key": k, "total": tot.get(k), "sum": s})
            # Props.C12.totals_order_independent on the real code: the same files scanned in reverse order give the same totals
            mgr2 = b_manager.BanditManager(b_config.BanditConfig(), "file")
            mgr2.discover_files(list(reversed(paths)))
            mgr2.files_list = list(reversed(paths))     # discover_files sorts; the order under test is the scan order
            mgr2.run_tests()
            C.take_log()
            tot2 = mgr2.metrics.data["_totals"]
            res.count("order-reversed-run")
            if dict(tot2) != dict(tot):
                res.violation("totals depend on the order in which the files were scanned",
                              {"program": src, "totals": dict(tot), "totals_reversed_order": dict(tot2)})
            model = None
            if d is not None:
                reqs = []
                for data in datas:
                    try:
                        rq = C.scan_request(data)
                    except SyntaxError:
                        reqs.append(None)
                        continue
                    rq["op"] = "metrics"
                    rq["raw_hex"] = data.hex()
                    reqs.append(rq)
                answers = d.ask_many([r for r in reqs if r is not None])
                it = iter(answers)
                model = [next(it) if r is not None else None for r in reqs]
            for i, (vname, data) in enumerate(vs):
                rl, ri = real[i], real_ign[i]
                nontrivial = bool(rl["findings"]) or b"nosec" in data
                res.case((vname, data), nontrivial, sample={"variant": vname, "bytes_head": data[:80].decode("latin-1"), "metrics": rl["metrics"]} if (pi == 0 and i in (0, 4)) else None)
                res.count("variant:" + vname)
                res.count("nosec-mode:" + mode)
                if rl["skipped"] is not None:
                    res.count("skipped-file")
                    continue
                m = rl["metrics"]
                # --- spec: counts
                for crit, idx in (("SEVERITY", 1), ("CONFIDENCE", 2)):
                    for r in RANKS:
                        want = sum(1 for f in rl["findings"] if f[idx] == r)
                        if m.get(f"{crit}.{r}") != want:
                            res.violation("per-file count differs from the number of findings of that rank",
                                          {"variant": vname, "file_hex": data.hex(), "key": f"{crit}.{r}", "metric": m.get(f"{crit}.{r}"), "findings_of_rank": want})
                # --- spec: loc
                if m.get("loc") != spec_loc(data):
                    res.violation("loc differs from the number of lines that are neither blank nor comment-only",
                                  {"variant": vname, "file_hex": data.hex(), "loc": m.get("loc"), "expected": spec_loc(data)})
                # --- spec: nosec counters
                withheld = list(ri["findings"])
                for f in rl["findings"]:
                    if f in withheld:
                        withheld.remove(f)
                if m.get("nosec", 0) + m.get("skipped_tests", 0) != len(withheld):
                    res.violation("nosec + skipped_tests differ from the number of withheld findings",
                                  {"variant": vname, "file_hex": data.hex(), "nosec": m.get("nosec"), "skipped_tests": m.get("skipped_tests"), "withheld": len(withheld)})
                if mode == "bare" and m.get("skipped_tests", 0) != 0:
                    res.violation("skipped_tests counted although every nosec comment is bare", {"variant": vname, "file_hex": data.hex()})
                if mode == "specific" and m.get("nosec", 0) != 0:
                    res.violation("nosec counted although every nosec comment names tests", {"variant": vname, "file_hex": data.hex()})
                # --- correspondence
                if model is not None and model[i] is not None:
                    mm = model[i]
                    if "error" in mm:
                        res.break_("driver-error", mm["error"])
                        continue
                    if mm["loc"] != m.get("loc"):
                        res.break_("correspondence:loc", {"variant": vname, "file_hex": data.hex(), "impl": m.get("loc"), "model": mm["loc"]})
                    known = set(mm["modelled"])
                    if all(f[0] in known or (f[0] in C.blacklist_ids() and "B001" in known) for f in ri["findings"]):
                        for k in [f"{c}.{r}" for c in ("SEVERITY", "CONFIDENCE") for r in RANKS] + ["nosec", "skipped_tests"]:
                            if mm.get(k) != m.get(k, 0):
                                res.break_("correspondence:" + k, {"variant": vname, "file_hex": data.hex(), "impl": m.get(k), "model": mm.get(k)})
                    else:
                        res.count("counts-not-compared(unmodelled id present)")
        # ---- a file on which the VISITOR gives up after findings were produced (a 1200-link attribute chain exhausts the recursion limit): whatever is
        #      reported for it, the counts must say the same (seeded change C12-m5 kept the findings of such a file but never counted them)
        from bandit.core import config as b_config, manager as b_manager
        deepd = os.path.join(scratch.root, "deep"); os.makedirs(deepd)
        with open(os.path.join(deepd, "a_ok.py"), "w") as f:
            f.write("import pickle\nassert x\n")
        with open(os.path.join(deepd, "b_deep.py"), "w") as f:
            f.write("import pickle\nimport subprocess\nsubprocess.Popen('ls *', shell=True)\nx = a" + ".b" * 1200 + "\n")
        mgr = b_manager.BanditManager(b_config.BanditConfig(), "file")
        mgr.discover_files([os.path.join(deepd, "a_ok.py"), os.path.join(deepd, "b_deep.py")])
        mgr.run_tests(); C.take_log()
        res.case(("visitor-gives-up",), True)
        for fn in list(mgr.files_list) + [n for n, _ in mgr.skipped]:
            blk = mgr.metrics.data.get(fn, {})
            for crit, attr in (("SEVERITY", "severity"), ("CONFIDENCE", "confidence")):
                for rank in RANKS:
                    want = sum(1 for r in mgr.results if r.fname == fn and getattr(r, attr) == rank)
                    if blk.get(f"{crit}.{rank}", 0) != want:
                        res.violation("a per-file count differs from the number of findings of that rank reported for the file",
                                      {"file": os.path.basename(fn), "key": f"{crit}.{rank}", "count": blk.get(f"{crit}.{rank}", 0), "findings": want,
                                       "skipped": [[os.path.basename(n), r] for n, r in mgr.skipped]})
        tot = mgr.metrics.data["_totals"]
        for crit, attr in (("SEVERITY", "severity"), ("CONFIDENCE", "confidence")):
            for rank in RANKS:
                want = sum(1 for r in mgr.results if getattr(r, attr) == rank)
                if tot.get(f"{crit}.{rank}", 0) != want:
                    res.violation("a total count differs from the number of findings of that rank", {"key": f"{crit}.{rank}", "total": tot.get(f"{crit}.{rank}"), "findings": want})
        # ---- two nosec comments on the lines of ONE finding (the reported line and another line of the statement): one finding is withheld, the counters go up
        #      by one (seeded change C12-m9 consulted the two comments one after the other and counted the finding once per comment)
        from bandit.core import config as b_config, manager as b_manager
        two = ["import subprocess\nsubprocess.call(cmd,  # nosec\n                shell=True)  # nosec\n",
               "import subprocess\nsubprocess.call(cmd,  # nosec B602\n                shell=True)  # nosec B602\n",
               "import subprocess\nsubprocess.Popen('ls',  # nosec\n    env=e,\n    shell=True)  # nosec B602, B607\n",
               "from flask import Flask\napp = Flask(__name__)\napp.run(host=h,  # nosec B201\n        debug=True)  # nosec B201\n",
               "import requests\nrequests.get(url,  # nosec\n             verify=False)  # nosec\n",
               "import subprocess\nsubprocess.call(cmd,  # nosec B101\n                shell=True)  # nosec B602\n",
               "import pickle  # nosec B001\nimport subprocess  # nosec: B001 reviewed\npickle.loads(b)  # nosec B001, B101\nimport telnetlib  # nosec blacklist\n",
               "import pickle  # nosec B403\npickle.loads(b)  # nosec\nassert x  # nosec B001\n"]
        for src2 in two:
            pth = scratch.fresh("two.py", src2.encode())
            outs = {}
            for ign in (False, True):
                mgr = b_manager.BanditManager(b_config.BanditConfig(), "file", ignore_nosec=ign)
                mgr.discover_files([pth]); mgr.run_tests(); C.take_log()
                outs[ign] = (len(mgr.results), mgr.metrics.data["_totals"].get("nosec", 0), mgr.metrics.data["_totals"].get("skipped_tests", 0))
            res.case(("two-comments-one-finding", src2), True)
            res.count("two-comments-one-finding")
            withheld = outs[True][0] - outs[False][0]
            if outs[False][1] + outs[False][2] != withheld:
                res.violation("nosec + skipped_tests differ from the number of withheld findings (two nosec comments on the lines of one finding)",
                              {"program": src2, "withheld": withheld, "nosec": outs[False][1], "skipped_tests": outs[False][2]})
        # ---- several findings of one string check on ONE line, and a run in which no file survives: counts = findings, totals = sums (seeded changes C12-m12: string
        #      findings de-duplicated per (test, line) after they were counted; C12-m11: aggregate() skipped when no file was scanned successfully)
        extra_dir = os.path.join(scratch.root, "extra12"); os.makedirs(extra_dir)
        sets12 = {"same_line": {"s.py": "dirs = ['/tmp/a', '/var/tmp/b', '/dev/shm/c']\nif password == 'x' or token == 'x':\n    pass\nbind = ('0.0.0.0', '0.0.0.0')\n"
                                        "q = 'SELECT * FROM t WHERE a = %s' % a + 'DELETE FROM t WHERE b = %s' % b\n", "plain.py": "a = '/tmp/x'\nb = '/tmp/y'\n"},
                  # findings on coroutines, and blacklist findings under comments naming the umbrella id: whatever is reported or withheld is counted (seeded changes
                  # C12-m13: a new visit_AsyncFunctionDef ran the checks without adding their scores; C12-m14: `# nosec B001` withheld without counting)
                  "async_defs": {"co.py": "import ssl\nasync def login(user, password='s3cr3t'):\n    pass\nclass K:\n    async def m(self, token='t0k', v=ssl.PROTOCOL_SSLv3):\n        assert self\n"
                                          "async def g():\n    async with a as b:\n        exec(c)\n    async for i in r:\n        eval(i)\n"},
                  # a module without a statement (licence header, commented-out module) whose comment holds a bidi character: the whole-file finding is counted like any
                  # other (seeded change C12-m18 took a fast path for an empty body and dropped the scores of the whole-file checks)
                  "comment_only_bidi": {"header.py": "# licence \u202e header\n# more text\n", "empty.py": "", "doc.py": '"""doc \u2066 string"""\n', "code.py": "import pickle\n# \u2067\n"},
                  "none_survives": {"old1.py": "print 'py2'\r\nx = 1\r\n# comment\r\nimport pickle  # nosec", "old2.py": "exec 'code'\ny = 2\n\n"},
                  "one_survives": {"old1.py": "print 'py2'\nx = 1\n", "ok.py": "import pickle\nassert x\n"}}
        for label, fs in sets12.items():
            dd = os.path.join(extra_dir, label); os.makedirs(dd)
            for nm, body in fs.items():
                with open(os.path.join(dd, nm), "w", newline="") as fh:
                    fh.write(body)
            mgr = b_manager.BanditManager(b_config.BanditConfig(), "file")
            mgr.discover_files([dd], True); mgr.run_tests(); C.take_log()
            res.case(("extra12", label), True)
            res.count("extra12:" + label)
            data = mgr.metrics.data
            tot = data.get("_totals", {})
            blocks = {k: v for k, v in data.items() if k != "_totals"}
            probs = {}
            for k in set(tot) | {k for b in blocks.values() for k in b}:
                ssum = sum(b.get(k, 0) for b in blocks.values())
                if tot.get(k, 0) != ssum:
                    probs["total " + k] = [tot.get(k, 0), ssum]
            for fn, blk in blocks.items():
                for crit, attr in (("SEVERITY", "severity"), ("CONFIDENCE", "confidence")):
                    for rank in RANKS:
                        want = sum(1 for r in mgr.results if r.fname == fn and getattr(r, attr) == rank)
                        if blk.get(f"{crit}.{rank}", 0) != want:
                            probs["%s %s.%s" % (os.path.basename(fn), crit, rank)] = [blk.get(f"{crit}.{rank}", 0), want]
                raw = open(fn, "rb").read()
                if blk.get("loc") != spec_loc(raw):
                    probs["%s loc" % os.path.basename(fn)] = [blk.get("loc"), spec_loc(raw)]
            if probs:
                res.violation("metrics differ from the findings / the lines of the files ([metric, expected])", {"files": fs, "problems": probs, "skipped": [[os.path.basename(n), r] for n, r in mgr.skipped]})
        # ---- a file the visitor gives up on (nesting beyond the recursion limit) AFTER comments have withheld findings: what its counters show is what the same
        #      statements show in a file of their own — nothing is counted twice (seeded change C12-m17 re-scanned such a file with a raised limit: the counters
        #      of the aborted first pass stayed and the second pass added its own)
        deep_dir = os.path.join(scratch.root, "deep12"); os.makedirs(deep_dir)
        head_ = "import subprocess\nsubprocess.Popen('ls', shell=True)  # nosec\neval(x)  # nosec B307\nimport pickle  # nosec B999, B403\n"
        for label_, tail_ in (("binop-1200", "y = 1" + " + 1" * 1200 + "\n"), ("call-chain-700", "y = f()" + ".g()" * 700 + "\n"), ("compare-chain-1500", "y = a" + " < b" * 1500 + "\n")):      # shapes the PARSER accepts: only the visitor gives up
            vals = {}
            for nm, body in (("head.py", head_), ("deep.py", head_ + tail_)):
                pth = os.path.join(deep_dir, label_ + "_" + nm)
                with open(pth, "w") as fh:
                    fh.write(body)
                mgr = b_manager.BanditManager(b_config.BanditConfig(), "file")
                mgr.discover_files([pth]); mgr.run_tests(); C.take_log()
                blk = next((v for k, v in mgr.metrics.data.items() if k != "_totals"), {})
                vals[nm] = (blk.get("nosec"), blk.get("skipped_tests"), bool(mgr.skipped), mgr.metrics.data.get("_totals", {}).get("nosec"), mgr.metrics.data.get("_totals", {}).get("skipped_tests"))
            res.case(("deep-after-nosec", label_), True)
            res.count("deep-after-nosec")
            h, dp = vals["head.py"], vals["deep.py"]
            if dp[:2] != h[:2] or dp[3:] != h[3:]:
                res.violation("the nosec / skipped_tests counters of a file with a deeply nested statement at its end differ from those of the statements before it",
                              {"statements_with_comments": head_, "deep_statement": label_, "[nosec, skipped_tests, file skipped, total nosec, total skipped_tests] alone": list(h), "with the deep statement appended": list(dp)})
        # ---- a run over more files than the progress threshold (50): totals are still the sums over the files (seeded change C12-m10 aggregated every 50
        #      files, and aggregate() folds the previous totals block in again)
        many = os.path.join(scratch.root, "many"); os.makedirs(many)
        bodies = ["import pickle\nassert x\n", "x = 1\n# c\n\ny = 2\n", "import subprocess\nsubprocess.Popen(c, shell=True)  # nosec\n", "password = 'pw'\neval(e)  # nosec B307\n"]
        for nfiles in ((51, 120) if thorough else (51, 103)):
            dd = os.path.join(many, str(nfiles)); os.makedirs(dd)
            for i in range(nfiles):
                with open(os.path.join(dd, "f%03d.py" % i), "w") as fh:
                    fh.write(bodies[i % len(bodies)])
            mgr = b_manager.BanditManager(b_config.BanditConfig(), "file")
            mgr.discover_files([dd], True); mgr.run_tests(); C.take_log()
            tot = mgr.metrics.data["_totals"]
            blocks = [v for k, v in mgr.metrics.data.items() if k != "_totals"]
            res.case(("many-files", nfiles), True)
            res.count("many-files")
            bad = {k: [tot.get(k, 0), sum(b.get(k, 0) for b in blocks)] for k in set(tot) | {k for b in blocks for k in b} if tot.get(k, 0) != sum(b.get(k, 0) for b in blocks)}
            if bad or len(blocks) != nfiles:
                res.violation("totals differ from the sums over the files in a run over more than 50 files", {"files": nfiles, "file_bodies (round robin)": bodies, "[total, sum] per key": bad, "blocks": len(blocks)})
        # ---- the metrics a REPORT carries: whatever thresholds (-l/-i) or baseline (-b) restrict the listed findings, the counts are those of the findings found
        #      before filtering, per file and in total (seeded change C12-m8 re-tallied the totals from the filtered list just before the formatter ran)
        import json as _json
        repd = os.path.join(scratch.root, "reported"); os.makedirs(repd)
        rfiles = {"a.py": "import pickle\nassert x\npassword = 'pw'\nimport subprocess\nsubprocess.Popen(cmd, shell=True)\nsubprocess.Popen('ls', shell=True)\n",
                  "b.py": "exec(c)\nimport hashlib\nhashlib.md5(d)\nq = 'SELECT * FROM t WHERE a = %s' % v\ntry:\n    f()\nexcept Exception:\n    pass\n",
                  "c.py": "x = 1\n", "d.py": "import telnetlib  # nosec\neval(e)  # nosec B307\nassert y\n"}
        for nm, body in rfiles.items():
            with open(os.path.join(repd, nm), "w") as f:
                f.write(body)
        r0 = C.run_cli(["-f", "json", "-q", "-r", repd])
        try:
            m0 = _json.loads(r0["out"])["metrics"]
        except Exception:
            m0 = None
            res.break_("reported-metrics:reference-run-failed", {"exit": r0["exit"], "exc": r0["exc"], "stderr": r0["err"][-300:]})
        if m0 is not None:
            basef = os.path.join(scratch.root, "baseline.json")
            rb = C.run_cli(["-f", "json", "-q", "-o", basef, os.path.join(repd, "a.py"), os.path.join(repd, "d.py")])
            variants_ = [(["-l"], "sev>=LOW"), (["-ll"], "sev>=MEDIUM"), (["-lll"], "sev>=HIGH"), (["-i"], "conf>=LOW"), (["-ii"], "conf>=MEDIUM"), (["-iii"], "conf>=HIGH"),
                         (["-ll", "-ii"], "both MEDIUM"), (["--severity-level", "high", "--confidence-level", "high"], "both HIGH by name"), (["-lll", "-iii", "--exit-zero"], "HIGH exit-zero"),
                         (["-b", basef], "baseline"), (["-b", basef, "-ll"], "baseline+MEDIUM")]
            for extra, label in variants_:
                for fmt in (("json",) if "-b" in extra else ("json", "yaml")):       # a baseline is accepted with the json / html / txt / screen formats only
                    r = C.run_cli(["-f", fmt, "-q", "-r", repd] + extra)
                    res.case(("reported-metrics", label, fmt), True)
                    res.count("reported-metrics:" + fmt)
                    try:
                        if fmt == "json":
                            mm = _json.loads(r["out"])["metrics"]
                        else:
                            import yaml as _yaml
                            mm = _yaml.safe_load(r["out"])["metrics"]
                    except Exception as e:
                        res.violation("no parsable report under a threshold / baseline", {"options": extra, "format": fmt, "exit": r["exit"], "exc": r["exc"], "error": str(e)[:200]})
                        continue
                    if mm != m0:
                        diff = {f: {k: [m0.get(f, {}).get(k), mm.get(f, {}).get(k)] for k in set(m0.get(f, {})) | set(mm.get(f, {})) if m0.get(f, {}).get(k) != mm.get(f, {}).get(k)}
                                for f in set(m0) | set(mm) if m0.get(f) != mm.get(f)}
                        res.violation("the metrics in the report depend on the thresholds / the baseline: counts must be those of the findings found before filtering",
                                      {"options": extra, "format": fmt, "files": rfiles, "differences [unfiltered run, this run]": {os.path.basename(k): v for k, v in diff.items()}})
        # ---- totals over files whose DISCOVERED path starts with an underscore / a dot / a digit (relative directory targets are walked as given, so
        #      `bandit -r _vendor app` yields keys such as '_vendor/lib.py' next to the bookkeeping key '_totals': seeded change C12-m3 skipped every key
        #      starting with '_' when adding up)
        from bandit.core import config as b_config, manager as b_manager
        base = os.path.join(scratch.root, "relroot")
        files = {"_vendor/lib.py": "import pickle\nassert x  # nosec\n", "__pypackages__/a/x.py": "import subprocess\nsubprocess.Popen(c, shell=True)\n",
                 "app/main.py": "password = 'pw'\neval(x)\n", "_totals/odd.py": "exec(c)\n", ".hidden/h.py": "import telnetlib\n", "9lives/n.py": "assert y\n",
                 "app/sub/worker.py": "import pickle  # nosec\nimport subprocess\nsubprocess.Popen(c, shell=True)  # nosec B602\nassert w\n", "app/sub/deep/d.py": "exec(z)\n"}
        for rel, src in files.items():
            os.makedirs(os.path.dirname(os.path.join(base, rel)), exist_ok=True)
            with open(os.path.join(base, rel), "w") as f:
                f.write(src)
        old = os.getcwd()
        try:
            os.chdir(base)
            # … and overlapping / repeated targets: a path reached through two targets is one file with one metrics block, and the counts are those of the findings
            # the run produced (seeded change C12-m16 kept target order instead of a sorted set: the file was scanned twice, its block overwritten, the counts halved)
            for targets in (["_vendor", "app"], ["__pypackages__", "_totals", ".hidden", "9lives", "app"], ["."], ["_vendor/lib.py", "app/main.py"],
                            ["app", "app/sub"], ["app/sub", "app", "app/sub/deep"], ["app", "app"], ["app/main.py", "app/main.py", "_vendor/lib.py"]):
                mgr = b_manager.BanditManager(b_config.BanditConfig(), "file")
                mgr.discover_files(list(targets), True, "")
                mgr.run_tests()
                C.take_log()
                data = mgr.metrics.data
                blocks = {k: v for k, v in data.items() if k in mgr.files_list}
                res.case(("relative-targets", tuple(targets)), bool(mgr.results))
                res.count("relative-targets")
                if set(blocks) != set(mgr.files_list) or "_totals" not in data:
                    res.violation("a scanned file has no metrics block (or the totals block is missing)", {"targets": targets, "files": mgr.files_list, "blocks": sorted(data)})
                    continue
                if len(set(mgr.files_list)) != len(mgr.files_list):
                    res.violation("a file reached through two targets is listed (and scanned) twice", {"targets": targets, "files": list(mgr.files_list)})
                tot = data["_totals"]
                for k in sorted(set(tot) | {k for b in blocks.values() for k in b}):
                    ssum = sum(b.get(k, 0) for b in blocks.values())
                    if tot.get(k, 0) != ssum:
                        res.violation("a total differs from the sum over files", {"targets": targets, "files": mgr.files_list, "key": k, "total": tot.get(k), "sum": ssum})
                for crit, attr in (("SEVERITY", "severity"), ("CONFIDENCE", "confidence")):
                    for rank in RANKS:
                        want = sum(1 for r in mgr.results if getattr(r, attr) == rank)
                        if tot.get(f"{crit}.{rank}", 0) != want:
                            res.violation("a total count differs from the number of findings of that rank", {"targets": targets, "key": f"{crit}.{rank}", "total": tot.get(f"{crit}.{rank}"), "findings": want})
        finally:
            os.chdir(old)
    finally:
        scratch.close()
        if d is not None:
            d.close()


def run(res, ctx):
    import clirel
    _run_props(res, ctx)
    # relations between runs of the command-line tool that differ in one kind of option (harness/clirel.py): the relations this property owns
    clirel.family(res, ctx, C, "C12", 150, 900)
