"""C13 — configuration sources are equivalent, and bad configuration is rejected.

One abstract configuration (tests / skips / exclude patterns / per-plugin settings) is emitted through
the carriers YAML (`-c f.yaml`), TOML (`-c pyproject.toml`, `[tool.bandit]`), `.bandit` INI (`--ini` or
auto-discovered under `-r`), command-line flags and the generator (`bandit-config-generator -t/-s`),
alone and split over several carriers.  Every emission is run through the real `bandit.cli.main.main()`
and through the Lean model (`cfgrun` + `scan` driver ops).

Oracles evaluated on the IMPLEMENTATION's output (spec side):
  equal      all emissions of one abstract configuration give the same exit status and findings
  local      a settings block for plugin key K leaves the findings of every check not owned by K unchanged
  generator  the unmodified generator output gives the findings of "no config"
  reject     unreadable / unparsable / non-mapping config, unknown profile, contradictory selection
             => diagnostic + exit status 2, no traceback, no scan
  precedence a non-default CLI value beats the INI file; INI fills in what the CLI left at its default
Correspondence: outcome kind, reject/crash class, scanned files and (projected) findings of the model.
"""
import base64, builtins, configparser, contextlib, copy, io, json, logging, os, shutil, tempfile, tomllib

import yaml

import common as C

LEVEL = "proof"
EXTRA_MODULES = ()

# ----------------------------------------------------------------------------- programs
PROG = b'''import os
import pickle
import random
import subprocess
import hashlib
import ssl
import requests
import yaml
from Crypto.PublicKey import RSA, DSA
from cryptography.hazmat.primitives.asymmetric import rsa, ec

assert cond
exec("a = 1")
os.chmod("f", 0o777)
host = "0.0.0.0"
password = "hunter2"
connect(password="hunter2")


def login(user, password="hunter2"):
    pass


t1 = "/tmp/a"
t2 = "/var/tmp/b"
t3 = "/opt/scratch/c"
try:
    work()
except:
    pass
try:
    work()
except ValueError:
    pass
for i in seq:
    try:
        work()
    except:
        continue
    try:
        work()
    except KeyError:
        continue
requests.get("http://u")
requests.get("http://u", verify=False, timeout=3)
pickle.loads(blob)
hashlib.md5(b"x")
random.random()
yaml.load(blob)
eval("1")
subprocess.Popen("ls -l", shell=True)
subprocess.Popen(["ls", "-l"])
helper("ls -l", shell=True)
os.system("ls -l")
os.execl("/bin/ls", "ls")
os.popen("ls")
site.runner("ls -l", shell=True)
site.plain("ls -l")
RSA.generate(1500)
DSA.generate(512)
rsa.generate_private_key(65537, 3000)
ec.generate_private_key(ec.SECT163K1)
ssl.wrap_socket(sock, ssl_version=ssl.PROTOCOL_SSLv3)
query = "SELECT * FROM t WHERE a = '%s'" % val
'''

SMALL = b'''import subprocess
assert cond
subprocess.Popen("ls -l", shell=True)
tmp = "/tmp/a"
password = "hunter2"
'''

TREES = {
    "single": {"p.py": PROG},
    "small": {"p.py": SMALL},
    "tree": {
        "a.py": SMALL,
        "vendor/b.py": b"import pickle\nassert x\nexec('1')\n",
        "skipdir/c.py": b"import subprocess\nsubprocess.call('ls', shell=True)\n",
        "pkg/x_gen.py": b"password = 'hunter2'\nt = '/tmp/q'\n",
        "pkg/test_asserts.py": b"assert a\nassert b\n",
        "pkg/deep/vendor_notes.py": b"eval('2')\n",
    },
}


# ----------------------------------------------------------------------------- emitters
def b64(b):
    return base64.b64encode(b).decode()


def unb64(s):
    return base64.b64decode(s)


def toml_val(v):
    if isinstance(v, bool):
        return "true" if v else "false"
    if isinstance(v, int):
        return str(v)
    if isinstance(v, float):
        return repr(v)
    if isinstance(v, str):
        return json.dumps(v)
    if isinstance(v, list):
        return "[" + ", ".join(toml_val(x) for x in v) + "]"
    if isinstance(v, dict):
        return "{ " + ", ".join(f"{json.dumps(k)} = {toml_val(x)}" for k, x in v.items() if x is not None) + " }"
    raise ValueError(v)


def emit_toml(doc, style=0):
    """doc: the mapping meant for [tool.bandit].  None values cannot be written in TOML: omitted."""
    lines = ["[project]", 'name = "demo"', ""]
    if style == 2:
        lines.append("[tool]")
        lines.append("bandit = " + toml_val(doc))
        return ("\n".join(lines) + "\n").encode()
    lines.append("[tool.bandit]")
    tables = []
    for k, v in doc.items():
        if v is None:
            continue
        if isinstance(v, dict) and style == 0:
            tables.append((k, v))
        else:
            lines.append(f"{json.dumps(k)} = {toml_val(v)}")
    for k, v in tables:
        lines.append("")
        lines.append(f"[tool.bandit.{json.dumps(k)}]")
        for kk, vv in v.items():
            if vv is not None:
                lines.append(f"{json.dumps(kk)} = {toml_val(vv)}")
    return ("\n".join(lines) + "\n").encode()


def emit_yaml(doc, style=0):
    return yaml.safe_dump(doc, default_flow_style=(style == 1), sort_keys=(style != 2)).encode()


def emit_ini(opts, style=0):
    sep = [" = ", ": ", "="][style % 3]
    return ("[bandit]\n" + "".join(f"{k}{sep}{v}\n" for k, v in opts.items())).encode()


# ----------------------------------------------------------------------------- cases
def new_case(tree="single", recursive=False, tag=""):
    return {"tag": tag, "tree": tree, "recursive": recursive, "cfg": None, "ini": None,
            "cli": {"tests": None, "skips": None, "excluded": None, "profile": None, "level": 0, "conf": 0,
                    "severity_string": None},
            "extra_files": {}}


def cfg_doc(fmt, doc, style=0, name=None):
    data = emit_yaml(doc, style) if fmt == "yaml" else emit_toml(doc, style)
    return {"name": name or ("cfg.yaml" if fmt == "yaml" else "pyproject.toml"), "raw": b64(data)}


def cfg_raw(name, data):
    return {"name": name, "raw": b64(data)}


def cfg_special(name, what):
    return {"name": name, "special": what}          # missing | dir | unreadable


def ini_opts(opts, mode="flag", style=0):
    return {"mode": mode, "raw": b64(emit_ini(opts, style))}


def ini_raw(data, mode="flag"):
    return {"mode": mode, "raw": b64(data)}


# ----------------------------------------------------------------------------- classification of parser results
def representable(v):
    if v is None or isinstance(v, (bool, int, str)):
        return True
    if isinstance(v, list):
        return all(representable(x) for x in v)
    if isinstance(v, dict):
        return all(isinstance(k, str) and representable(x) for k, x in v.items())
    return False


def classify_cfg(path, data, special):
    """What opening + parsing gives, in the model's vocabulary (the parsers are trusted inputs).
    Returns a JSON-able FileOutcome or None when the document cannot be represented."""
    if special is not None:
        return "unreadable"
    if path.endswith(".toml"):
        try:
            doc = tomllib.loads(data.decode("utf-8"))
        except UnicodeDecodeError:
            return "undecodable"
        except tomllib.TOMLDecodeError:
            return "syntax"
        tool = doc.get("tool", {})
        if isinstance(tool, dict):
            b = tool.get("bandit", {})
            if not isinstance(b, (dict, list, str, bool, int)):
                return "other"
        return {"parsed": doc} if representable(doc) else None
    try:
        data.decode("utf-8")
    except UnicodeDecodeError:
        try:
            yaml.safe_load(data)
        except yaml.YAMLError:
            return "undecodable"
    try:
        doc = yaml.safe_load(data)
    except yaml.YAMLError:
        return "syntax"
    if isinstance(doc, (set, frozenset)):
        doc = sorted(doc, key=repr)          # `in` / indexing behave like a list's for the purposes of the model
    if doc is not None and not isinstance(doc, (dict, list, str, bool, int)):
        return "other"
    return {"parsed": doc} if representable(doc) else None


def classify_ini(data, readable=True):
    """What `utils.parse_ini_file` is specified to return (configparser is a trusted input)."""
    if data is None or not readable:
        return "unusable"
    cp = configparser.ConfigParser()
    try:
        cp.read_string(data.decode("utf-8"))
        return {k: v for k, v in cp.items("bandit")}
    except UnicodeDecodeError:
        return "undecodable"
    except (configparser.Error, KeyError, TypeError):
        return "unusable"


# ----------------------------------------------------------------------------- running one case
@contextlib.contextmanager
def deny_open(paths):
    if not paths:
        yield
        return
    real = builtins.open
    deny = {os.path.abspath(p) for p in paths}

    def fake(file, *a, **k):
        if isinstance(file, str) and os.path.abspath(file) in deny:
            raise PermissionError(13, "Permission denied", file)
        return real(file, *a, **k)
    builtins.open = fake
    io_open = io.open
    io.open = fake
    try:
        yield
    finally:
        builtins.open = real
        io.open = io_open


def default_excluded():
    from bandit.core import constants
    return ",".join(constants.EXCLUDE)


class Runner:
    def __init__(self, scratch):
        self.scratch = scratch
        self.k = 0

    def materialise(self, case):
        self.k += 1
        d = os.path.join(self.scratch.root, f"k{self.k}")
        src = os.path.join(d, "src")
        os.makedirs(src)
        tree = TREES[case["tree"]]
        files = []
        for rel, data in tree.items():
            p = os.path.join(src, rel)
            os.makedirs(os.path.dirname(p), exist_ok=True)
            with open(p, "wb") as f:
                f.write(data)
            files.append(p)
        denied = []
        model_files = {}
        unrep = False
        argv = ["-f", "json"]
        cli = case["cli"]
        mcli = {"severity": 1 + cli["level"], "confidence": 1 + cli["conf"]}
        if cli.get("severity_string"):
            mcli["severity"] = {"all": 1, "low": 2, "medium": 3, "high": 4}[cli["severity_string"]]
            argv += ["--severity-level", cli["severity_string"]]
        elif cli["level"]:
            argv.append("-" + "l" * cli["level"])
        if cli["conf"]:
            argv.append("-" + "i" * cli["conf"])

        def put_cfg(spec):
            nonlocal unrep
            p = os.path.join(d, spec["name"])
            sp = spec.get("special")
            data = None
            if sp == "dir":
                os.makedirs(p)
            elif sp == "missing":
                pass
            else:
                data = unb64(spec["raw"])
                with open(p, "wb") as f:
                    f.write(data)
                if sp == "unreadable":
                    denied.append(p)
            out = classify_cfg(p, data, sp)
            if out is None:
                unrep = True
            else:
                model_files[p] = out
            return p

        if case["cfg"] is not None:
            p = put_cfg(case["cfg"])
            argv += ["-c", p]
            mcli["config"] = p
        if case.get("empty_config_path"):
            argv += ["-c", ""]                   # `if config_file:` — an empty path means no config
            mcli["config"] = ""
        for spec in case["extra_files"].values():
            put_cfg(spec)
        mini = None
        if case["ini"] is not None:
            ini = case["ini"]
            raw = unb64(ini["raw"]) if ini.get("raw") is not None else None
            text = raw
            if raw is not None:
                # `{DIR}` lets an INI file name a config file inside the case directory
                text = raw.replace(b"{DIR}", d.encode())
            if ini["mode"] == "auto":
                ip = os.path.join(src, ".bandit")
            else:
                ip = os.path.join(d, ini.get("name", "my.ini"))
                argv += ["--ini", ip]
            if text is not None:
                with open(ip, "wb") as f:
                    f.write(text)
            if ini.get("unreadable"):
                denied.append(ip)
            mini = classify_ini(text, readable=not ini.get("unreadable"))
        for key, flag in (("tests", "-t"), ("skips", "-s"), ("profile", "-p"), ("excluded", "-x")):
            if cli.get(key) is not None:
                argv += [flag, cli[key]]
                mcli[key] = cli[key]
        if case["recursive"]:
            argv.append("-r")
            targets = [src]
            cands = sorted(files)
        else:
            targets = [os.path.join(src, "p.py" if "p.py" in tree else sorted(tree)[0])]
            cands = list(targets)
        if case.get("no_targets"):
            cands = list(targets) if case.get("ini_targets") else []
            targets = []
        argv += targets
        mcli["targets"] = targets
        req = {"op": "cfgrun", "cli": mcli, "files": model_files, "paths": cands}
        if mini is not None:
            req["ini"] = mini
        # `os.path.isdir(path)` for the comma parts of -x / INI exclude, relative to the cwd bandit runs in
        parts = set((cli.get("excluded") or "").split(","))
        if isinstance(mini, dict):
            parts |= set(mini.get("exclude", "").split(","))
        req["dirs"] = sorted(p for p in parts if p and os.path.isdir(os.path.join(d, p)))
        return {"dir": d, "src": src, "argv": argv, "req": req, "denied": denied, "cands": cands, "unrep": unrep}

    def real(self, m):
        with deny_open(m["denied"]):
            r = C.run_cli(m["argv"], cwd=m["dir"])
        out = {"exit": r["exit"], "exc": r["exc"], "err": r["err"][-400:], "findings": None, "files": None}
        if r["exc"] is not None:
            out["kind"] = "crash"
            out["exc_msg"] = r.get("exc_msg", "")
        elif r["exit"] == 2:
            out["kind"] = "reject"
        elif r["exit"] in (0, 1):
            try:
                j = json.loads(r["out"])
                out["findings"] = sorted(
                    (os.path.relpath(x["filename"], m["src"]), x["test_id"], x["issue_severity"], x["issue_confidence"],
                     x["line_number"], tuple(x["line_range"]), x["col_offset"]) for x in j["results"])
                out["files"] = sorted(os.path.relpath(k, m["src"]) for k in j["metrics"] if k != "_totals")
                out["kind"] = "scan"
            except (ValueError, KeyError):
                out["kind"] = "other"
        else:
            out["kind"] = "other"
        shutil.rmtree(m["dir"], ignore_errors=True)
        return out


CRASH_CLASS = {"TypeError": "TypeError", "KeyError": "KeyError", "IndexError": "IndexError",
               "AttributeError": "AttributeError", "OSError": "OSError"}
RANK = {"UNDEFINED": 0, "LOW": 1, "MEDIUM": 2, "HIGH": 3}


class ModelScans:
    """model findings per (program, fname, keep, settings), cached"""
    def __init__(self, driver):
        self.d = driver
        self.base = {}
        self.cache = {}

    def scan(self, data, fname, keep, settings):
        key = (data, fname, tuple(keep), json.dumps(settings, sort_keys=True))
        if key not in self.cache:
            if data not in self.base:
                self.base[data] = C.scan_request(data)
            req = dict(self.base[data])
            req["fname"] = fname
            req["plugin_cfg"] = settings
            req["select"] = sorted(keep)
            self.cache[key] = self.d.ask(req)
        return self.cache[key]


def compare_model(case, m, real, mod, scans, blids):
    """None if the model reproduces the implementation, else a diff dict"""
    if "error" in mod:
        return {"driver_error": mod["error"]}
    if mod["kind"] != real["kind"]:
        return {"kind": [real["kind"], mod["kind"]], "real_exc": real["exc"], "real_exit": real["exit"],
                "model": {k: mod.get(k) for k in ("why", "exc")}}
    if mod["kind"] == "crash":
        rc = CRASH_CLASS.get(real["exc"], "other")
        if rc != mod["exc"]:
            return {"crash": [real["exc"], mod["exc"]]}
        return None
    if mod["kind"] == "reject":
        return None
    # scan: files, then findings
    expected_files = sorted(os.path.relpath(p, m["src"]) for p in m["cands"] if p not in set(mod["excluded_paths"]))
    if expected_files != real["files"]:
        return {"files": [real["files"], expected_files]}
    if mod.get("legacy") or case.get("no_findings_compare"):
        return None
    tree = TREES[case["tree"]]
    mf = []
    modelled = set()
    crashes = False
    for rel in expected_files:
        r = scans.scan(tree[rel], os.path.join(m["src"], rel), mod["keep"], mod["settings"])
        if "error" in r:
            return {"driver_error": r["error"]}
        modelled |= set(r["modelled"])
        if r.get("crashes"):
            crashes = True
        for f in r["findings"]:
            if RANK[f[1]] >= mod["severity"] - 1 and RANK[f[2]] >= mod["confidence"] - 1:
                mf.append((rel, f[0], f[1], f[2], f[3], tuple(f[4]), f[5]))
    if "B001" in modelled:
        modelled |= blids
    rf = [f for f in real["findings"] if f[1] in modelled]
    if sorted(mf) != sorted(rf):
        return {"findings_real_only": sorted(set(rf) - set(mf))[:6], "findings_model_only": sorted(set(mf) - set(rf))[:6]}
    return None


# ----------------------------------------------------------------------------- generators
def registry_ids():
    from bandit.core import extension_loader
    m = extension_loader.MANAGER
    return sorted(set(m.plugins_by_id) | set(m.blacklist_by_id))


def owned_ids(key):
    from bandit.core import extension_loader
    return sorted(p.plugin._test_id for p in extension_loader.MANAGER.plugins if getattr(p.plugin, "_takes_config", None) == key)


def default_settings():
    import importlib
    from bandit.core import extension_loader
    out = {}
    for p in extension_loader.MANAGER.plugins:
        tc = getattr(p.plugin, "_takes_config", None)
        if tc and tc not in out:
            out[tc] = importlib.import_module(p.plugin.__module__).gen_config(tc)
    return out


def join_ids(ids):
    return ",".join(ids) if ids else None


def selection_emissions(tests, skips, rng, thorough, tree="single", recursive=False):
    """All single-carrier emissions of one abstract selection + seeded split emissions."""
    out = []

    def base(tag):
        return new_case(tree, recursive, tag)

    doc = {}
    if tests:
        doc["tests"] = list(tests)
    if skips:
        doc["skips"] = list(skips)
    c = base("yaml"); c["cfg"] = cfg_doc("yaml", doc or {"tests": None}, rng.randrange(3)); out.append(c)
    c = base("toml"); c["cfg"] = cfg_doc("toml", doc, rng.randrange(2)); out.append(c)
    opts = {}
    if tests:
        opts["tests"] = ",".join(tests)
    if skips:
        opts["skips"] = ",".join(skips)
    c = base("ini"); c["ini"] = ini_opts(opts, "flag", rng.randrange(3)); out.append(c)
    c = base("cli"); c["cli"]["tests"] = join_ids(tests); c["cli"]["skips"] = join_ids(skips); out.append(c)
    return out


def split_emissions(tests, skips, rng, n, tree="single"):
    """the same selection spread over several carriers (config ∪ CLI/INI merge)"""
    out = []
    for _ in range(n):
        c = new_case(tree, False, "split")
        fmt = rng.choice(["yaml", "toml"])
        # each test id goes to the config file or to the flag carrier (cli or ini, one of them for the whole case)
        flag = rng.choice(["cli", "ini"])
        t_cfg = [t for t in tests if rng.random() < 0.5]
        t_flag = [t for t in tests if t not in t_cfg]
        s_flag_carrier = rng.choice(["cli", "ini"])
        s_cfg = [s for s in skips if rng.random() < 0.5]
        s_flag = [s for s in skips if s not in s_cfg]
        doc = {}
        if t_cfg:
            doc["tests"] = t_cfg
        if s_cfg:
            doc["skips"] = s_cfg
        if rng.random() < 0.3:
            # duplicates across carriers are harmless
            if t_cfg:
                t_flag = t_flag + [t_cfg[0]]
        c["cfg"] = cfg_doc(fmt, doc if (doc or fmt == "toml") else {"skips": None}, rng.randrange(2))
        ini = {}
        if t_flag:
            if flag == "cli":
                c["cli"]["tests"] = ",".join(t_flag)
            else:
                ini["tests"] = ",".join(t_flag)
        if s_flag:
            if s_flag_carrier == "cli":
                c["cli"]["skips"] = ",".join(s_flag)
            else:
                ini["skips"] = ",".join(s_flag)
        if ini:
            c["ini"] = ini_opts(ini, "flag", rng.randrange(3))
        c["tag"] = f"split:{fmt}+{flag}/{s_flag_carrier}"
        out.append(c)
    return out


YAML_MALFORMED = [
    # (label, bytes, class)   class: nonmap | syntax | ok
    ("empty", b"", "nonmap"), ("comment-only", b"# nothing here\n", "nonmap"), ("null", b"null\n", "nonmap"),
    ("tilde", b"~\n", "nonmap"), ("doc-marker", b"---\n", "nonmap"),
    ("int", b"5\n", "nonmap"), ("zero", b"0\n", "nonmap"), ("negint", b"-3\n", "nonmap"), ("float", b"5.5\n", "nonmap"),
    ("true", b"true\n", "nonmap"), ("false", b"false\n", "nonmap"), ("date", b"2001-12-14\n", "nonmap"),
    ("str", b"hello\n", "nonmap"), ("str-quoted", b"'tests'\n", "nonmap"), ("str-profiles", b"profiles\n", "nonmap"),
    ("str-xprofilesx", b"xprofilesx\n", "nonmap"), ("str-empty", b"''\n", "nonmap"),
    ("list", b"- a\n- b\n", "nonmap"), ("list-empty", b"[]\n", "nonmap"), ("list-profiles", b"- profiles\n", "nonmap"),
    ("list-ints", b"[1, 2]\n", "nonmap"), ("list-of-maps", b"- tests: [B101]\n", "nonmap"), ("set", b"!!set {a, b}\n", "nonmap"), ("set-profiles", b"!!set {profiles}\n", "nonmap"), ("binary", b"!!binary aGVsbG8=\n", "nonmap"), ("list-nested-profiles", b"- [profiles]\n", "nonmap"),
    ("syntax-flow", b"tests: [B101, B102\n", "syntax"), ("syntax-nest", b"a: b: c\n", "syntax"), ("syntax-tab", b"\ttests: 1\n", "syntax"),
    ("syntax-quote", b"tests: 'B101\n", "syntax"), ("syntax-anchor", b"tests: *nope\n", "syntax"), ("syntax-tag", b"!!python/object:os.system x\n", "syntax"),
    ("undecodable", b"\xff\xfe\x00\x01", "syntax"), ("nul-bytes", b"tests: [\x00]\n", "syntax"),
    ("two-docs", b"tests: [B101]\n---\nskips: [B101]\n", "syntax"),
]

TOML_MALFORMED = [
    ("syntax-bracket", b"[tool.bandit\ntests = ['B101']\n", "syntax"), ("syntax-value", b"[tool.bandit]\ntests = [B101]\n", "syntax"),
    ("syntax-dupkey", b"[tool.bandit]\ntests=['B101']\ntests=['B102']\n", "syntax"), ("syntax-duptable", b"[tool.bandit]\n[tool.bandit]\n", "syntax"),
    ("syntax-eq", b"tool bandit\n", "syntax"), ("syntax-unterminated", b"[tool.bandit]\ntests = ['B101'\n", "syntax"),
    ("undecodable", b"\xff\xfe\x00\x01", "undecodable"), ("undecodable-late", b"[tool.bandit]\ntests = ['B101']\n# \xff\n", "undecodable"),
    ("tool-int", b"tool = 5\n", "nonmap"), ("tool-str", b"tool = 'abc'\n", "nonmap"), ("tool-list", b"tool = [1]\n", "nonmap"),
    ("tool-bool", b"tool = true\n", "nonmap"),
    ("bandit-int", b"[tool]\nbandit = 5\n", "nonmap"), ("bandit-zero", b"[tool]\nbandit = 0\n", "nonmap"), ("bandit-float", b"[tool]\nbandit = 1.5\n", "nonmap"),
    ("bandit-bool", b"[tool]\nbandit = true\n", "nonmap"), ("bandit-str", b"[tool]\nbandit = 'abc'\n", "nonmap"),
    ("bandit-str-profiles", b"[tool]\nbandit = 'my profiles'\n", "nonmap"), ("bandit-list", b"[tool]\nbandit = ['a']\n", "nonmap"),
    ("bandit-list-profiles", b"[tool]\nbandit = ['profiles']\n", "nonmap"), ("bandit-list-empty", b"[tool]\nbandit = []\n", "nonmap"),
    ("bandit-date", b"[tool]\nbandit = 2001-12-14\n", "nonmap"), ("bandit-aot", b"[[tool.bandit]]\ntests=['B101']\n", "nonmap"),
]

# well-formed but empty-ish documents: these are legitimate "no settings" configs, NOT malformed
NEUTRAL_CFGS = [
    ("yaml-emptymap", "cfg.yaml", b"{}\n"), ("yaml-null-values", "cfg.yaml", b"tests:\nskips:\n"),
    ("yaml-unrelated", "cfg.yaml", b"something_else: 1\n"),
    ("toml-empty", "pyproject.toml", b""), ("toml-no-tool", "pyproject.toml", b"[project]\nname='x'\n"),
    ("toml-other-tool", "pyproject.toml", b"[tool.black]\nline-length = 79\n"), ("toml-empty-table", "pyproject.toml", b"[tool.bandit]\n"),
    ("toml-banditx", "pyproject.toml", b"[tool.banditx]\ntests = ['B101']\n"),
]

WRONG_TYPES = [
    # syntactically valid, structurally wrong *values* (arguable: observed and checked against the model only)
    b"tests: 5\n", b"tests: true\n", b"tests: B101\n", b"skips: 'B101'\n", b"skips: 'B101,B602'\n", b"tests: {B101: 1}\n",
    b"tests: [[B101]]\n", b"tests: [101]\n", b"tests: [B101, null]\n", b"skips: [true]\n", b"tests: 0\n", b"tests: ''\n", b"tests: [{a: 1}]\n",
    b"profiles: [a]\n", b"profiles: abc\n", b"profiles:\n", b"profiles: 5\n", b"profiles: {a: b}\n", b"profiles: {a: null}\n", b"profiles: {a: [x]}\n",
    b"profiles: {a: {include: 5}}\n", b"profiles: {a: {include: B101}}\n", b"profiles: {a: {include: [[x]]}}\n", b"profiles: {a: {include: [1]}}\n",
    b"profiles: {}\n", b"profiles: {a: {}}\n", b"profiles: {a: {include: {B101: 1}}}\n",
    b"hardcoded_tmp_directory: 5\n", b"hardcoded_tmp_directory: abc\n", b"hardcoded_tmp_directory: [a]\n", b"hardcoded_tmp_directory: {x: 1}\n",
    b"hardcoded_tmp_directory: {tmp_dirs: /tmp}\n", b"hardcoded_tmp_directory:\n", b"hardcoded_tmp_directory: {}\n", b"hardcoded_tmp_directory: false\n",
    b"shell_injection: {}\n", b"shell_injection: {subprocess: []}\n", b"assert_used: []\n", b"assert_used: {skips: 5}\n",
    b"try_except_pass: {}\n", b"try_except_pass: {check_typed_exception: 'no'}\n",
    b"exclude_dirs: abc\n", b"exclude_dirs: 5\n", b"exclude_dirs: [1]\n", b"exclude_dirs: {a: 1}\n", b"exclude_dirs: ''\n", b"exclude_dirs:\n", b"exclude_dirs: [p.py, 2]\n",
]

INI_STREAM = [
    # (label, bytes or None, extra)  — correspondence only (the INI file "supplies command line arguments")
    ("missing", None), ("empty", b""), ("no-section", b"tests = B101\n"), ("other-section", b"[other]\ntests = B101\n"),
    ("empty-section", b"[bandit]\n"), ("syntax-header", b"[bandit\ntests = B101\n"), ("syntax-line", b"[bandit]\nno equals here\n"),
    ("dup-key", b"[bandit]\ntests = B101\ntests = B602\n"), ("dup-section", b"[bandit]\ntests = B101\n[bandit]\nskips = B602\n"),
    ("undecodable", b"\xff\xfe\x00\x01"), ("interpolation", b"[bandit]\ntests = %(x)s\n"), ("upper-key", b"[bandit]\nTESTS = B101\n"),
    ("default-section", b"[DEFAULT]\ntests = B101\n[bandit]\nskips = B602\n"), ("space-after-comma", b"[bandit]\ntests = B101, B602\n"),
    ("empty-value", b"[bandit]\ntests =\nskips = B101\n"), ("trailing-comma", b"[bandit]\ntests = B101,\n"),
    ("continuation", b"[bandit]\ntests = B101,\n  B602\n"), ("comment", b"[bandit]\n# tests = B101\nskips = B602\n"),
]


def settings_blocks(defaults, rng, thorough):
    """(key, block) pairs: full replacement blocks for the plugin keys the property names"""
    shell = defaults["shell_injection"]
    wk = defaults["weak_cryptographic_key"]
    out = [
        ("hardcoded_tmp_directory", {"tmp_dirs": ["/opt"]}),
        ("hardcoded_tmp_directory", {"tmp_dirs": ["/tmp", "/opt/scratch"]}),
        ("hardcoded_tmp_directory", {"tmp_dirs": []}),
        ("shell_injection", {"subprocess": shell["subprocess"] + ["site.runner"], "shell": shell["shell"], "no_shell": shell["no_shell"]}),
        ("shell_injection", {"subprocess": ["site.runner"], "shell": ["site.plain"], "no_shell": []}),
        ("shell_injection", {"subprocess": shell["subprocess"], "shell": [], "no_shell": shell["no_shell"] + ["site.plain"]}),
        ("weak_cryptographic_key", dict(wk, weak_key_size_rsa_medium=1024, weak_key_size_rsa_high=512)),
        ("weak_cryptographic_key", dict(wk, weak_key_size_rsa_medium=4096, weak_key_size_dsa_high=256, weak_key_size_dsa_medium=384)),
        ("weak_cryptographic_key", dict(wk, weak_key_size_ec_medium=128, weak_key_size_ec_high=96)),
        ("try_except_pass", {"check_typed_exception": True}),
        ("try_except_continue", {"check_typed_exception": True}),
        ("assert_used", {"skips": ["*/p.py"]}),
        ("assert_used", {"skips": ["*/nomatch_*.py", "*.txt"]}),
        ("ssl_with_bad_version", {"bad_protocol_versions": ["PROTOCOL_TLSv1"]}),
    ]
    if thorough:
        for _ in range(30):
            key = rng.choice(["hardcoded_tmp_directory", "shell_injection", "weak_cryptographic_key", "try_except_pass", "try_except_continue", "assert_used"])
            if key == "hardcoded_tmp_directory":
                blk = {"tmp_dirs": rng.sample(["/tmp", "/var/tmp", "/opt", "/opt/scratch", "/dev/shm", "/"], rng.randrange(0, 4))}
            elif key == "shell_injection":
                blk = {"subprocess": rng.sample(shell["subprocess"] + ["site.runner", "helper"], 3), "shell": rng.sample(shell["shell"] + ["site.plain"], 4),
                       "no_shell": rng.sample(shell["no_shell"], 5)}
            elif key == "weak_cryptographic_key":
                blk = {k: rng.choice([64, 128, 256, 512, 1024, 2048, 4096]) for k in wk}
            elif key == "assert_used":
                blk = {"skips": rng.sample(["*/p.py", "*.py", "*/q.py", "p.py", "*/src/*"], rng.randrange(0, 3))}
            else:
                blk = {"check_typed_exception": rng.random() < 0.5}
            out.append((key, blk))
    return out


# ----------------------------------------------------------------------------- the run
def run(res, ctx):
    thorough = res.tier == "thorough"
    rng = C.rng_for(res.seed, "C13")
    logging.disable(logging.NOTSET)     # the translator silences logging; diagnostics are part of what is observed here
    scratch = C.Scratch()
    driver = C.Driver() if ctx["driver_ok"] else None
    scans = ModelScans(driver) if driver else None
    runner = Runner(scratch)
    blids = C.blacklist_ids()
    res.rule = ("one abstract configuration (tests/skips/exclude patterns/per-plugin settings) x carriers {YAML, TOML [tool.bandit], INI --ini, INI auto-discovered, CLI flags, "
                "generator output, legacy profile} alone and split over carriers (config-file part united with flag part), run through bandit.cli.main.main() on programs firing "
                "29 test IDs; malformed stream: fixed shape tables (empty/scalar/list/str top level, syntax errors, undecodable, missing, directory, unreadable) for YAML and TOML, "
                "unknown profile, contradictory selections per carrier pair. A case is non-trivial when it is a distinct (carrier emission, argv shape) whose outcome is determined "
                "by the generator (must equal its group reference, or must be rejected).  Singletons over all registry IDs are exhaustive in thorough, over the fired IDs in quick.")
    executed = []      # (case, materialised, real, model)
    groups = []        # dict(kind=..., members=[indices], ...)
    try:
        def do(case, **marks):
            case = copy.deepcopy(case)
            case.update(marks)
            m = runner.materialise(case)
            real = runner.real(m)
            mod = None
            if driver is not None and not m["unrep"]:
                mod = driver.ask(dict(m["req"]))
            executed.append((case, m, real, mod))
            return len(executed) - 1

        if ctx.get("replay"):
            rp = ctx["replay"].get("replay", ctx["replay"])
            idx = [do(c) for c in rp.get("cases", [])]
            g = dict(rp.get("group") or {"kind": "none"})
            if g.get("kind") == "local" and len(idx) > 1:
                groups.append(dict(g, base=idx[0], members=idx[1:]))
            else:
                groups.append(dict(g, members=idx))
        else:
            build_all(res, rng, thorough, do, groups, lambda i: executed[i][2]["kind"])
        evaluate(res, executed, groups, scans, blids)
        # the kernel-checked NEG witnesses, replayed on the implementation
        replay_witnesses(res, executed)
    finally:
        if driver:
            driver.close()
        scratch.close()
    res.exhaustive = thorough
    res.extra["cli_runs"] = len(executed)
    res.assumptions = [
        "yaml.safe_load / tomllib / configparser / argparse are inputs of the model (FileOutcome, IniOutcome, Cli), classified by the harness with the same parsers",
        "mapping keys are strings; floats/dates occur only as the whole document (FileOutcome.parsedOther)",
        "legacy blacklist *data* (blacklist_calls/blacklist_imports sections) is outside the model (flagged, findings not compared)",
        "INI options other than configfile/tests/skips/profile/exclude/level/confidence/targets are not modelled",
        "an unusable/undecodable INI file is not demanded to be rejected (it 'supplies command line arguments'; observed and checked against the model only)",
        "unreadable file simulated by patching open() (the harness runs as root)",
    ]


def build_all(res, rng, thorough, do, groups, executed_kind):
    ids_all = registry_ids()
    fired = sorted({"B101", "B102", "B103", "B104", "B105", "B106", "B107", "B108", "B110", "B112", "B113", "B301", "B307", "B311", "B324", "B403",
                    "B404", "B413", "B501", "B502", "B505", "B506", "B602", "B603", "B604", "B605", "B606", "B607", "B608"} & set(ids_all))
    defaults = default_settings()
    dx = default_excluded()

    def group(kind, members, **kw):
        groups.append(dict(kind=kind, members=members, **kw))

    # reference: no configuration at all
    base_single = do(new_case("single", False, "noconfig"), stream="base")
    base_tree = do(new_case("tree", True, "noconfig-tree"), stream="base")

    # ---- S1 selection through every carrier
    # ... and ids in another letter case: whatever a lower-case id means, it means the same through every carrier (seeded change C13-m18 upper-cased the ids of
    # the -t / -s strings, which also carry the INI options, but not the lists of the YAML / TOML file)
    single_ids = (ids_all if thorough else fired) + ["B001", "B999", "assert_used", "b101", "b001", "B10" + "1".lower(), fired[0].lower() if fired else "b102"]
    for tid in single_ids:
        for tests, skips in (([tid], []), ([], [tid])):
            ems = selection_emissions(tests, skips, rng, thorough)
            idx = [do(c, stream="select-single") for c in ems]
            group("equal", idx, abstract={"tests": tests, "skips": skips})
            if tid == "B999" and tests:
                pass
    n_rand = 400 if thorough else 24
    pool = fired + ["B001", "B401", "B999"]
    for _ in range(n_rand):
        tests = rng.sample(pool, rng.choice([0, 0, 1, 2, 3, 5]))
        skips = [s for s in rng.sample(pool, rng.choice([0, 1, 2, 4])) if s not in tests]
        if not tests and not skips:
            skips = [rng.choice(fired)]
        ems = selection_emissions(tests, skips, rng, thorough) + split_emissions(tests, skips, rng, 4 if thorough else 2)
        # auto-discovered .bandit and generator emission
        c = new_case("single", True, "ini-auto")
        opts = {}
        if tests:
            opts["tests"] = ",".join(tests)
        if skips:
            opts["skips"] = ",".join(skips)
        c["ini"] = ini_opts(opts, "auto", rng.randrange(3))
        ems.append(c)
        # legacy profile emission (IDs), selected with -p or with the INI `profile` option
        # profile names are the user's data, not option names: any spelling selects the same tests through every carrier (seeded change C13-m7 normalised
        # `-` to `_` in every key of the TOML table, profile names included, so `-p web-app` no longer found its profile in pyproject.toml)
        pname = rng.choice(["sel", "web-app", "my.profile", "Profile_1", "ci-strict-2", "tests", "exclude-dirs", "a-b_c-d", "x y"])
        prof = {"profiles": {pname: {"include": tests or None, "exclude": skips or None}}}
        c = new_case("single", False, "profile-yaml-p"); c["cfg"] = cfg_doc("yaml", prof, rng.randrange(2)); c["cli"]["profile"] = pname; ems.append(c)
        tprof = {"profiles": {pname: {k: v for k, v in (("include", tests), ("exclude", skips)) if v}}}
        c = new_case("single", False, "profile-toml-ini"); c["cfg"] = cfg_doc("toml", tprof, 0); c["ini"] = ini_opts({"profile": pname}); ems.append(c)
        c = new_case("single", False, "profile-toml-p"); c["cfg"] = cfg_doc("toml", tprof, rng.randrange(2)); c["cli"]["profile"] = pname; ems.append(c)
        idx = [do(c, stream="select-random") for c in ems]
        group("equal", idx, abstract={"tests": tests, "skips": skips})
    # ---- contradictory selections: every pair of carriers
    carr = ["yaml", "toml", "ini", "cli"]
    for tc in carr:
        for sc in carr:
          # the contradictory id is a registered test, or one bandit does not know (a typo, another installation's plugin): rejected either way
          # (seeded change C13-m9 intersected only the REGISTERED ids of the two lists)
          for tid in (rng.choice(fired), rng.choice(["B999", "B000", "X123"])):
            other = rng.choice([x for x in fired if x != tid])
            tests, skips = [other, tid], [tid]
            c = new_case("single", False, f"contradict:{tc}/{sc}")
            cfgdoc, fmt, ini = {}, None, {}
            for what, ids, car in (("tests", tests, tc), ("skips", skips, sc)):
                if car in ("yaml", "toml"):
                    if fmt not in (None, car):
                        car = fmt      # only one config file per run
                    fmt = car
                    cfgdoc[what] = ids
                elif car == "ini":
                    ini[what] = ",".join(ids)
                else:
                    c["cli"][what] = ",".join(ids)
            if fmt:
                c["cfg"] = cfg_doc(fmt, cfgdoc)
            if ini:
                c["ini"] = ini_opts(ini)
            do(c, stream="contradictory", must_reject="contradictory")

    # ---- S2 exclude patterns through every carrier (recursive scan of a tree)
    excl_sets = [["vendor"], ["*/skipdir/*"], ["*_gen.py"], ["vendor", "*/skipdir/*"], ["*/pkg/*", "a.py"], ["nomatch"], ["*/deep/*", "*test_asserts.py"]]
    for gs in excl_sets if thorough else excl_sets[:5]:
        ems = []
        c = new_case("tree", True, "excl-yaml"); c["cfg"] = cfg_doc("yaml", {"exclude_dirs": gs}, rng.randrange(2)); ems.append(c)
        c = new_case("tree", True, "excl-toml"); c["cfg"] = cfg_doc("toml", {"exclude_dirs": gs}); ems.append(c)
        full = ",".join(gs + dx.split(","))
        c = new_case("tree", True, "excl-ini"); c["ini"] = ini_opts({"exclude": full}); ems.append(c)
        c = new_case("tree", True, "excl-ini-auto"); c["ini"] = ini_opts({"exclude": full}, "auto"); ems.append(c)
        c = new_case("tree", True, "excl-cli"); c["cli"]["excluded"] = full; ems.append(c)
        if len(gs) > 1:
            c = new_case("tree", True, "excl-split"); c["cfg"] = cfg_doc("toml", {"exclude_dirs": gs[:1]}); c["cli"]["excluded"] = ",".join(gs[1:] + dx.split(",")); ems.append(c)
        idx = [do(c, stream="exclude") for c in ems]
        group("equal", idx, abstract={"exclude": gs})

    # ---- S3 per-plugin settings (config-file carriers only) + locality
    for key, blk in settings_blocks(defaults, rng, thorough):
        ems = []
        c = new_case("single", False, "set-yaml"); c["cfg"] = cfg_doc("yaml", {key: blk}, rng.randrange(3)); ems.append(c)
        c = new_case("single", False, "set-toml"); c["cfg"] = cfg_doc("toml", {key: blk}, 0); ems.append(c)
        c = new_case("single", False, "set-toml-inline"); c["cfg"] = cfg_doc("toml", {key: blk}, 1); ems.append(c)
        idx = [do(c, stream="settings") for c in ems]
        group("equal", idx, abstract={"settings": {key: blk}})
        group("local", idx, base=base_single, key=key, owned=owned_ids(key))
        # settings in the file, selection elsewhere
        tests = rng.sample(fired, 4) + owned_ids(key)[:2]
        ems = []
        c = new_case("single", False, "set+sel-yaml"); c["cfg"] = cfg_doc("yaml", {key: blk, "tests": tests}); ems.append(c)
        c = new_case("single", False, "set-toml+sel-cli"); c["cfg"] = cfg_doc("toml", {key: blk}); c["cli"]["tests"] = ",".join(tests); ems.append(c)
        c = new_case("single", False, "set-yaml+sel-ini"); c["cfg"] = cfg_doc("yaml", {key: blk}); c["ini"] = ini_opts({"tests": ",".join(tests)}); ems.append(c)
        idx = [do(c, stream="settings+selection") for c in ems]
        group("equal", idx, abstract={"settings": {key: blk}, "tests": tests})
    # two blocks at once: each is local
    c = new_case("single", False, "set-two"); c["cfg"] = cfg_doc("yaml", {"hardcoded_tmp_directory": {"tmp_dirs": ["/opt"]}, "try_except_pass": {"check_typed_exception": True}})
    i2 = do(c, stream="settings")
    group("local", [i2], base=base_single, key="hardcoded_tmp_directory+try_except_pass", owned=owned_ids("hardcoded_tmp_directory") + owned_ids("try_except_pass"))
    # B101 skips on the tree
    for blk in ({"skips": ["*/test_*.py"]}, {"skips": ["*test_asserts.py", "*/vendor/*"]}):
        ems = []
        c = new_case("tree", True, "assert-yaml"); c["cfg"] = cfg_doc("yaml", {"assert_used": blk}); ems.append(c)
        c = new_case("tree", True, "assert-toml"); c["cfg"] = cfg_doc("toml", {"assert_used": blk}); ems.append(c)
        idx = [do(c, stream="settings") for c in ems]
        group("equal", idx, abstract={"settings": {"assert_used": blk}})
        group("local", idx, base=base_tree, key="assert_used", owned=owned_ids("assert_used"))

    # ---- S4 precedence
    for _ in range(20 if thorough else 6):
        a, b = rng.sample(fired, 2)
        # CLI -t beats INI tests: same findings as CLI alone
        c1 = new_case("single", False, "prec-cli-over-ini"); c1["cli"]["tests"] = a; c1["ini"] = ini_opts({"tests": b})
        c2 = new_case("single", False, "prec-cli-alone"); c2["cli"]["tests"] = a
        group("equal", [do(c1, stream="precedence"), do(c2, stream="precedence")], abstract={"tests": [a], "note": "CLI -t given, INI tests must be ignored"})
        c1 = new_case("single", False, "prec-cli-skip-over-ini"); c1["cli"]["skips"] = a; c1["ini"] = ini_opts({"skips": b})
        c2 = new_case("single", False, "prec-cli-skip-alone"); c2["cli"]["skips"] = a
        group("equal", [do(c1, stream="precedence"), do(c2, stream="precedence")], abstract={"skips": [a], "note": "CLI -s given, INI skips must be ignored"})
        # INI names the config file; CLI -c beats it
        c1 = new_case("single", False, "prec-ini-configfile"); c1["ini"] = ini_raw(b"[bandit]\nconfigfile = {DIR}/viaini.yaml\n")
        c1["extra_files"]["v"] = cfg_doc("yaml", {"tests": [a]}, name="viaini.yaml")
        c2 = new_case("single", False, "prec-c-alone"); c2["cfg"] = cfg_doc("yaml", {"tests": [a]})
        group("equal", [do(c1, stream="precedence"), do(c2, stream="precedence")], abstract={"tests": [a], "note": "configfile= in INI equals -c"})
        c1 = new_case("single", False, "prec-c-over-ini-configfile"); c1["cfg"] = cfg_doc("toml", {"tests": [a]}); c1["ini"] = ini_raw(b"[bandit]\nconfigfile = {DIR}/viaini.yaml\n")
        c1["extra_files"]["v"] = cfg_doc("yaml", {"tests": [b]}, name="viaini.yaml")
        group("equal", [do(c1, stream="precedence"), do(c2, stream="precedence")], abstract={"tests": [a], "note": "-c given, INI configfile must be ignored"})
    # -x equal to its default + INI exclude: the INI value wins (documented corner of _log_option_source); checked against the model
    c = new_case("tree", True, "prec-x-default-corner"); c["cli"]["excluded"] = dx; c["ini"] = ini_opts({"exclude": "vendor"})
    do(c, stream="precedence")
    c = new_case("tree", True, "prec-x-nondefault"); c["cli"]["excluded"] = "skipdir"; c["ini"] = ini_opts({"exclude": "vendor"})
    c2 = new_case("tree", True, "prec-x-alone"); c2["cli"]["excluded"] = "skipdir"
    group("equal", [do(c, stream="precedence"), do(c2, stream="precedence")], abstract={"exclude": ["skipdir"], "note": "CLI -x given, INI exclude must be ignored"})
    # an existing directory named by -x (relative to the cwd) is rewritten to `dir/*`: model only (its consequences are C11's subject)
    c = new_case("tree", True, "x-existing-dir"); c["cli"]["excluded"] = "src/vendor,skipdir"
    do(c, stream="precedence")
    c = new_case("tree", True, "ini-exclude-existing-dir"); c["ini"] = ini_opts({"exclude": "src"})
    do(c, stream="precedence")
    # INI `targets` is used only when the command line names none
    c = new_case("small", False, "ini-targets"); c["ini"] = ini_raw(b"[bandit]\ntargets = {DIR}/src/p.py\n")
    c2 = new_case("small", False, "cli-target")
    i1 = do(c, stream="precedence", no_targets=True, ini_targets=True)
    group("equal", [i1, do(c2, stream="precedence")], abstract={"note": "INI targets = command-line target"})
    c = new_case("small", False, "ini-targets+cli-target"); c["ini"] = ini_raw(b"[bandit]\ntargets = {DIR}/nonexistent.py\n")
    group("equal", [do(c, stream="precedence"), do(c2, stream="precedence")], abstract={"note": "command-line target given, INI targets ignored"})
    # INI numeric options: level / confidence
    for opt in ("level", "confidence"):
        for val in ("1", "2", "3", "4"):
            c = new_case("small", False, f"ini-{opt}={val}"); c["ini"] = ini_opts({opt: val})
            i1 = do(c, stream="ini-numeric", ini_numeric=(opt, int(val)))
            # INI level=N must mean what N-1 `-l` flags mean
            c2 = new_case("small", False, f"cli-{opt}-count={int(val) - 1}"); c2["cli"]["level" if opt == "level" else "conf"] = int(val) - 1
            group("equal", [i1, do(c2, stream="ini-numeric")], abstract={"note": f"INI {opt}={val} equals the counted CLI flag"})
    # ill-typed / out-of-range INI numbers (arguable "wrong value types": observed, compared with the model only)
    for val in ("abc", "2.5", "9", "-1", "-4", "0", "+2", "007"):
        c = new_case("small", False, f"ini-level-odd={val}"); c["ini"] = ini_opts({"level": val})
        do(c, stream="wrong-types")
    c = new_case("small", False, "ini-level+cli-ll"); c["ini"] = ini_opts({"level": "2"}); c["cli"]["level"] = 2
    c2 = new_case("small", False, "cli-ll"); c2["cli"]["level"] = 2
    group("equal", [do(c, stream="ini-numeric"), do(c2, stream="ini-numeric")], abstract={"note": "CLI -ll given, INI level must be ignored"})
    c = new_case("small", False, "ini-level+severity-all"); c["ini"] = ini_opts({"level": "3"}); c["cli"]["severity_string"] = "all"
    do(c, stream="ini-numeric", ini_numeric=("level", 3))

    # ---- S5 malformed configuration
    for label, data, cls in YAML_MALFORMED:
        for extra in (None, "tests"):
            c = new_case("small", False, f"bad-yaml:{label}" + ("+t" if extra else "")); c["cfg"] = cfg_raw("cfg.yaml", data)
            if extra:
                c["cli"]["tests"] = "B101"
            do(c, stream="malformed-yaml", must_reject="bad-file")
    for label, data, cls in TOML_MALFORMED:
        c = new_case("small", False, f"bad-toml:{label}"); c["cfg"] = cfg_raw("pyproject.toml", data)
        do(c, stream="malformed-toml", must_reject="bad-file")
    for name in ("cfg.yaml", "pyproject.toml", "noext"):
        for what in ("missing", "dir", "unreadable"):
            c = new_case("small", False, f"bad-file:{what}:{name}")
            c["cfg"] = cfg_special(name, what) if what != "unreadable" else dict(cfg_raw(name, b"tests: [B101]\n" if not name.endswith("toml") else b"[tool.bandit]\ntests=['B101']\n"), special="unreadable")
            do(c, stream="unreadable", must_reject="bad-file")
    # a bad file named by the INI's configfile option
    c = new_case("small", False, "bad-yaml-via-ini"); c["ini"] = ini_raw(b"[bandit]\nconfigfile = {DIR}/viaini.yaml\n"); c["extra_files"]["v"] = cfg_raw("viaini.yaml", b"- a\n- b\n")
    do(c, stream="malformed-yaml", must_reject="bad-file")
    c = new_case("small", False, "missing-via-ini"); c["ini"] = ini_raw(b"[bandit]\nconfigfile = {DIR}/nonexistent.yaml\n")
    do(c, stream="unreadable", must_reject="bad-file")
    # seeded random non-mapping documents
    for k in range(300 if thorough else 16):
        kind = rng.choice(["int", "str", "list", "strp", "listp"])
        if kind == "int":
            v = rng.randrange(-5, 10**6)
        elif kind == "str":
            v = "".join(rng.choice("abcxyz_ -") for _ in range(rng.randrange(1, 12))).strip() or "a"
        elif kind == "strp":
            v = rng.choice(["", "x", "my "]) + "profiles" + rng.choice(["", "s", " x"])
        elif kind == "list":
            v = [rng.choice(["a", "tests", 1, None, True, ["profiles"], {"profiles": 1}]) for _ in range(rng.randrange(0, 4))]
        else:
            v = [rng.choice(["a", 1]), "profiles"]
        fmt = rng.choice(["yaml", "toml"])
        if fmt == "toml" and (v is None or (isinstance(v, list) and any(x is None for x in v))):
            fmt = "yaml"
        c = new_case("small", False, f"bad-{fmt}:random-{kind}")
        c["cfg"] = cfg_raw("cfg.yaml", yaml.safe_dump(v).encode()) if fmt == "yaml" else cfg_raw("pyproject.toml", emit_toml(v, 2))
        do(c, stream="malformed-random", must_reject="bad-file")
    # neutral documents: must behave like no config
    idx = [do(new_case("small", False, "noconfig-small"), stream="base")]
    for label, name, data in NEUTRAL_CFGS:
        c = new_case("small", False, f"neutral:{label}"); c["cfg"] = cfg_raw(name, data)
        idx.append(do(c, stream="neutral"))
    idx.append(do(new_case("small", False, "neutral:empty-config-path"), stream="neutral", empty_config_path=True))
    group("equal", idx, abstract={"note": "empty mapping / no [tool.bandit] table = no configuration"})
    # unknown profile, by every way of naming one
    for how in ("cli-noconfig", "cli-yaml", "cli-toml", "ini-yaml", "cli-yaml-emptyprofiles", "cli-toml-other"):
        c = new_case("small", False, f"unknown-profile:{how}")
        docs = {"profiles": {"known": {"include": ["B101"]}}}
        if "yaml" in how:
            c["cfg"] = cfg_doc("yaml", {"profiles": {}} if "empty" in how else docs)
        if "toml" in how:
            c["cfg"] = cfg_doc("toml", docs)
        if how.startswith("cli"):
            c["cli"]["profile"] = "nosuch"
        else:
            c["ini"] = ini_opts({"profile": "nosuch"})
        do(c, stream="unknown-profile", must_reject="unknown-profile")
    # a known legacy profile given by *names* selects like the IDs
    ems = []
    c = new_case("single", False, "profile-names"); c["cfg"] = cfg_doc("yaml", {"profiles": {"x": {"include": ["assert_used", "exec_used", "pickle"], "exclude": ["exec_used"]}}}); c["cli"]["profile"] = "x"; ems.append(c)
    c = new_case("single", False, "profile-ids"); c["cli"]["tests"] = "B101,B102,B301"; c["cli"]["skips"] = "B102"; ems.append(c)
    group("equal", [do(c, stream="profile") for c in ems], abstract={"tests": ["B101", "B102", "B301"], "skips": ["B102"]})
    # legacy test named without data: rejected by validate()
    c = new_case("small", False, "legacy-no-data"); c["cfg"] = cfg_doc("yaml", {"profiles": {"x": {"include": ["blacklist_calls"]}}})
    do(c, stream="legacy", must_reject="legacy-no-data")
    # legacy blacklist test named WITH (empty) data: accepted; the overriding legacy tables are outside the model (kind only)
    c = new_case("small", False, "legacy-with-data"); c["cfg"] = cfg_doc("yaml", {"profiles": {"x": {"include": ["blacklist_calls", "assert_used"]}}, "blacklist_calls": {"bad_name_sets": []}}); c["cli"]["profile"] = "x"
    do(c, stream="legacy")
    c = new_case("small", False, "legacy-b001"); c["cfg"] = cfg_doc("yaml", {"profiles": {"x": {"include": ["B001"], "exclude": ["B404"]}}}); c["cli"]["profile"] = "x"
    c2 = new_case("small", False, "b001-cli"); c2["cli"]["tests"] = "B001"; c2["cli"]["skips"] = "B404"
    group("equal", [do(c, stream="legacy"), do(c2, stream="legacy")], abstract={"tests": ["B001"], "skips": ["B404"]})
    # no targets at all (usage, exit 2)
    do(new_case("small", False, "no-targets"), stream="usage", no_targets=True)

    # ---- S6 generator
    generator_cases(res, rng, do, group, base_single, fired)

    # ---- S7 wrong value types and INI robustness: observed, compared with the model, nothing demanded
    for data in WRONG_TYPES:
        for prof in (None, "a"):
            if prof and not data.startswith(b"profiles"):
                continue
            c = new_case("small", False, "wrongtype:" + data.decode().strip()); c["cfg"] = cfg_raw("cfg.yaml", data)
            c["cli"]["profile"] = prof
            # how a *plugin* copes with an ill-typed block of its own is C14-C17's business: there only the outcome kind is compared
            plugin_block = not data.startswith((b"tests", b"skips", b"profiles", b"exclude_dirs"))
            do(c, stream="wrong-types", no_findings_compare=plugin_block)
    for label, data in INI_STREAM:
        c = new_case("small", False, f"ini:{label}")
        c["ini"] = {"mode": "flag", "raw": b64(data) if data is not None else None}
        do(c, stream="ini-robustness")
    c = new_case("small", False, "ini:unreadable"); c["ini"] = dict(ini_opts({"tests": "B101"}), unreadable=True)
    do(c, stream="ini-robustness")
    settings_handover(res)


HANDOVER_VALUES = [b"{}", b"[]", b"0", b"false", b"''", b"{unrelated_key: 1}", b"~", None]


def settings_handover(res):
    """Props.C13.settings_replace / settings_local / no_block_means_defaults on the real loader: what each check is *handed* as its settings.  For every plugin section
    and every value a file can give it -- including the falsy non-null ones ({} [] 0 false ''), which a findings comparison cannot tell from defaults when the
    check then raises (seeded change C13-m19 fell back to defaults on `not cfg`) -- every check owning that section receives exactly the given value, every other
    check its generated defaults; null or an absent section means defaults.  YAML and TOML carriers where TOML can express the value."""
    from bandit.core import config as b_config, test_set as b_test_set, extension_loader
    dflt = default_settings()
    d = tempfile.mkdtemp(prefix="bverif_hand_")
    try:
        for sec in sorted(dflt):
            for raw in HANDOVER_VALUES:
                docs = [("yaml", "cfg.yaml", b"" if raw is None else sec.encode() + b": " + raw + b"\n", None)]
                if raw == b"{}":
                    docs.append(("toml", "pyproject.toml", b"[tool.bandit." + sec.encode() + b"]\n", None))
                if raw == b"{unrelated_key: 1}":
                    docs.append(("toml", "pyproject.toml", b"[tool.bandit." + sec.encode() + b"]\nunrelated_key = 1\n", None))
                for carrier, name, data, _ in docs:
                    path = os.path.join(d, name)
                    with open(path, "wb") as f:
                        f.write(data)
                    given = None if raw is None else yaml.safe_load(raw)
                    try:
                        cfg = b_config.BanditConfig(path if data else None)
                        b_test_set.BanditTestSet(cfg)
                    except Exception as e:      # rejected configurations are the other streams' business
                        res.count("handover:rejected:" + type(e).__name__)
                        continue
                    finally:
                        C.take_log()
                    res.case(("handover", sec, raw, carrier), raw is not None, sample=None)
                    res.count("handover:" + carrier)
                    for p in extension_loader.MANAGER.plugins:
                        tc = getattr(p.plugin, "_takes_config", None)
                        if not tc:
                            continue
                        want = given if (tc == sec and given is not None) else dflt[tc]
                        got = getattr(p.plugin, "_config", None)
                        if got != want or type(got) is not type(want):
                            res.violation("a check was handed settings other than the ones the file gives for its section (given value replaces the defaults; null/absent means defaults; other sections untouched)",
                                          {"section": sec, "carrier": carrier, "file": data.decode(), "check": p.plugin._test_id, "check_section": tc, "handed": repr(got), "expected": repr(want)})
    finally:
        from bandit.core import config as b_config2, test_set as b_ts2
        b_ts2.BanditTestSet(b_config2.BanditConfig())     # leave the shared plugin objects with their defaults
        shutil.rmtree(d, ignore_errors=True)


def generator_cases(res, rng, do, group, base_single, fired):
    """bandit-config-generator output, unmodified, loaded back with -c"""
    d = tempfile.mkdtemp(prefix="bverif_gen_")
    try:
        variants = [(None, None), (",".join(rng.sample(fired, 3)), None), (None, ",".join(rng.sample(fired, 2))), ("B101,B602,B108", "B602")]
        for tests, skips in variants:
            out = os.path.join(d, f"gen{len(os.listdir(d))}.yaml")
            argv = ["-o", out]
            if tests:
                argv += ["-t", tests]
            if skips:
                argv += ["-s", skips]
            r = C.run_cli(argv, entry="config_generator")
            if r["exc"] is not None or not os.path.exists(out):
                res.violation("bandit-config-generator failed to write a profile", {"argv": argv, "result": {k: r[k] for k in ("exit", "exc", "out", "err")}})
                continue
            data = open(out, "rb").read()
            res.extra.setdefault("generator_bytes", len(data))
            c = new_case("single", False, "generator-output"); c["cfg"] = cfg_raw("generated.yaml", data)
            gi = do(c, stream="generator", generator=(tests, skips))
            if tests is None and skips is None:
                group("equal", [base_single, gi], abstract={"note": "unmodified generator output = no config"}, oracle="generator")
            else:
                c2 = new_case("single", False, "generator-as-cli"); c2["cli"]["tests"] = tests; c2["cli"]["skips"] = skips
                group("equal", [do(c2, stream="generator"), gi], abstract={"tests": tests, "skips": skips, "note": "generator -t/-s output = CLI -t/-s"}, oracle="generator")
        # --show-defaults prints the same settings
        r = C.run_cli(["--show-defaults"], entry="config_generator")
        res.case("generator:show-defaults", True)
        try:
            shown = yaml.safe_load(r["out"])
        except yaml.YAMLError:
            shown = None
        res.extra["show_defaults_keys"] = sorted(shown) if isinstance(shown, dict) else None
    finally:
        shutil.rmtree(d, ignore_errors=True)


def case_replay(case):
    c = {k: v for k, v in case.items() if k in ("tag", "tree", "recursive", "cfg", "ini", "cli", "extra_files", "no_targets", "must_reject", "stream", "ini_numeric", "generator", "empty_config_path", "ini_targets", "no_findings_compare", "skip_model")}
    # human-readable copies of the emitted files
    view = {}
    if case.get("cfg") and case["cfg"].get("raw"):
        view[case["cfg"]["name"]] = unb64(case["cfg"]["raw"]).decode("utf-8", "replace")
    if case.get("ini") and case["ini"].get("raw"):
        view["ini"] = unb64(case["ini"]["raw"]).decode("utf-8", "replace")
    c["files_text"] = view
    return c


def real_view(real):
    return {"kind": real["kind"], "exit": real["exit"], "exc": real["exc"], "stderr_tail": real["err"][-200:],
            "findings": [list(f[:5]) for f in (real["findings"] or [])][:40], "files": real["files"]}


def evaluate(res, executed, groups, scans, blids):
    # ---- per case: correspondence + reject table
    for i, (case, m, real, mod) in enumerate(executed):
        stream = case.get("stream", "replay")
        res.count("stream:" + stream)
        res.count("real:" + real["kind"] + (":" + str(real["exc"]) if real["exc"] else ""))
        nontrivial = stream not in ("base",)
        res.case((case["tag"], json.dumps(case.get("cfg"), sort_keys=True), json.dumps(case.get("ini"), sort_keys=True), json.dumps(case["cli"], sort_keys=True), case["tree"]),
                 nontrivial,
                 sample={"case": case_replay(case), "argv": [a.replace(m["dir"], "<dir>") for a in m["argv"]], "real": real_view(real),
                         "model": None if mod is None else {k: mod.get(k) for k in ("kind", "why", "exc", "inc", "exc", "regions")}} if i % 131 == 0 else None)
        diff = None
        if mod is not None and not case.get("skip_model"):
            diff = compare_model(case, m, real, mod, scans, blids)
        # --- spec: reject table
        spec_ok = True
        why = None
        if case.get("must_reject"):
            if real["kind"] != "reject":
                spec_ok = False
                why = f"{case['must_reject']}: expected diagnostic + exit 2, got {real['kind']}" + (f" ({real['exc']}: {real.get('exc_msg', '')})" if real["exc"] else f" (exit {real['exit']})")
            elif "ERROR" not in real["err"] and "WARNING" not in real["err"] and "usage" not in real["err"]:
                spec_ok = False
                why = f"{case['must_reject']}: exit 2 without a diagnostic"
        if case.get("ini_numeric") and real["kind"] == "crash":
            spec_ok = False
            why = f"INI option {case['ini_numeric'][0]} = {case['ini_numeric'][1]}: traceback {real['exc']}"
        if real["kind"] == "other":
            spec_ok = False
            why = f"unexpected exit status {real['exit']}"
        if not spec_ok:
            res.violation(why, {"oracle": "reject", "cases": [case_replay(case)], "group": {"kind": "none"},
                                "argv": [a.replace(m["dir"], "<dir>") for a in m["argv"]], "real": real_view(real),
                                "model": mod if mod is None else {k: mod.get(k) for k in ("kind", "why", "exc")}, "model_diff": diff})
            continue
        if diff is not None:
            res.break_("correspondence", {"case": case_replay(case), "argv": [a.replace(m["dir"], "<dir>") for a in m["argv"]], "real": real_view(real), "diff": diff})
            res.count("correspondence-mismatch")
        if case.get("stream") in ("wrong-types", "ini-robustness") and real["kind"] == "crash":
            res.count("observation:arguable-traceback:" + str(real["exc"]))
    # ---- groups
    for g in groups:
        mem = [executed[i] for i in g["members"]]
        if g["kind"] == "equal" and len(mem) > 1:
            ref_case, _, ref, _ = mem[0]
            for case, m, real, mod in mem[1:]:
                if (real["kind"], real["exit"] if real["kind"] != "crash" else real["exc"], real["findings"], real["files"]) != \
                   (ref["kind"], ref["exit"] if ref["kind"] != "crash" else ref["exc"], ref["findings"], ref["files"]):
                    what = (f"{g.get('oracle', 'carrier equivalence')}: the same configuration gives different results through {ref_case['tag']!r} and {case['tag']!r}")
                    only_a = sorted(set(ref["findings"] or []) - set(real["findings"] or []))[:8]
                    only_b = sorted(set(real["findings"] or []) - set(ref["findings"] or []))[:8]
                    res.violation(what, {"oracle": "equal", "group": {"kind": "equal", "abstract": g.get("abstract"), "oracle": g.get("oracle")},
                                         "cases": [case_replay(ref_case), case_replay(case)],
                                         "real": [real_view(ref), real_view(real)], "only_in_first": only_a, "only_in_second": only_b})
        elif g["kind"] == "local":
            base = executed[g["base"]][2] if isinstance(g.get("base"), int) else None
            if base is None:
                # replay mode: recompute the reference
                continue
            owned = set(g["owned"])
            for case, m, real, mod in mem:
                if real["kind"] != "scan" or base["kind"] != "scan":
                    res.violation(f"settings for {g['key']} changed the outcome kind", {"oracle": "local", "group": {"kind": "local", "key": g["key"], "owned": g["owned"]},
                                                                                       "cases": [case_replay(executed[g['base']][0]), case_replay(case)], "real": [real_view(base), real_view(real)]})
                    continue
                a = [f for f in base["findings"] if f[1] not in owned]
                b = [f for f in real["findings"] if f[1] not in owned]
                if a != b or base["files"] != real["files"]:
                    res.violation(f"settings given for {g['key']} changed findings of checks that do not take that block",
                                  {"oracle": "local", "group": {"kind": "local", "key": g["key"], "owned": g["owned"]},
                                   "cases": [case_replay(executed[g["base"]][0]), case_replay(case)],
                                   "changed": {"lost": sorted(set(a) - set(b))[:8], "gained": sorted(set(b) - set(a))[:8]}})
    # ---- generator document vs model
    if scans is not None:
        for case, m, real, mod in executed:
            if case.get("generator") is not None:
                tests, skips = case["generator"]
                doc = yaml.safe_load(unb64(case["cfg"]["raw"]))
                req = {"op": "cfggen"}
                if tests:
                    req["tests"] = tests
                if skips:
                    req["skips"] = skips
                md = scans.d.ask(req)
                if "error" in md or md["doc"] != json.loads(json.dumps(doc)):
                    res.break_("correspondence", {"what": "generator document differs from the model's generatorOutput", "argv": ["-t", tests, "-s", skips],
                                                  "real_keys": sorted(doc) if isinstance(doc, dict) else str(type(doc)), "model_keys": sorted(md.get("doc", {}))})
                # spec: every settings entry of the generated file equals the generated default of that plugin key
                dflt = default_settings()
                for k, v in (doc or {}).items():
                    if k in dflt and v != dflt[k]:
                        res.violation("generator wrote a setting that differs from the plugin's default", {"oracle": "generator", "key": k, "written": v, "default": dflt[k], "cases": [case_replay(case)], "group": {"kind": "none"}})


def replay_witnesses(res, executed):
    """Props.C13.former_witnesses_rejected / ini_level_as_cli name the inputs that ended in a traceback before the
    /repo fixes d27fc84, 259b80f, da9ae97; they are regression cases of the malformed stream.  Record that each ran."""
    tags = {e[0]["tag"] for e in executed}
    need = ["bad-yaml:empty", "bad-yaml:int", "bad-yaml:str-profiles", "bad-toml:undecodable", "bad-toml:tool-int", "ini-level=2"]
    if not any(t.startswith("bad-yaml") for t in tags):
        return      # replay mode
    missing = [t for t in need if t not in tags]
    if missing:
        res.break_("witness-not-replayed", missing)
    res.extra["regression_witnesses_replayed"] = [t for t in need if t in tags]
