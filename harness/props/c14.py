"""C14 — process-spawning checks follow the documented decision table."""
import os, re
import json
import common as C
import metamorph
import scopegen

LEVEL = "proof"

SHELL_VALUES = [  # (source, truthiness per Python / 'unknown' => truthy, None = not demanded by the property)
    (None, False), ("True", True), ("False", False), ("None", False), ("1", True), ("0", False), ("0.0", False), ("2.5", True), ("0j", False),
    ("[]", False), ("[1]", True), ("()", False), ("(1,)", True), ("{}", False), ("{1: 2}", True), ("{1}", True), ("flag", True), ("get_flag()", True),
    ("cfg.shell", True), ("not x", True), ("'True'", None), ("''", None), ("b''", None), ("-1", True),
]
FIRST_ARGS = [  # (source, is plain str literal, executable literal or None, command text if statically a str/list of str)
    ("'ls -l'", True, "ls -l", "ls -l"), ("'/bin/ls -l'", True, "/bin/ls -l", "/bin/ls -l"), ("['ls', '-l']", False, "ls", " ls -l"),
    ("['/bin/ls', '-l']", False, "/bin/ls", " /bin/ls -l"), ("('ls', '-l')", False, None, None), ("cmd", False, None, None),
    ("'ls ' + arg", False, None, None), ("'ls %s' % arg", False, None, None), ("f'ls {arg}'", False, None, None), ("'ls {}'.format(arg)", False, None, None),
    ("'./run.sh'", True, "./run.sh", "./run.sh"), ("'C:\\\\tool.exe'", True, "C:\\tool.exe", None), ("'tar cf a.tar *'", True, "tar cf a.tar *", "tar cf a.tar *"),
    ("['chown', 'root', '*']", False, "chown", " chown root *"), ("'/bin/chmod 777 *.py'", True, "/bin/chmod 777 *.py", "/bin/chmod 777 *.py"),
    ("[]", False, None, ""), ("[cmd, '*']", False, None, None),
    # a concatenation is not a plain literal, even when every operand is one (seeded change C14-m18 graded `'/bin/ls ' + '-l'` like a literal: LOW)
    ("'/bin/ls ' + '-l'", False, None, None), ("'echo ' + 'a' + 'b'", False, None, None), ("('rsync -a ' + 'src ' + 'dst')", False, None, None),
    # an unpacked sequence as the first positional argument is an argument (seeded change C14-m12 cut call_args at the first starred entry)
    ("*cmd", False, None, None), ("*['ls', '-l']", False, None, None), ("*cmd, 'r'", False, None, None),
    # the table has no exemption for "trusted" executables (seeded change C14-m14 stopped reporting B603 when the command starts with sys.executable)
    ("[sys.executable, '-m', 'pip', 'install', pkg]", False, None, None), ("sys.executable", False, None, None), ("(sys.executable, script)", False, None, None),
    ("[_sys.executable, '-c', code]", False, None, None), ("[shutil.which('git'), 'status']", False, None, None), ("[os.environ['SHELL'], '-c', cmd]", False, None, None),
    # the risky program need not be the first word of a command line given to a shell (seeded change C14-m10 looked at the first word only)
    ("'cd /srv/www && tar czf /tmp/site.tgz *'", True, "cd /srv/www && tar czf /tmp/site.tgz *", "cd /srv/www && tar czf /tmp/site.tgz *"),
    ("'sudo chown www-data: *'", True, "sudo chown www-data: *", "sudo chown www-data: *"),
    ("'nice -n 19 rsync -a * backup:/srv/'", True, "nice -n 19 rsync -a * backup:/srv/", "nice -n 19 rsync -a * backup:/srv/"),
    ("'umask 022; /bin/chmod 644 *'", True, "umask 022; /bin/chmod 644 *", "umask 022; /bin/chmod 644 *"),
    ("['sh', '-c', 'tar xf a.tar *']", False, "sh", " sh -c tar xf a.tar *"),
    ("['chown', '-R', owner.name, '*']", False, "chown", " chown -R name *"), ("['tar', archive_name(), '*']", False, "tar", " tar None *"),
    ("['/bin/chmod', 644, '*']", False, "/bin/chmod", " /bin/chmod 644 *"), ("['rsync', targets[0], '*', None]", False, "rsync", " rsync None * None"), ("'rsync -a src dst'", True, "rsync -a src dst", "rsync -a src dst"), ("b'ls'", False, None, None),
]
USER_CFG = {"subprocess": ["mylib.run", "subprocess.Popen"], "shell": ["mylib.sh", "os.system"], "no_shell": ["mylib.spawn"]}
FULLPATH = re.compile(r"^(?:[A-Za-z]:|[\\/.])")


def spellings(q):
    parts = q.split(".")
    mod, f = ".".join(parts[:-1]), parts[-1]
    return [(f"import {mod}\n", q), (f"import {mod} as m_\n", f"m_.{f}"), (f"from {mod} import {f}\n", f), (f"from {mod} import {f} as f_\n", "f_"),
            # the same local name bound twice by import: the LATER binding is the one in force (seeded change C14-m17 kept the first: `setdefault`)
            (f"import json as m_\nimport {mod} as m_\n", f"m_.{f}"),
            (f"try:\n    from backport32_ import {f}\nexcept ImportError:\n    from {mod} import {f}\n", f),
            (f"def other_():\n    from fabric.api import {f}\n    return {f}\n\n\nfrom {mod} import {f}\n", f)]


def expected(family, cfg, first, shell, multiline_shell_line, call_line):
    """the decision table of the property -> set of (id, sev, conf, line)"""
    src_a, is_lit, exe, cmdtext = first if first else (None, False, None, None)
    has_args = first is not None
    shell_src, truthy = shell
    out = set()
    kwline = multiline_shell_line if shell_src is not None else call_line
    if truthy is None:
        return None
    if family == "subprocess":
        if truthy and has_args:
            out.add(("B602", "LOW" if is_lit else "HIGH", "HIGH", kwline))
        if not truthy:
            out.add(("B603", "LOW", "HIGH", kwline))
    else:
        if truthy:
            out.add(("B604", "MEDIUM", "LOW", kwline))
    if family == "shell" and has_args:
        out.add(("B605", "LOW" if is_lit else "HIGH", "HIGH", call_line))
    if family == "no_shell":
        out.add(("B606", "LOW", "MEDIUM", call_line))
    if family in ("subprocess", "shell", "no_shell") and exe is not None and not FULLPATH.match(exe):
        out.add(("B607", "LOW", "HIGH", call_line))
    under_shell = family == "shell" or (family == "subprocess" and shell_src in ("True",))
    if under_shell and has_args and cmdtext and any(w in cmdtext for w in ("chown", "chmod", "tar", "rsync")) and "*" in cmdtext:
        out.add(("B609", "HIGH", "MEDIUM", kwline))      # located on the shell= keyword whenever one is written
    return out


def _run_main(res, ctx):
    from bandit.plugins import injection_shell
    default_cfg = injection_shell.gen_config("shell_injection")
    rng = C.rng_for(res.seed, "C14")
    thorough = res.tier == "thorough"
    res.rule = ("every function of the default shell_injection configuration (and of a user-supplied configuration) x 4 import spellings x first-argument shapes "
                "(19: literal, list, tuple, +, %, f-string, .format, name, bytes, paths, wildcard commands, none) x shell= values (24: absent, constants, numbers, empty/non-empty "
                "containers, names, calls) x single/multi-line layout; quick samples the product per function (seeded), thorough enumerates shell-values x first-args for every function; "
                "non-trivial = distinct program whose expected finding set per the property's table is non-empty")
    IDS = {"B602", "B603", "B604", "B605", "B606", "B607", "B609"}
    cases = []

    def add(cfgname, cfg, family, q, pre, callee, first, shell, multiline):
        args = []
        if first is not None:
            args.append(first[0])
        if shell[0] is not None:
            args.append("shell=" + shell[0])
        n_pre = pre.count("\n")
        if multiline and args:
            src = pre + callee + "(\n" + "".join("    " + a + ",\n" for a in args) + ")\n"
            call_line = n_pre + 1
            shell_line = call_line + len(args)
        else:
            src = pre + callee + "(" + ", ".join(args) + ")\n"
            call_line = shell_line = n_pre + 1
        exp = expected(family, cfg, first, shell, shell_line, call_line)
        cases.append((cfgname, src, exp, dict(family=family, q=q, first=first[0] if first else None, shell=shell[0], multiline=multiline)))
        if not multiline and rng.random() < 0.5:
            # the import sits inside a scope, something (a class, a method or nested def that merely has the same NAME) is defined between it and the
            # call (seeded change C14-m7: any def named like a from-imported function dropped the import from the alias table)
            stmt = "r_ = " + callee + "(" + ", ".join(args) + ")"
            psrc, line, lab = scopegen.place(rng, pre, stmt, names=(callee.split(".")[0], q.split(".")[-1]))
            pexp = expected(family, cfg, first, shell, line, line) if scopegen.visible(lab) else None
            cases.append((cfgname, psrc, pexp, dict(family=family, q=q, first=first[0] if first else None, shell=shell[0], multiline=False, placed=lab)))

    for cfgname, cfg in (("default", default_cfg), ("user", USER_CFG)):
        fams = [("subprocess", q) for q in cfg["subprocess"]] + [("shell", q) for q in cfg["shell"]] + [("no_shell", q) for q in cfg["no_shell"]] + [("other", "thirdparty.launch")]
        if cfgname == "user":
            fams += [("other", "subprocess.call"), ("other", "os.execl")]     # default functions that the user configuration no longer lists
        for family, q in fams:
            for pre, callee in spellings(q):
                if thorough and (pre, callee) == spellings(q)[0]:
                    combos = [(fa, sv) for fa in [None] + FIRST_ARGS for sv in SHELL_VALUES]
                else:
                    combos = [(rng.choice([None] + FIRST_ARGS), rng.choice(SHELL_VALUES)) for _ in range(6 if not thorough else 10)]
                for fa, sv in combos:
                    add(cfgname, cfg, family, q, pre, callee, fa, sv, rng.random() < 0.4)
    # group by config
    scratch = C.Scratch()
    d = C.Driver() if ctx["driver_ok"] else None
    try:
        for cfgname, cfg in (("default", None), ("user", USER_CFG)):
            group = [c for c in cases if c[0] == cfgname]
            seen = {}
            for _, src, exp, meta in group:
                seen.setdefault(src, (exp, meta))
            progs = list(seen.items())
            sources = [s.encode() for s, _ in progs]
            cfgfile = None
            if cfg is not None:
                import yaml
                cfgfile = scratch.fresh("bandit.yaml", yaml.safe_dump({"shell_injection": cfg}).encode())
            real = C.batch_real_scan(scratch, sources, config_file=cfgfile)
            model = None
            if d is not None:
                model = d.ask_many([C.scan_request(s, plugin_cfg={"shell_injection": cfg} if cfg else None) for s in sources])
            for i, (src, (exp, meta)) in enumerate(progs):
                got = {(f[0], f[1], f[2], f[3]) for f in real[i]["findings"] if f[0] in IDS}
                res.case((cfgname, src), bool(exp), sample={"config": cfgname, "program": src, "expected": sorted(exp) if exp is not None else "not demanded", "got": sorted(got)} if i % 401 == 0 else None)
                res.count("family:" + meta["family"])
                res.count("shell:" + str(meta["shell"]))
                if model is not None:
                    if "error" in model[i]:
                        res.break_("driver-error", model[i]["error"])
                    else:
                        diff = C.compare_scan(real[i], model[i], C.blacklist_ids())
                        if diff:
                            res.break_("correspondence", {"config": cfgname, "program": src, "diff": diff})
                if exp is None:
                    res.count("oracle-not-demanded")
                    continue
                if got != exp:
                    res.violation("process-spawning findings differ from the documented decision table",
                                  {"config": cfgname, "program": src, "expected": sorted(exp), "got": sorted(got), "meta": meta})
        # B609 looks at the shell / subprocess lists only when BOTH are configured; a settings section naming one of them leaves it silent, it does not raise
        # (found by tools/mutation: `'shell' in config and 'subprocess' in config` mutated to `or` survived).  Only B609 is selected: B602-B607 index the
        # lists unconditionally and do raise on such a section (configuration validation, not this property).
        import yaml
        wild = [b"import os, subprocess\nos.system('tar xf a.tar *')\n", b"import subprocess\nsubprocess.Popen('chown root: *', shell=True)\n"]
        for part in ({"subprocess": ["subprocess.Popen"]}, {"shell": ["os.system"]}, {"no_shell": []}):
            cf = scratch.fresh("partial.yaml", yaml.safe_dump({"shell_injection": part}).encode())
            realp = C.batch_real_scan(scratch, wild, config_file=cf, profile={"include": {"B609"}, "exclude": set()})
            modelp = d.ask_many([dict(C.scan_request(s, plugin_cfg={"shell_injection": part}), profile={"include": ["B609"], "exclude": []}) for s in wild]) if d is not None else None
            for i, s in enumerate(wild):
                res.case(("b609-partial", json.dumps(part), s), True)
                if realp[i]["errors"] or realp[i]["findings"]:
                    res.violation("B609 with only one of the shell / subprocess lists configured reports or raises",
                                  {"program": s.decode(), "settings": part, "findings": [list(f) for f in realp[i]["findings"]], "errors": realp[i]["errors"]})
                if modelp is not None and "error" not in modelp[i]:
                    diff = C.compare_scan(realp[i], modelp[i], C.blacklist_ids())
                    if diff:
                        res.break_("correspondence", {"program": s.decode(), "settings": part, "diff": diff})
    finally:
        scratch.close()
        if d is not None:
            d.close()


def run(res, ctx):
    _run_main(res, ctx)
    # the neighbourhood of every construct of bandit's example files (harness/metamorph.py): model vs implementation on this family's ids
    metamorph.family(res, ctx, C, {"B602", "B603", "B604", "B605", "B606", "B607", "B609"}, 600, 3000, sections={"shell_injection"}, cfg_want=lambda s: "subprocess" in s or "os." in s or "shell" in s)
