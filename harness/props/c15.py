"""C15 — weak-crypto and transport checks follow their decision tables.

Every function the ten checks key on x import spellings x positional/keyword placement x literal
values across and at the thresholds x non-literal values x wrongly-typed literals x configured
thresholds / protocol lists.  Three-way comparison per generated program:

  * spec oracle (written here from the property text / plugin documentation, NOT from the code):
    which of B113 B324 B501-B505 B507-B509 must fire with which severity/confidence, which must stay
    silent; `None` where the property has no opinion (statically unknown values, wrong types, 0);
  * real bandit through BanditConfig/BanditManager (optionally with a temp YAML config);
  * the compiled Lean model through the driver (`scan` op with `plugin_cfg`),
    compared as (id, severity, confidence, line, range, col) AND crashes of the ten checks.

Since /repo fixes 60708c5 (B509 keyword keys), 6e22cbb (B505 non-numeric sizes / curves) and the
`_get_literal_value` set-display fix, none of the ten checks raises on valid Python with well-formed
settings: an internal error there loses the decision and is reported as a violation (the model must
predict it as well).  Crashes under malformed settings (family `odd-config`) are C13's subject: they
are only counted and must be predicted by the model.
"""
import json, logging, os, shutil, tempfile

import common as C
import metamorph

LEVEL = "proof"

MY_IDS = ["B113", "B324", "B501", "B502", "B503", "B504", "B505", "B507", "B508", "B509"]
MY_FUNCS = {"request_without_timeout", "hashlib", "request_with_no_cert_validation", "ssl_with_bad_version",
            "ssl_with_bad_defaults", "ssl_with_no_version", "weak_cryptographic_key", "ssh_no_host_key_verification",
            "snmp_insecure_version_check", "snmp_crypto_check"}

# ----------------------------------------------------------------------------- published tables (spec side)
WEAK_HASHES = ["md4", "md5", "sha", "sha1"]
STRONG_HASHES = ["sha224", "sha256", "sha384", "sha512", "sha3_256", "blake2b"]
WEAK_CRYPT = ["METHOD_CRYPT", "METHOD_MD5", "METHOD_BLOWFISH"]
STRONG_CRYPT = ["METHOD_SHA256", "METHOD_SHA512"]
HTTP_VERBS = ["get", "options", "head", "post", "put", "patch", "delete"]
HTTPX_EXTRA = ["request", "stream", "Client", "AsyncClient"]
BAD_PROTOCOLS = ["PROTOCOL_SSLv2", "SSLv2_METHOD", "SSLv23_METHOD", "PROTOCOL_SSLv3", "PROTOCOL_TLSv1", "SSLv3_METHOD",
                 "TLSv1_METHOD", "PROTOCOL_TLSv1_1", "TLSv1_1_METHOD"]
GOOD_PROTOCOLS = ["PROTOCOL_TLSv1_2", "PROTOCOL_TLS_CLIENT", "TLSv1_2_METHOD", "TLS_METHOD"]
DEFAULT_THRESHOLDS = {"dsa": (1024, 2048), "rsa": (1024, 2048), "ec": (160, 224)}
CIO = "cryptography.hazmat.primitives.asymmetric."
KEY_FUNCS = [  # (qualified name, key type, positional index of the size / curve, keyword)
    (CIO + "dsa.generate_private_key", "dsa", 0, "key_size"),
    (CIO + "rsa.generate_private_key", "rsa", 1, "key_size"),
    ("Crypto.PublicKey.DSA.generate", "dsa", 0, "bits"),
    ("Crypto.PublicKey.RSA.generate", "rsa", 0, "bits"),
    ("Cryptodome.PublicKey.DSA.generate", "dsa", 0, "bits"),
    ("Cryptodome.PublicKey.RSA.generate", "rsa", 0, "bits"),
]
EC_FUNC = CIO + "ec.generate_private_key"
CURVES = ["SECT571K1", "SECT571R1", "SECP521R1", "BrainpoolP512R1", "SECT409K1", "SECT409R1", "BrainpoolP384R1", "SECP384R1",
          "SECT283K1", "SECT283R1", "BrainpoolP256R1", "SECP256K1", "SECP256R1", "SECT233K1", "SECT233R1", "SECP224R1",
          "SECP192R1", "SECT163K1", "SECT163R2"]

H = ("HIGH", "HIGH")


def curve_bits(name):
    """nominal size of a named curve = the number in its name (SECT571R1 has a 570-bit order: same grade)"""
    digits = "".join(ch if ch.isdigit() else " " for ch in name).split()
    return int(digits[0])


def grade(kt, k, th):
    h, m = th[kt]
    if k < h:
        return ("HIGH", "HIGH")
    if k < m:
        return ("MEDIUM", "HIGH")
    return None


# ----------------------------------------------------------------------------- program construction
def spellings(q):
    """(label, prelude, callee) for a dotted qualified name"""
    parts = q.split(".")
    mod, f = ".".join(parts[:-1]), parts[-1]
    out = [("import_m", f"import {mod}\n", q),
           ("import_m_as", f"import {mod} as al\n", f"al.{f}"),
           ("from_m_import_f", f"from {mod} import {f}\n", f),
           ("from_m_import_f_as", f"from {mod} import {f} as gg\n", "gg")]
    if len(parts) >= 3:
        p, m = ".".join(parts[:-2]), parts[-2]
        out.append(("from_p_import_m", f"from {p} import {m}\n", f"{m}.{f}"))
        out.append(("from_p_import_m_as", f"from {p} import {m} as al\n", f"al.{f}"))
    return out


def render(prelude, callee, args, kws, multiline):
    """returns (source, first_line, last_line) of the call statement"""
    items = list(args) + [f"{k}={v}" for k, v in kws]
    first = prelude.count("\n") + 1
    if multiline and items:
        body = "x = " + callee + "(\n" + "".join(f"    {it},\n" for it in items) + ")\n"
        last = first + len(items) + 1
    else:
        body = "x = " + callee + "(" + ", ".join(items) + ")\n"
        last = first
    return prelude + body, first, last


class Gen:
    def __init__(self, rng, thorough):
        self.rng = rng
        self.thorough = thorough
        self.cases = []       # dict(src, expect, meta, cfg, first, last)
        self.seen = set()

    def pick_spellings(self, q, n=2):
        sp = spellings(q)
        if self.thorough:
            return sp
        # always the plain `import m`, plus n-1 seeded others
        return [sp[0]] + self.rng.sample(sp[1:], min(n - 1, len(sp) - 1))

    def add(self, family, q, args, kws, expect, extra_prelude="", cfg=None, note=None, sp=None, region=None, obs=None):
        for label, pre, callee in (sp or self.pick_spellings(q)):
            # layout: seeded in quick, both in thorough
            for ml in ((False, True) if self.thorough else (self.rng.random() < 0.35,)):
                src, first, last = render(extra_prelude + pre, callee, args, kws, ml)
                key = (src, json.dumps(cfg, sort_keys=True))
                if key in self.seen:
                    continue
                self.seen.add(key)
                self.cases.append(dict(src=src, expect=expect, first=first, last=last, cfg=cfg, region=region, obs=obs,
                                       meta=dict(family=family, func=q, spelling=label, args=list(args), kws=[list(k) for k in kws],
                                                 multiline=ml, note=note)))
                # the same call inside a helper defined ABOVE the import block (imports at the bottom of the module / a lazy initialiser): source order is not
                # execution order, the call still denotes the same function (seeded change C15-m11 asked whether the module had been imported "so far").
                # Only for spellings where the callee is written with its module path (`import m`): an alias bound below is not yet in bandit's table.
                if label == "import_m" and pre.strip() and not ml and (self.thorough or self.rng.random() < 0.3):
                    body = "def early_(b, url, sock, host):\n    x = " + callee + "(" + ", ".join(list(args) + [f"{k}={v}" for k, v in kws]) + ")\n    return x\n\n\n"
                    src2 = body + extra_prelude + pre
                    key2 = (src2, json.dumps(cfg, sort_keys=True))
                    if key2 not in self.seen:
                        self.seen.add(key2)
                        self.cases.append(dict(src=src2, expect=expect, first=2, last=2, cfg=cfg, region=region, obs=obs,
                                               meta=dict(family=family, func=q, spelling=label + "+imports-last", args=list(args), kws=[list(k) for k in kws], multiline=False, note=note)))

    def add_raw(self, family, src, first, last, expect, cfg=None, note=None, obs=None):
        key = (src, json.dumps(cfg, sort_keys=True))
        if key in self.seen:
            return
        self.seen.add(key)
        self.cases.append(dict(src=src, expect=expect, first=first, last=last, cfg=cfg, region=None, obs=obs,
                               meta=dict(family=family, func=None, spelling="raw", note=note)))


# value shapes: (source text, kind)   kind in: lit, name, attr, call, expr
NONLITERALS = [("KEY_BITS", "name"), ("settings.BITS", "attr"), ("get_size()", "call"), ("sizes[0]", "expr"),
               ("1024 * 2", "expr"), ("-1", "expr")]
WRONG_TYPED = [("'1024'", "str"), ("None", "none"), ("True", "bool"), ("1024.0", "float"), ("1023.5", "float"), ("1e999", "float")]
CRASHERS = [("[1024]", "list"), ("(1024,)", "tuple"), ("b'1024'", "bytes"), ("1j", "complex"), ("{1024}", "set"), ("{'a': 1}", "dict")]


def gen_b324(g):
    all_ids = {"B324": None}
    ufs_vals = [(None, "default"), ("True", "true"), ("False", "false"), ("flag", "name"), ("f()", "call"), ("0", "int0"),
                ("None", "none"), ("'True'", "strTrue")]
    for h in WEAK_HASHES + STRONG_HASHES:
        weak = h in WEAK_HASHES
        for uv, ul in ufs_vals:
            kws = [] if uv is None else [("usedforsecurity", uv)]
            if not weak or ul == "false":
                exp = {"B324": None}
            elif ul in ("default", "true"):
                exp = {"B324": H}
            else:
                exp = {}        # statically unknown / odd usedforsecurity: no opinion
            g.add("b324-direct", "hashlib." + h, ["b'data'"], kws, exp, note=ul)
    # hashlib.new
    names = [(repr(h), "weak", h) for h in WEAK_HASHES] + [("'MD5'", "weak", "MD5"), ("'Sha1'", "weak", "Sha1"), ("'MD4'", "weak", "MD4")] + \
            [(repr(h), "strong", h) for h in STRONG_HASHES[:3]] + [("'md55'", "strong", None), ("'xmd5'", "strong", None), ("''", "strong", None)] + \
            [("algo", "unknown", None), ("pick()", "unknown", None), ("cfg.algo", "unknown", None), ("md5", "unknown", None),
             ("b'md5'", "wrongtype", None), ("5", "wrongtype", None), ("None", "wrongtype", None), ("['md5']", "wrongtype", None),
             ("('md5',)", "wrongtype", None), ("'\\u212a'", "strong", None), ("'\\uff2d\\uff245'", "strong", None)]
    for txt, cls, _ in names:
        for placement in ("pos", "kw"):
            for uv, ul in ufs_vals[:3] + ([ufs_vals[4]] if g.thorough else []):
                args = [txt] if placement == "pos" else []
                kws = ([("name", txt)] if placement == "kw" else []) + ([] if uv is None else [("usedforsecurity", uv)])
                if cls == "weak" and ul in ("default", "true"):
                    exp = {"B324": H}
                elif cls in ("strong", "wrongtype") or ul == "false":
                    exp = {"B324": None}
                else:
                    exp = {}
                g.add("b324-new", "hashlib.new", args, kws, exp, note=f"{cls}/{placement}/{ul}")
    g.add("b324-new", "hashlib.new", [], [], {"B324": None}, note="no-args")
    g.add("b324-new", "hashlib.new", ["'sha256'"], [("name", "'md5'")], {}, note="both (TypeError at run time)")
    g.add("b324-new", "hashlib.new", ["'md5'", "b'x'"], [], {"B324": H}, note="extra positional")
    # crashes (C06): a set display with an unhashable element anywhere among the arguments
    g.add("b324-crash", "hashlib.md5", ["b'x'"], [("extra", "{[1]}")], {"B324": H}, note="kw set-of-list")
    g.add("b324-crash", "hashlib.new", ["{[1]}"], [], {"B324": None}, note="pos set-of-list")
    g.add("b324-crash", "hashlib.sha256", ["{[1]}"], [], {"B324": None}, note="positional not evaluated for direct constructors")
    # crypt
    for m in WEAK_CRYPT + STRONG_CRYPT:
        exp = {"B324": ("MEDIUM", "HIGH")} if m in WEAK_CRYPT else {"B324": None}
        for form in (f"crypt.{m}", m):
            pre = "import crypt\n" if form.startswith("crypt.") else f"from crypt import {m}\n"
            g.add("b324-crypt", "crypt.crypt", ["'pw'", form], [], exp, extra_prelude=pre, note="pos")
            g.add("b324-crypt", "crypt.crypt", ["'pw'"], [("salt", form)], exp, extra_prelude=pre, note="kw")
            g.add("b324-crypt", "crypt.mksalt", [form], [], exp, extra_prelude=pre, note="pos")
            g.add("b324-crypt", "crypt.mksalt", [], [("method", form)], exp, extra_prelude=pre, note="kw")
    for v, _ in [("pick()", 0), ("None", 0), ("5", 0), ("b'METHOD_MD5'", 0)]:
        g.add("b324-crypt", "crypt.crypt", ["'pw'", v], [], {"B324": None}, note="unknown/wrongtype salt")
        g.add("b324-crypt", "crypt.mksalt", [], [("method", v)], {"B324": None}, note="unknown/wrongtype method")
    g.add("b324-crypt", "crypt.crypt", ["'pw'"], [], {"B324": None}, note="default salt")
    g.add("b324-crypt", "crypt.mksalt", [], [], {"B324": None}, note="default method")
    # near misses: the same function NAME on another module / another function of the keyed module (found by tools/mutation: `'crypt' in qualname and func in (...)`
    # mutated to `or` survived every check)
    for src in ("import crypt, passlib\npasslib.mksalt(crypt.METHOD_MD5)\n", "import crypt\nother.crypt('pw', crypt.METHOD_MD5)\n", "import crypt\ncrypt.other(crypt.METHOD_MD5)\n",
                "import crypt\nmksalt(crypt.METHOD_CRYPT)\n", "import mylib\nmylib.md5(b'x')\n", "import hashlibx\nhashlibx.new('md5')\n", "import hashlib\nhashlib.newx('md5')\n",
                "import hashlib\nobj.hashlib_new('md5')\n", "import crypt\nx.crypt.method('pw', 'METHOD_MD5')\n"):
        ln = src.count("\n")
        # a callee whose OWN name is `crypt` always has "crypt" among its dotted components: bandit keys on that, the property does not say — no opinion there
        exp = {} if "other.crypt(" in src else {"B324": None}
        g.add_raw("b324-nearmiss", src, ln, ln, exp, note=src.splitlines()[-1])
    _ = all_ids


def key_values(th, kt):
    h, m = th[kt]
    vals = {1, 2, 3, 512, h - 1, h, h + 1, m - 1, m, m + 1, 1023, 1024, 2047, 2048, 3072, 4096, 16384}
    return sorted(v for v in vals if v > 0)


CUSTOM_KEY_CFGS = [
    {"weak_key_size_dsa_high": 2048, "weak_key_size_dsa_medium": 3072, "weak_key_size_rsa_high": 2048, "weak_key_size_rsa_medium": 4096,
     "weak_key_size_ec_high": 224, "weak_key_size_ec_medium": 384},
    {"weak_key_size_dsa_high": 512, "weak_key_size_dsa_medium": 512, "weak_key_size_rsa_high": 768, "weak_key_size_rsa_medium": 1024,
     "weak_key_size_ec_high": 100, "weak_key_size_ec_medium": 163},
]


def thresholds_of(cfg):
    if cfg is None:
        return DEFAULT_THRESHOLDS
    return {k: (cfg[f"weak_key_size_{k}_high"], cfg[f"weak_key_size_{k}_medium"]) for k in ("dsa", "rsa", "ec")}


def gen_b505(g):
    for cfg in [None] + CUSTOM_KEY_CFGS:
        th = thresholds_of(cfg)
        pc = None if cfg is None else {"weak_cryptographic_key": cfg}
        for q, kt, pos, kw in KEY_FUNCS:
            lead = ["65537"] if pos == 1 else []
            for k in key_values(th, kt):
                gr = grade(kt, k, th)
                g.add("b505-size", q, lead + [str(k)], [], {"B505": gr}, cfg=pc, note=f"pos/{k}")
                g.add("b505-size", q, [], ([("public_exponent", "65537")] if pos == 1 else []) + [(kw, str(k))], {"B505": gr}, cfg=pc, note=f"kw/{k}")
            if cfg is None:
                g.add("b505-default", q, lead, [], {"B505": None}, note="default size")
                g.add("b505-zero", q, [], [(kw, "0")], {}, note="kw/0", obs="key size 0 unflagged (or-chain)")
                g.add("b505-zero", q, lead + ["0"], [], {}, note="pos/0", obs="key size 0 unflagged (or-chain)")
                for txt, kind in NONLITERALS:
                    g.add("b505-nonliteral", q, lead + [txt], [], {"B505": None}, note=f"pos/{kind}")
                    g.add("b505-nonliteral", q, [], [(kw, txt)], {"B505": None}, note=f"kw/{kind}")
                for txt, kind in WRONG_TYPED:
                    g.add("b505-wrongtype", q, lead + [txt], [], {}, note=f"pos/{kind}")
                    g.add("b505-wrongtype", q, [], [(kw, txt)], {}, note=f"kw/{kind}")
                for txt, kind in CRASHERS:      # former TypeError shapes (/repo 6e22cbb): not a number => not graded
                    g.add("b505-crash", q, lead + [txt], [], {"B505": None}, note=f"pos/{kind}")
                    g.add("b505-crash", q, [], [(kw, txt)], {"B505": None}, note=f"kw/{kind}")
                g.add("b505-crash", q, lead + ["2048"], [("extra", "{[1]}")], {"B505": None}, note="kw set-of-list")
            else:
                for txt, kind in NONLITERALS[:3]:
                    # a name/attribute is never graded; an unknown expression falls back to 2048, which a stricter config may grade
                    g.add("b505-nonliteral", q, [], [(kw, txt)], {"B505": None} if kind in ("name", "attr") else {}, cfg=pc, note=f"kw/{kind}")
        # EC
        for c in CURVES:
            gr = grade("ec", curve_bits(c), th)
            pre_mod = "from cryptography.hazmat.primitives.asymmetric import ec as ecm\n"
            g.add("b505-ec", EC_FUNC, [f"ecm.{c}"], [], {"B505": gr}, extra_prelude=pre_mod, cfg=pc, note=f"pos/attr/{c}")
            g.add("b505-ec", EC_FUNC, [], [("curve", f"ecm.{c}")], {"B505": gr}, extra_prelude=pre_mod, cfg=pc, note=f"kw/attr/{c}")
            if cfg is None or g.thorough:
                pre_name = f"from cryptography.hazmat.primitives.asymmetric.ec import {c}\n"
                g.add("b505-ec", EC_FUNC, [c], [("backend", "be")], {"B505": gr}, extra_prelude=pre_name, cfg=pc, note=f"pos/name/{c}")
                g.add("b505-ec", EC_FUNC, [], [("curve", c)], {"B505": gr}, extra_prelude=pre_name, cfg=pc, note=f"kw/name/{c}")
                g.add("b505-ec-instance", EC_FUNC, [f"ecm.{c}()"], [], {}, extra_prelude=pre_mod, cfg=pc, note=f"pos/call/{c}",
                      obs="curve instance ec.X() is not recognised (treated as 224 bits)")
        if cfg is None:
            for txt, kind in [("curve_var", "name"), ("pick_curve()", "call"), ("cfg.curve", "attr"), ("None", "none"), ("'SECP192R1'", "str"), ("163", "int")]:
                g.add("b505-ec-nonliteral", EC_FUNC, [txt], [], {} if kind == "str" else {"B505": None}, note=f"pos/{kind}")
                g.add("b505-ec-nonliteral", EC_FUNC, [], [("curve", txt)], {} if kind == "str" else {"B505": None}, note=f"kw/{kind}")
            g.add("b505-ec-nonliteral", EC_FUNC, [], [], {"B505": None}, note="no curve")
            for txt, kind in [("[1]", "list"), ("{1}", "set"), ("{'a': 1}", "dict"), ("([1],)", "tuple-of-list"), ("{[1]}", "set-of-list")]:
                g.add("b505-ec-crash", EC_FUNC, [txt], [], {"B505": None}, note=f"pos/{kind}")
                g.add("b505-ec-crash", EC_FUNC, [], [("curve", txt)], {"B505": None}, note=f"kw/{kind}")
            g.add("b505-ec-crash", EC_FUNC, ["(1, 2)"], [], {"B505": None}, note="hashable tuple")


CUSTOM_PROTO_CFG = {"bad_protocol_versions": ["PROTOCOL_TLSv1_2", "MY_METHOD", "SSLv3_METHOD"]}


def gen_ssl(g):
    for cfg in (None, CUSTOM_PROTO_CFG):
        bad = BAD_PROTOCOLS if cfg is None else cfg["bad_protocol_versions"]
        pc = None if cfg is None else {"ssl_with_bad_version": cfg}
        protos = sorted(set(BAD_PROTOCOLS + GOOD_PROTOCOLS + CUSTOM_PROTO_CFG["bad_protocol_versions"]))
        for p in protos:
            isbad = p in bad
            for form, pre in ((f"ssl.{p}", "import ssl\n"), (p, f"from ssl import {p}\n")):
                # ssl.wrap_socket
                g.add("b502-wrap", "ssl.wrap_socket", ["sock"], [("ssl_version", form)],
                      {"B502": H if isbad else None, "B504": None}, extra_prelude=pre, cfg=pc, note=p)
                # SSL.Context
                g.add("b502-context", "pyOpenSSL.SSL.Context", [], [("method", form.replace("ssl.", "SSL."))],
                      {"B502": H if isbad else None}, extra_prelude="from pyOpenSSL import SSL\n", cfg=pc, note=p,
                      sp=[s for s in spellings("pyOpenSSL.SSL.Context") if g.thorough or s[0] in ("from_p_import_m", "import_m", "from_m_import_f")])
                # other calls
                mm = ("MEDIUM", "MEDIUM")
                for callee in ("connect", "obj.handshake", "OpenSSL.SSL.Context"):
                    for kwn in ("method", "ssl_version"):
                        src, first, last = render(pre + "import OpenSSL\n", callee, ["a"], [(kwn, form)], g.rng.random() < 0.3)
                        g.add_raw("b502-other", src, first, last, {"B502": mm if isbad else None}, cfg=pc, note=f"{callee}/{kwn}/{p}")
                # other calls carrying BOTH keywords: each is decided on its own, so a harmless `method=` (an HTTP verb, a variable, a secure constant)
                # must not hide an insecure `ssl_version=` nor the other way round (seeded change C15-m2: `method or ssl_version` picked one value)
                for other in ("'GET'", "verb", "ssl.PROTOCOL_TLS_CLIENT", "None"):
                    for order in (0, 1):
                        for bad_kw, ok_kw in (("ssl_version", "method"), ("method", "ssl_version")):
                            kws = [(bad_kw, form), (ok_kw, other)]
                            if order:
                                kws.reverse()
                            src, first, last = render(pre + "import ssl\n", "pool.request", ["url"], kws, False)
                            g.add_raw("b502-other-both", src, first, last, {"B502": mm if isbad else None}, cfg=pc, note=f"{bad_kw}={p}/{ok_kw}={other}/{order}")
            # B503 defaults
            for form, pre in ((f"ssl.{p}", "import ssl\n"), (f"SSL.{p}", "from OpenSSL import SSL\n"), (f"al.{p}", "import ssl as al\n")):
                src = pre + f"def open_it(host, port=443, version={form}, *rest):\n    pass\n"
                ln = pre.count("\n") + 1
                g.add_raw("b503", src, ln, ln, {"B503": ("MEDIUM", "MEDIUM") if isbad else None}, cfg=pc, note=p)
                # defaults carried by positional-only parameters are function defaults too (seeded change C15-m7 paired node.args.args with the
                # defaults and so never looked at them)
                for sig in (f"sock, version={form}, /", f"sock, retries=3, /, version={form}", f"version={form}, /, *, other=None", f"a, /, b, version={form}, **kw"):
                    src = pre + f"def open_it({sig}):\n    pass\n"
                    g.add_raw("b503", src, ln, ln, {"B503": ("MEDIUM", "MEDIUM") if isbad else None}, cfg=pc, note=p + ":posonly")
        if cfg is None:
            g.add("b504", "ssl.wrap_socket", ["sock"], [], {"B504": ("LOW", "MEDIUM"), "B502": None}, note="no version")
            g.add("b504", "ssl.wrap_socket", [], [("keyfile", "'k'"), ("server_side", "True")], {"B504": ("LOW", "MEDIUM"), "B502": None}, note="no version")
            for txt, kind in (("pick()", "call"), ("versions[0]", "expr"), ("proto or ssl.PROTOCOL_TLS", "expr")):
                g.add("b504-unknown", "ssl.wrap_socket", ["sock"], [("ssl_version", txt)], {"B502": None}, extra_prelude="import ssl\n", note=kind,
                      obs="statically unknown ssl_version is reported as 'no version' (B504)")
            for txt, kind in (("proto", "name"), ("cfg.proto", "attr"), ("'PROTOCOL_SSLv2'", "str"), ("3", "int")):
                g.add("b504-known", "ssl.wrap_socket", ["sock"], [("ssl_version", txt)], {"B504": None} if kind != "str" else {}, note=kind)
            g.add("b502-crash", "ssl.wrap_socket", ["sock"], [("ssl_version", "ssl.PROTOCOL_SSLv2"), ("extra", "{[1]}")], {"B502": H, "B504": None}, extra_prelude="import ssl\n", note="kw set-of-list")
            g.add("b502-positional", "ssl.wrap_socket", ["sock", "None", "None", "False", "ssl.CERT_NONE", "ssl.PROTOCOL_SSLv3"], [], {}, extra_prelude="import ssl\n",
                  note="positional ssl_version", obs="a positional ssl_version is not looked at (B504 fires, B502 silent)")
            # B503 shapes outside the documented one
            for src, note in (("from ssl import PROTOCOL_SSLv2\ndef f(v=PROTOCOL_SSLv2):\n    pass\n", "bare-name default"),
                              ("import ssl\ndef f(*, v=ssl.PROTOCOL_SSLv2):\n    pass\n", "kw-only default"),
                              ("import ssl\nasync def f(v=ssl.PROTOCOL_SSLv2):\n    pass\n", "async def"),
                              ("import ssl\nf = lambda v=ssl.PROTOCOL_SSLv2: v\n", "lambda")):
                g.add_raw("b503-other", src, 2, 3, {}, note=note, obs="B503 looks at positional defaults of plain `def` written as attributes only")
            for src, note in (("def f(a, b=1, c='x', d=None, e=(1, 2), g=h()):\n    pass\n", "no protocol default"),
                              ("def f():\n    pass\n", "no defaults"),
                              ("import ssl\ndef f(v=ssl.PROTOCOL_TLSv1_2, w=ssl.OP_NO_SSLv2):\n    pass\n", "good defaults"),
                              ("import ssl\ndef f(v=a.b.c.PROTOCOL_TLS):\n    pass\n", "deep attribute good")):
                g.add_raw("b503", src, 1, 3, {"B503": None}, note=note)
            g.add_raw("b503", "def f(v=a.b.c.PROTOCOL_SSLv3):\n    pass\n", 1, 1, {"B503": ("MEDIUM", "MEDIUM")}, note="deep attribute bad")
            g.add_raw("b503", "import ssl\ndef f(a=1, v=ssl.PROTOCOL_TLSv1_2, w=ssl.PROTOCOL_TLSv1):\n    pass\n", 2, 2, {"B503": ("MEDIUM", "MEDIUM")}, note="second default bad")


def gen_http(g):
    targets = [("requests." + v, True, True) for v in HTTP_VERBS] + [("httpx." + v, True, False) for v in HTTP_VERBS + HTTPX_EXTRA]
    verify_vals = [(None, "absent"), ("True", "true"), ("False", "false"), ("'/etc/ca.pem'", "path"), ("flag", "name"), ("cfg.verify", "attr"),
                   ("f()", "call"), ("0", "int0"), ("None", "none"), ("'False'", "strFalse"), ("not True", "expr")]
    timeout_vals = [(None, "absent"), ("None", "none"), ("5", "int"), ("0", "int0"), ("3.05", "float"), ("(3, 27)", "tuple"), ("T", "name"),
                    ("cfg.timeout", "attr"), ("f()", "call"), ("x or 5", "expr"), ("'None'", "strNone"), ("httpx.Timeout(5)", "call")]
    for q, keyed, is_requests in targets:
        for vv, vl in verify_vals:
            kws = [("timeout", "5")] + ([] if vv is None else [("verify", vv)])
            if vl == "false":
                exp = {"B501": H, "B113": None}
            elif vl in ("absent", "true", "path"):
                exp = {"B501": None, "B113": None}
            else:
                exp = {"B113": None}
            g.add("b501", q, ["url"], kws, exp, note=vl)
        for tv, tl in timeout_vals:
            kws = [] if tv is None else [("timeout", tv)]
            obs = None
            if tl == "none":
                exp = {"B113": ("MEDIUM", "LOW")}
            elif tl == "absent":
                exp = {"B113": ("MEDIUM", "LOW") if is_requests else None}
            elif tl in ("int", "float", "tuple", "name", "attr"):
                exp = {"B113": None}
            elif tl in ("call", "expr"):
                exp = {}
                obs = "statically unknown timeout is reported as 'without timeout' (requests only)" if is_requests else None
            else:
                exp = {}
            exp["B501"] = None
            g.add("b113", q, ["url"], kws, exp, note=tl, obs=obs)
    # near misses: not keyed
    for q in ("requests.request", "requests.Session", "requests.api.get", "urllib.request.urlopen", "httpx.Timeout", "myrequests.get", "httpxx.get", "requestsx.post"):
        g.add("http-nearmiss", q, ["url"], [("verify", "False")], {"B501": None} if q not in ("requests.request", "requests.Session", "requests.api.get") else {},
              note="verify=False on a function that is not keyed")
    g.add("http-crash", "requests.get", ["url"], [("data", "{[1]}"), ("timeout", "5")], {"B501": None, "B113": None}, note="kw set-of-list")
    g.add("http-crash", "requests.get", ["{[1]}"], [("timeout", "5"), ("verify", "True")], {"B501": None, "B113": None}, note="positional set-of-list is not evaluated")


def gen_ssh(g):
    imports = [("import paramiko\n", "paramiko."), ("import paramiko as pk\n", "pk."), ("from paramiko import client\n", "client."),
               ("from paramiko import AutoAddPolicy, WarningPolicy, RejectPolicy, SSHClient\n", ""), ("from paramiko.client import *\n", "")]
    hm = ("HIGH", "MEDIUM")
    for pre, pfx in imports:
        base = pre + "ssh = object()\n"
        shapes = []
        for pol, bad in (("AutoAddPolicy", True), ("WarningPolicy", True), ("RejectPolicy", False), ("MissingHostKeyPolicy", False)):
            shapes.append((f"{pfx}{pol}", bad))
            shapes.append((f"{pfx}{pol}()", bad))
        for txt, bad in shapes:
            src, first, last = render(base, "ssh.set_missing_host_key_policy", [txt], [], g.rng.random() < 0.3)
            g.add_raw("b507", src, first, last, {"B507": hm if bad else None}, note=txt)
        for txt, note in (("policy", "name"), ("make_policy()", "call"), ("MyPolicy()", "custom"), ("policies[0]", "subscript"), ("lambda: 1", "lambda"),
                          ("None", "none")):
            src, first, last = render(base, "ssh.set_missing_host_key_policy", [txt], [], False)
            g.add_raw("b507", src, first, last, {"B507": None}, note=note)
        src, first, last = render(base, "ssh.set_missing_host_key_policy", [], [("policy", f"{pfx}AutoAddPolicy")], False)
        g.add_raw("b507-kw", src, first, last, {}, note="policy by keyword", obs="a policy passed by keyword is not looked at (B507)")
        src, first, last = render(base, "ssh.set_missing_host_key_policy", [], [], False)
        g.add_raw("b507", src, first, last, {"B507": None}, note="no argument")
        src, first, last = render(base, "ssh.set_missing_host_key_policy", ["'AutoAddPolicy'"], [], False)
        g.add_raw("b507", src, first, last, {}, note="string")
    src, first, last = render("ssh = object()\n", "ssh.set_missing_host_key_policy", ["AutoAddPolicy"], [], False)
    g.add_raw("b507-noimport", src, first, last, {}, note="paramiko not imported")
    src, first, last = render("import paramiko\nssh = object()\n", "ssh.set_missing_host_key_policy", ["{[1]}"], [], False)
    g.add_raw("b507", src, first, last, {"B507": None}, note="set-of-list argument (not evaluated)")


def gen_snmp(g):
    mh = ("MEDIUM", "HIGH")
    for v, exp in (("0", mh), ("1", mh), ("2", None), ("3", None)):
        g.add("b508", "pysnmp.hlapi.CommunityData", ["'public'"], [("mpModel", v)], {"B508": exp, "B509": None}, note=v)
    for v, note in (("model", "name"), ("pick()", "call"), ("cfg.model", "attr"), ("'0'", "str"), ("0.0", "float0"), ("True", "bool"), ("None", "none")):
        g.add("b508", "pysnmp.hlapi.CommunityData", ["'public'"], [("mpModel", v)], {"B509": None}, note=note)
    g.add("b508", "pysnmp.hlapi.CommunityData", ["'public'"], [], {"B509": None}, note="no mpModel", obs="CommunityData without mpModel (SNMPv2c by default) is not reported")
    g.add("b508", "pysnmp.hlapi.CommunityData", ["'public'", "'public'", "0"], [], {"B509": None}, note="positional mpModel",
          obs="a positional mpModel is not looked at (B508)")
    g.add("b508-crash", "pysnmp.hlapi.CommunityData", ["'public'"], [("mpModel", "0"), ("tag", "{[1]}")], {"B508": ("MEDIUM", "HIGH")}, note="kw set-of-list")
    # B509: positional
    for n in range(0, 6):
        args = ["'user'", "'authkey1'", "'privkey1'", "authProtocol", "privProtocol"][:n]
        g.add("b509", "pysnmp.hlapi.UsmUserData", args, [], {"B509": mh if n < 3 else None, "B508": None}, note=f"{n} positional")
    g.add("b509", "pysnmp.hlapi.UsmUserData", ["'user'"], [("authKey", "'authkey1'")], {"B509": mh}, note="authNoPriv by keyword")
    g.add("b509", "pysnmp.hlapi.UsmUserData", ["'user'"], [("authProtocol", "usmHMACSHAAuthProtocol")], {"B509": mh}, note="noAuthNoPriv + protocol keyword")
    # encrypted, keys by keyword: the secure variant under keyword placement
    g.add("b509-keyword", "pysnmp.hlapi.UsmUserData", ["'user'"], [("authKey", "'authkey1'"), ("privKey", "'privkey1'")], {"B509": None},
          note="authPriv, both keys by keyword (fixed finding C15-b509-keyword-keys, /repo 60708c5)")
    g.add("b509-keyword", "pysnmp.hlapi.UsmUserData", ["'user'", "'authkey1'"], [("privKey", "'privkey1'")], {"B509": None},
          note="authPriv, priv key by keyword")
    g.add("b509-keyword", "pysnmp.hlapi.UsmUserData", [], [("userName", "'user'"), ("authKey", "'authkey1'"), ("privKey", "'privkey1'")], {"B509": None},
          note="authPriv, everything by keyword")
    g.add("b509", "pysnmp.hlapi.UsmUserData", ["{[1]}"], [], {"B509": mh}, note="set-of-list argument (not evaluated)")
    # keys given as expressions bandit cannot reduce: the decision is about WHICH arguments are passed, not about their values
    # (seeded change C15-m3 asked check_call_arg_value(...) is not None, which is None for such values too)
    for val in ("os.environ['K']", "os.getenv('K')", "get_key()", "KEYS[0]", "cfg.key", "key", "b'raw'", "f'{k}'", "a or b"):
        g.add("b509-keyword", "pysnmp.hlapi.UsmUserData", ["'user'"], [("authKey", val), ("privKey", val)], {"B509": None}, extra_prelude="import os\n", note=f"authPriv keyword values {val}")
        g.add("b509-keyword", "pysnmp.hlapi.UsmUserData", ["'user'", val], [("privKey", "'p'")], {"B509": None}, extra_prelude="import os\n", note=f"positional auth {val}")
        g.add("b509", "pysnmp.hlapi.UsmUserData", ["'user'"], [("authKey", val)], {"B509": mh}, extra_prelude="import os\n", note=f"authNoPriv keyword value {val}")


ODD_CFGS = [
    # (settings, note) — malformed / unusual settings: no oracle (bad configuration is C13's subject), the model must still agree
    ({"weak_cryptographic_key": {"weak_key_size_rsa_high": 1024, "weak_key_size_rsa_medium": 2048}}, "thresholds missing (KeyError in the check)"),
    ({"weak_cryptographic_key": dict(CUSTOM_KEY_CFGS[0], weak_key_size_rsa_high="1024")}, "string threshold (TypeError in the check)"),
    ({"weak_cryptographic_key": dict(CUSTOM_KEY_CFGS[0], weak_key_size_rsa_high=True)}, "boolean threshold"),
    ({"weak_cryptographic_key": dict(CUSTOM_KEY_CFGS[0], weak_key_size_dsa_high=4096, weak_key_size_dsa_medium=1024)}, "incoherent thresholds (high > medium)"),
    ({"ssl_with_bad_version": {"bad_protocol_versions": "PROTOCOL_SSLv2"}}, "protocol list given as a string"),
    ({"ssl_with_bad_version": {"bad_protocol_versions": 5}}, "protocol list given as an int"),
    ({"ssl_with_bad_version": {"bad_protocol_versions": []}}, "empty protocol list"),
    ({"ssl_with_bad_version": {"other": 1}}, "bad_protocol_versions missing (KeyError in the checks)"),
    ({"ssl_with_bad_version": {"bad_protocol_versions": ["PROTOCOL_SSLv2", 3, None, True]}}, "mixed-type protocol list"),
]


def gen_odd_configs(g):
    progs = [
        ("from cryptography.hazmat.primitives.asymmetric import rsa, dsa\nrsa.generate_private_key(65537, 512)\n", 2),
        ("from cryptography.hazmat.primitives.asymmetric import rsa, dsa\ndsa.generate_private_key(key_size=2048)\n", 2),
        ("from cryptography.hazmat.primitives.asymmetric import rsa, dsa\nrsa.generate_private_key(key_size=SIZE)\n", 2),
        ("from Crypto.PublicKey import RSA\nRSA.generate(1)\n", 2),
        ("import ssl\nssl.wrap_socket(s, ssl_version=ssl.PROTOCOL_SSLv2)\n", 2),
        ("import ssl\nssl.wrap_socket(s, ssl_version=3)\n", 2),
        ("import ssl\nssl.wrap_socket(s, ssl_version=True)\n", 2),
        ("import ssl\nconnect(method=ssl.PROTOCOL_SSL)\n", 2),
        ("import ssl\ndef f(a=1, v=ssl.PROTOCOL_SSLv2):\n    pass\n", 2),
        ("import ssl\ndef f(v=ssl.SSL):\n    pass\n", 2),
        ("def f(a=1, b=x):\n    pass\n", 1),
        ("def f(a):\n    pass\n", 1),
        ("print(1)\n", 1),
    ]
    for cfg, note in ODD_CFGS:
        for src, ln in progs:
            g.add_raw("odd-config", src, ln, ln, {}, cfg=cfg, note=note)


FAMILIES = [gen_b324, gen_b505, gen_ssl, gen_http, gen_ssh, gen_snmp, gen_odd_configs]


# ----------------------------------------------------------------------------- evaluation
def write_cfg(dirpath, idx, plugin_cfg):
    import yaml
    p = os.path.join(dirpath, f"cfg{idx}.yaml")
    with open(p, "w") as f:
        yaml.safe_dump(plugin_cfg, f)
    return p


def check_oracle(case, real):
    """returns list of (what, detail) where the implementation's output contradicts the oracle"""
    bad = []
    mine = [f for f in real["findings"] if f[0] in MY_IDS]
    for tid, want in case["expect"].items():
        got = [f for f in mine if f[0] == tid]
        if want is None:
            if got:
                bad.append((f"{tid} reported on a call the decision table leaves silent", [list(f) for f in got]))
        else:
            ok = [f for f in got if (f[1], f[2]) == tuple(want) and case["first"] <= f[3] <= case["last"]]
            if len(ok) != 1 or len(got) != 1:
                bad.append((f"{tid} {want[0]}/{want[1]} expected exactly once within lines {case['first']}-{case['last']}", [list(f) for f in got]))
    return bad


def run_cases(res, ctx, cases, scratch, cfgdir):
    """groups cases by configuration, runs real bandit + the model, evaluates oracle and correspondence"""
    groups = {}
    for c in cases:
        groups.setdefault(json.dumps(c["cfg"], sort_keys=True), []).append(c)
    d = C.Driver() if ctx["driver_ok"] else None
    c06 = {}
    observations = {}
    try:
        for gi, (key, cs) in enumerate(sorted(groups.items())):
            cfg = json.loads(key)
            cfg_file = write_cfg(cfgdir, gi, cfg) if cfg else None
            sources = [c["src"].encode() for c in cs]
            real = C.batch_real_scan(scratch, sources, config_file=cfg_file)
            model = None
            if d is not None:
                model = d.ask_many([C.scan_request(s, plugin_cfg=cfg) for s in sources])
            for i, c in enumerate(cs):
                rl = real[i]
                meta = c["meta"]
                mine = [f for f in rl["findings"] if f[0] in MY_IDS]
                my_err = sorted(e for e in rl["errors"] if e in MY_FUNCS)
                sample = None
                if (i % 397) == 0:
                    sample = {"program": c["src"], "plugin_cfg": cfg, "expect": {k: (list(v) if v else None) for k, v in c["expect"].items()},
                              "real": [list(f[:4]) for f in mine], "real_crashes": my_err}
                res.case((c["src"], key), bool(c["expect"]) or bool(mine) or bool(my_err), sample=sample)
                res.count("family:" + meta["family"])
                res.count("spelling:" + meta["spelling"])
                res.count("config:" + ("default" if not cfg else "custom"))
                for f in mine:
                    res.count(f"fired:{f[0]}/{f[1]}")
                if rl["skipped"] is not None:
                    res.violation("generated program was skipped by bandit", {"program": c["src"], "reason": rl["skipped"]})
                    continue
                for e in my_err:
                    if meta["family"] == "odd-config":
                        res.count("config-induced-crash:" + e)      # malformed settings: C13's subject
                    else:
                        c06.setdefault(e, []).append({"program": c["src"], "note": meta.get("note")})
                        res.count("c06-crash:" + e)
                        # since /repo fixes 6e22cbb + set-display fix none of the ten checks raises on valid Python
                        # with well-formed settings (theorems REG_*_no_crash, b505_classify_total)
                        res.violation(f"check `{e}` raised an internal error on valid Python (decision lost)",
                                      {"program": c["src"], "plugin_cfg": cfg, "expect": {k: (list(v) if v else None) for k, v in c["expect"].items()},
                                       "first": c["first"], "last": c["last"], "region": None, "real_crashes": my_err, "meta": meta})
                if c["obs"]:
                    observations.setdefault(c["obs"], {"count": 0, "example": c["src"], "real": [list(f[:4]) for f in mine]})["count"] += 1
                    res.count("observation-case")
                # (1) correspondence: model vs implementation on the ten IDs and their crashes
                agree = None
                if model is not None:
                    m = model[i]
                    if "error" in m:
                        res.break_("driver-error", m["error"])
                        agree = False
                    else:
                        mf = C.norm_findings([f for f in m["findings"] if f[0] in MY_IDS])
                        rf = C.norm_findings(mine)
                        mc = sorted(x for x in m.get("crashes", []) if x in MY_FUNCS)
                        agree = (mf == rf and mc == my_err)
                        if not agree:
                            res.break_("correspondence", {"program": c["src"], "plugin_cfg": cfg, "real": [list(x) for x in rf], "model": [list(x) for x in mf],
                                                          "real_crashes": my_err, "model_crashes": mc})
                            res.count("correspondence-mismatch")
                # (2) spec oracle on the implementation's output
                for what, detail in check_oracle(c, rl):
                    res.violation(what, {"program": c["src"], "plugin_cfg": cfg, "expect": {k: (list(v) if v else None) for k, v in c["expect"].items()},
                                         "first": c["first"], "last": c["last"], "region": c["region"],
                                         "real_findings": [list(f) for f in mine], "real_crashes": my_err, "meta": meta})
    finally:
        if d is not None:
            d.close()
    return c06, observations


# the kernel-checked witnesses of Props/C15.lean, replayed on the real code: (theorem, program, expected (id, sev) list, expected crashes)
WITNESSES = [
    ("NEG_keysize_zero", "from cryptography.hazmat.primitives.asymmetric import rsa\nrsa.generate_private_key(key_size=0)\n", [], []),
    ("NEG_keysize_zero", "from cryptography.hazmat.primitives.asymmetric import rsa\nrsa.generate_private_key(key_size=1)\n", [("B505", "HIGH")], []),
    ("NEG_timeout_opaque", "import requests\nrequests.get(u, timeout=f())\n", [("B113", "MEDIUM")], []),
    ("NEG_timeout_opaque", "import requests\nrequests.get(u, timeout=5)\n", [], []),
    ("NEG_b509_positional_only (fixed)", "from pysnmp.hlapi import UsmUserData\nUsmUserData('u', authKey='a', privKey='p')\n", [], []),
    ("REG_list_keysize_no_crash", "from Crypto.PublicKey import RSA\nRSA.generate([1])\n", [], []),
    ("REG_unhashable_curve_no_crash", "from cryptography.hazmat.primitives.asymmetric import ec\nec.generate_private_key([1])\n", [], []),
    ("REG_set_display_no_crash", "import requests\nrequests.get(data={[]})\n", [("B113", "MEDIUM")], []),
]


def replay_witnesses(res, scratch):
    real = C.batch_real_scan(scratch, [w[1].encode() for w in WITNESSES])
    for (thm, src, want, crashes), rl in zip(WITNESSES, real):
        got = sorted((f[0], f[1]) for f in rl["findings"] if f[0] in MY_IDS)
        gc = sorted(e for e in rl["errors"] if e in MY_FUNCS)
        res.case(("witness", src), True)
        res.count("witness-replayed")
        if got != sorted(want) or gc != sorted(crashes):
            res.notes.append(f"NOTE: witness of {thm} no longer reproduces on the implementation: {src!r} gives {got} crashes {gc}")
            res.count("witness-not-reproduced")


def _run_main(res, ctx):
    # translate.run() (build step) silences logging process-wide via logging.disable(CRITICAL); the crash
    # monitor reads bandit's "internal error" records, so logging must be live again here
    logging.disable(logging.NOTSET)
    C.setup_logging()
    thorough = res.tier == "thorough"
    rng = C.rng_for(res.seed, "C15")
    res.rule = ("every function B113/B324/B501-B505/B507-B509 key on x import spellings (import m / import m as a / from m import f [as g] / from p import m [as a]; "
                "quick: `import m` + 1 seeded other per case, thorough: all) x positional vs keyword placement x literal values at and across the thresholds "
                "(1, 2, 3, 512, h-1, h, h+1, m-1, m, m+1, 1023/1024/2047/2048, 3072, 4096, 16384; every curve name) x non-literal values (name, attribute, call, "
                "subscript, operator expression) x wrongly-typed literals (str, None, bool, float, inf, list, tuple, bytes, complex, set, dict, set-with-list) "
                "x default config + 2 custom threshold configs + 1 custom protocol list (temp YAML) x single/multi-line layout (quick: seeded, thorough: both); "
                "non-trivial = distinct (program, config) on which the oracle has an opinion or one of the ten checks fired or crashed")
    scratch = C.Scratch()
    cfgdir = tempfile.mkdtemp(prefix="bverif_c15cfg_")
    try:
        if ctx.get("replay"):
            rp = ctx["replay"].get("replay", ctx["replay"])
            if "program" in rp:
                case = dict(src=rp["program"], expect={k: (tuple(v) if v else None) for k, v in rp.get("expect", {}).items()},
                            first=rp.get("first", 1), last=rp.get("last", 10 ** 6), cfg=rp.get("plugin_cfg"), region=rp.get("region"), obs=None,
                            meta=rp.get("meta", {"family": "replay", "spelling": "replay"}))
                case["meta"].setdefault("family", "replay")
                case["meta"].setdefault("spelling", "replay")
                run_cases(res, ctx, [case], scratch, cfgdir)
                res.extra["replayed"] = True
                return
        g = Gen(rng, thorough)
        for fam in FAMILIES:
            fam(g)
        c06, observations = run_cases(res, ctx, g.cases, scratch, cfgdir)
        res.exhaustive = thorough
        res.extra["programs"] = len(g.cases)
        res.extra["c06_crashes"] = {k: {"count": len(v), "examples": v[:3]} for k, v in sorted(c06.items())}
        res.extra["observations"] = observations
        for k, v in sorted(observations.items()):
            res.notes.append(f"observation (no alarm): {k} [{v['count']}x, e.g. {' '.join(x.strip() for x in v['example'].splitlines()[-6:])[:110]!r} -> {v['real']}]")
        replay_witnesses(res, scratch)
        for k, v in sorted(c06.items()):
            res.notes.append(f"C06: check `{k}` raised on {len(v)} generated programs, e.g. {' '.join(x.strip() for x in v[0]['program'].splitlines()[-5:])[:110]!r}")
    finally:
        scratch.close()
        shutil.rmtree(cfgdir, ignore_errors=True)


def run(res, ctx):
    _run_main(res, ctx)
    # the neighbourhood of every construct of bandit's example files (harness/metamorph.py): model vs implementation on this family's ids
    metamorph.family(res, ctx, C, set(MY_IDS), 700, 4000, sections={"weak_cryptographic_key", "ssl_with_bad_version"}, cfg_want=lambda s: "ssl" in s.lower() or "generate" in s or "key_size" in s)
