"""C16 — hard-coded secret, temp-path, bind-all, permission checks match patterns."""
import re
import json
import common as C
import metamorph

LEVEL = "proof"

# the documented pattern, written out independently of the plugin source
WORDS = r"(pas+wo?r?d|pass(phrase)?|pwd|token|secrete?)"
DOC_RE = re.compile(r"(^{0}$|_{0}_|^{0}_|_{0}$)".format(WORDS), re.IGNORECASE)

MATCHING = ["password", "PASSWORD", "Password", "passwd", "pasword", "passsword", "pass", "passphrase", "pwd", "token", "secret", "secrete",
            "db_password", "password_hash", "my_token_x", "API_TOKEN", "Secret_Key", "x_pwd", "root_pass", "auth_token_value",
            # the pattern ignores case, wherever the capitals are: inside a word too (seeded change C16-m16 split names at lower→upper boundaries first: `pwD` became `pw_D`)
            "pwD", "pWd", "toKen", "seCret", "passwD", "db_pwD", "paSs_file", "secretE", "pASSWORD", "tokeN_x", "PassPhrase", "aB_tOkEn"]
NEAR = ["passwords", "mypassword", "tokens", "secretary", "passw", "pw", "key", "xpwd", "tokenize", "pa_ssword", "passwordx", "username", "host",
        "pas", "passwrd2", "secret2", "tok_en",
        # camelCase names are NOT split into words by the documented pattern (only `_` separates words)
        "dbPassword", "myToken", "apiSecretKey", "userPwd", "passwordHash", "tokenValue"]
# the callee of a call with a matching keyword can be any expression: B106 looks at the keywords only (seeded change C16-m15 skipped every Call whose callee is not a
# name or attribute chain)
CALLEES = ["connect", "obj.login", "get_connector()", "HANDLERS['ldap']", "(primary or fallback)", "factory(x).open", "clients[0].login", "(lambda **kw: kw)", "make()()",
           "super().connect", "(yield_ if a else b)", "registry['a']['b']"]
LITERALS = ["hunter2", "", "it's", 'say "hi"', "päss", "a\\b", "{x}", "%s", "0.0.0.0", "/tmp/secret", "line1\\nline2", "\U0001F511key"]
NONLIT = ["get_secret()", "os.environ['P']", "None", "42", "other", "b'bytes'", "f'{x}'", "'a' + b"]


def pylit(s):
    return repr(s)


def is_match(name):
    return DOC_RE.search(name) is not None


def build_cases(rng, thorough):
    cases = []   # (src, expected set of (id, line) or None, meta)
    names = MATCHING + NEAR
    n_lit = len(LITERALS) if thorough else 3
    import keyword
    for nm in names:
        lits = LITERALS if thorough else rng.sample(LITERALS, n_lit)
        if keyword.iskeyword(nm):
            # only usable as a subscript key
            for lit in lits:
                L = pylit(lit)
                extra = ({("B104", 1)} if lit == "0.0.0.0" else set()) | ({("B108", 1)} if lit.startswith("/tmp") else set())
                cases.append((f"d[{pylit(nm)}] = {L}\n", ({("B105", 1)} if is_match(nm) else set()) | extra, dict(pos="subscript", name=nm, lit=lit)))
            continue
        for lit in lits:
            L = pylit(lit)
            m = is_match(nm)
            bind = {("B104", None)} if lit == "0.0.0.0" else set()
            tmp = {("B108", None)} if lit.startswith("/tmp") else set()
            def E(ids, line=1):
                out = set()
                for (i, _) in ids | bind | tmp:
                    out.add((i, line))
                return out
            # 1 assignment to a name / attribute
            cases.append((f"{nm} = {L}\n", E({("B105", None)} if m else set()), dict(pos="assign-name", name=nm, lit=lit)))
            cases.append((f"obj.{nm} = {L}\n", E({("B105", None)} if m else set()), dict(pos="assign-attr", name=nm, lit=lit)))
            # 1b chained assignment: the literal is assigned to EVERY target, whichever comes first (seeded change C16-m11 looked at targets[0] only)
            cases.append((f"backup_ = {nm} = {L}\n", E({("B105", None)} if m else set()), dict(pos="assign-chained-second", name=nm, lit=lit)))
            cases.append((f"a_ = b_ = obj.{nm} = {L}\n", E({("B105", None)} if m else set()), dict(pos="assign-chained-third-attr", name=nm, lit=lit)))
            cases.append((f"{nm} = backup_ = {L}\n", E({("B105", None)} if m else set()), dict(pos="assign-chained-first", name=nm, lit=lit)))
            # 2 comparison
            cases.append((f"if {nm} == {L}:\n    pass\n", E({("B105", None)} if m else set()), dict(pos="compare-name", name=nm, lit=lit)))
            cases.append((f"if obj.{nm} != {L}:\n    pass\n", E({("B105", None)} if m else set()), dict(pos="compare-attr", name=nm, lit=lit)))
            # 3 subscript key
            key_bind = {("B104", 1)} if nm == "0.0.0.0" else set()
            exp = E({("B105", None)} if m else set())
            cases.append((f"d[{pylit(nm)}] = {L}\n", exp, dict(pos="subscript", name=nm, lit=lit)))
            # 4 keyword argument
            cases.append((f"connect(host, {nm}={L})\n", E({("B106", None)} if m else set()), dict(pos="kwarg", name=nm, lit=lit)))
            # a `**mapping` expansion before the keyword (PEP 448): the keywords after it are arguments like any other (seeded change C16-m17 stopped at the expansion)
            cases.append((f"connect(**defaults_, {nm}={L})\n", E({("B106", None)} if m else set()), dict(pos="kwarg-after-star", name=nm, lit=lit)))
            cases.append((f"connect(host, **a_, user='bob', **b_, {nm}={L})\n", E({("B106", None)} if m else set()), dict(pos="kwarg-after-two-stars", name=nm, lit=lit)))
            for cal in (CALLEES if thorough else rng.sample(CALLEES, 2)):
                cases.append((f"r_ = {cal}(user, {nm}={L})\n", E({("B106", None)} if m else set()), dict(pos="kwarg-callee:" + cal, name=nm, lit=lit)))
            # 5 parameter default
            cases.append((f"def f(a, {nm}={L}):\n    pass\n", E({("B107", None)} if m else set()), dict(pos="default", name=nm, lit=lit)))
            cases.append((f"def f({nm}={L}, /, b=None):\n    pass\n", E({("B107", None)} if m else set()), dict(pos="default-posonly", name=nm, lit=lit)))
            cases.append((f"def f(a={L}, /, {nm}=None):\n    pass\n", E(set()), dict(pos="default-posonly-other", name=nm, lit=lit)))
            # required keyword-only parameters after the `*` (no default: a None placeholder in kw_defaults) do not shift the pairing of the positional defaults
            # (seeded change C16-m13 dropped the placeholders before padding)
            cases.append((f"def f(host, {nm}={L}, *, timeout):\n    pass\n", E({("B107", None)} if m else set()), dict(pos="default-before-required-kwonly", name=nm, lit=lit)))
            cases.append((f"def f({nm}={L}, *rest, flag, mode):\n    pass\n", E({("B107", None)} if m else set()), dict(pos="default-before-two-required-kwonly", name=nm, lit=lit)))
        # non-literal values are never reported
        for nl in (NONLIT if thorough else rng.sample(NONLIT, 2)):
            cases.append((f"{nm} = {nl}\n", set(), dict(pos="assign-nonliteral", name=nm, lit=nl)))
            cases.append((f"connect({nm}={nl})\n", set(), dict(pos="kwarg-nonliteral", name=nm, lit=nl)))
            cases.append((f"def f({nm}={nl}):\n    pass\n", set(), dict(pos="default-nonliteral", name=nm, lit=nl)))
    # docstrings
    for nm in ["password", "token"]:
        cases.append((f'def {nm}():\n    """0.0.0.0 /tmp/x {nm} = secret"""\n    return 1\n', set(), dict(pos="docstring", name=nm, lit="")))
        cases.append((f'"""module docstring password /tmp/x"""\n', set(), dict(pos="module-docstring", name=nm, lit="")))
        cases.append((f"'/tmp/expr_statement'\n", set(), dict(pos="expr-statement-string", name=nm, lit="")))
    # docstrings of every kind of scope (seeded change C16-m8 re-derived "is a docstring" and forgot `async def`); a string expression statement that
    # is not the first statement is not a docstring in Python's sense — the property does not say, bandit exempts it too: no expectation there
    for text in ("/tmp/scratch is used", "0.0.0.0", "/var/tmp", "/dev/shm/x"):
        q = '"""' + text + '"""'
        for tmpl, pos in (("async def co_():\n    {q}\n    return 1\n", "docstring-async-def"), ("class K_:\n    {q}\n    x = 1\n", "docstring-class"),
                          ("class K_:\n    async def m_(self):\n        {q}\n", "docstring-async-method"), ("class K_:\n    def m_(self):\n        {q}\n", "docstring-method"),
                          ("def outer_():\n    async def inner_():\n        {q}\n    return inner_\n", "docstring-nested-async"), ("{q}\nx = 1\n", "docstring-module"),
                          ("def f_():\n    {q}\n", "docstring-def"), ("async def g_():\n    {q}\n    async with a_ as b_:\n        pass\n", "docstring-async-def")):
            cases.append((tmpl.format(q=q), set(), dict(pos=pos, name="-", lit=text)))
    # B104 / B108 on their own
    for lit, ids in (("0.0.0.0", {"B104"}), ("0.0.0.0 ", set()), ("10.0.0.0", set()), ("/tmp", {"B108"}), ("/tmp/x", {"B108"}), ("/var/tmp/y", {"B108"}),
                     ("/dev/shm/z", {"B108"}), ("/tmpx", {"B108"}), ("x/tmp", set()), ("/var/tm", set()), ("/opt/scratch", set())):
        cases.append((f"s = bind({pylit(lit)})\n", {(i, 1) for i in ids}, dict(pos="plain-string", name="", lit=lit)))
    return cases


def chmod_cases(rng, thorough):
    modes = list(range(4096)) if thorough else sorted(set([0, 1, 2, 3, 8, 0o10, 0o20, 0o22, 0o27, 0o33, 0o44, 0o644, 0o664, 0o666, 0o755, 0o775, 0o777, 0o700, 0o4755, 0o7777, 0o600]
                                                          + [rng.randrange(4096) for _ in range(256)]))
    out = []
    for m in modes:
        dangerous = bool(m & 0o33)
        sev = "HIGH" if m & 0o2 else "MEDIUM"
        form = rng.choice(["0o%o" % m, str(m), hex(m)])
        fn = rng.choice(["os.chmod", "os.fchmod", "os.lchmod", "path.chmod"])
        exp = {("B103", sev, "HIGH", 2)} if dangerous else set()
        out.append((f"import os\n{fn}(target, {form})\n", exp, dict(pos="chmod", mode=m, form=form, fn=fn)))
    # not exactly two positional arguments / non-literal / keyword mode -> silent
    for src in ("import os\nos.chmod(target)\n", "import os\nos.chmod(target, mode)\n", "import os\nos.chmod(target, mode=0o777)\n",
                "import os\nos.chmod(target, 0o777, True)\n", "import os\nos.chmod(target, '0777')\n", "import os\nos.chown(target, 0o777)\n",
                "import os\nos.chmod(target, stat.S_IWOTH)\n"):
        out.append((src, set(), dict(pos="chmod-silent")))
    return out


def _run_main(res, ctx):
    rng = C.rng_for(res.seed, "C16")
    thorough = res.tier == "thorough"
    res.rule = ("identifiers (20 matching, 17 near-matching, case variants) as plain names, attributes, subscript keys, keyword names, parameter names (incl. positional-only) "
                "x string literals (quotes, unicode, escapes, 0.0.0.0, /tmp…) x the five syntactic positions + non-literal values + docstrings; chmod modes (quick: boundary set + 256 seeded of "
                "the 4096; thorough: all 4096) in octal/decimal/hex spellings; configured temp directories via a user configuration; plus 4000 generated identifiers through "
                "RE_CANDIDATES vs the Lean matcher; non-trivial = distinct program whose expected finding set is non-empty")
    IDS = {"B103", "B104", "B105", "B106", "B107", "B108"}
    cases = build_cases(rng, thorough)
    seen = {}
    for src, exp, meta in cases:
        seen.setdefault(src, (exp, meta))
    progs = list(seen.items())
    chm = chmod_cases(rng, thorough)
    scratch = C.Scratch()
    d = C.Driver() if ctx["driver_ok"] else None
    try:
        sources = [s.encode() for s, _ in progs] + [s.encode() for s, _, _ in chm]
        real = C.batch_real_scan(scratch, sources)
        model = d.ask_many([C.scan_request(s) for s in sources]) if d is not None else None
        # texts: the literal must be quoted in the message
        from bandit.core import config as b_config, manager as b_manager
        for i, (src, (exp, meta)) in enumerate(progs):
            got = {(f[0], f[3]) for f in real[i]["findings"] if f[0] in IDS}
            res.case(src, bool(exp), sample={"program": src, "expected": sorted(exp), "got": sorted(got)} if i % 701 == 0 else None)
            res.count("pos:" + meta["pos"])
            if model is not None:
                if "error" in model[i]:
                    res.break_("driver-error", model[i]["error"])
                else:
                    diff = C.compare_scan(real[i], model[i], C.blacklist_ids())
                    if diff:
                        res.break_("correspondence", {"program": src, "diff": diff})
            if got != exp:
                res.violation("hard-coded secret / temp path / bind-all findings differ from the documented rule",
                              {"program": src, "expected": sorted(exp), "got": sorted(got), "meta": meta})
            # the literal is quoted in the message, in every position
            if meta["pos"] in ("assign-name", "assign-attr", "compare-name", "compare-attr", "subscript", "kwarg", "default", "default-posonly"):
                for (tid, ln, text) in real[i]["texts"]:
                    if tid in ("B105", "B106", "B107"):
                        res.count("quoted-literal-checked:" + meta["pos"])
                        if ("'" + meta["lit"] + "'") not in text:
                            res.violation("the hard-coded literal is not quoted in the message",
                                          {"program": src, "test": tid, "message": text, "literal": meta["lit"], "meta": meta})
        off = len(progs)
        for j, (src, exp, meta) in enumerate(chm):
            i = off + j
            got = {(f[0], f[1], f[2], f[3]) for f in real[i]["findings"] if f[0] == "B103"}
            res.case(src, bool(exp), sample={"program": src, "expected": sorted(exp), "got": sorted(got)} if j % 997 == 0 else None)
            res.count("pos:" + meta["pos"])
            if model is not None and "error" not in model[i]:
                diff = C.compare_scan(real[i], model[i], C.blacklist_ids())
                if diff:
                    res.break_("correspondence", {"program": src, "diff": diff})
            if got != exp:
                res.violation("chmod finding differs from the mode table", {"program": src, "expected": sorted(exp), "got": sorted(got), "meta": meta})
        # message quotes the literal
        for lit in LITERALS[:6]:
            p = scratch.fresh("q.py", f"password = {pylit(lit)}\n".encode())
            mgr = b_manager.BanditManager(b_config.BanditConfig(), "file")
            mgr.discover_files([p]); mgr.run_tests(); C.take_log()
            res.case(("quoted", lit), True)
            texts = [r.text for r in mgr.results if r.test_id == "B105"]
            if not texts or ("'" + lit + "'") not in texts[0]:
                res.violation("the literal is not quoted in the B105 message", {"program": f"password = {pylit(lit)}", "texts": texts})
        # configured temp directories
        import yaml
        # (directories are matched as written: an upper-case letter in a configured directory is part of it — seeded change C16-m14 lower-cased the literal only)
        cfgfile = scratch.fresh("c.yaml", yaml.safe_dump({"hardcoded_tmp_directory": {"tmp_dirs": ["/scratch", "/mnt/t", "/Volumes/Scratch", "C:\\Temp"]}}).encode())
        srcs = [b"a = '/scratch/x'\n", b"a = '/tmp/x'\n", b"a = '/mnt/t'\n", b"a = '/mnt/tx'\n", b"a = '/mnt'\n", b"a = '/Volumes/Scratch/out.bin'\n", b"a = '/volumes/scratch/x'\n",
                b"a = 'C:\\\\Temp\\\\f'\n", b"a = '/SCRATCH/x'\n"]
        exps = [True, False, True, True, False, True, False, True, False]
        real2 = C.batch_real_scan(scratch, srcs, config_file=cfgfile)
        model2 = d.ask_many([C.scan_request(s, plugin_cfg={"hardcoded_tmp_directory": {"tmp_dirs": ["/scratch", "/mnt/t", "/Volumes/Scratch", "C:\\Temp"]}}) for s in srcs]) if d is not None else None
        for i, s in enumerate(srcs):
            got = any(f[0] == "B108" for f in real2[i]["findings"])
            res.case(("cfg-tmp", s), True)
            if got != exps[i]:
                res.violation("B108 does not follow the configured temp directories", {"program": s.decode(), "config": ["/scratch", "/mnt/t", "/Volumes/Scratch", "C:\\Temp"], "reported": got})
            if model2 is not None and "error" not in model2[i]:
                diff = C.compare_scan(real2[i], model2[i], C.blacklist_ids())
                if diff:
                    res.break_("correspondence", {"program": s.decode(), "diff": diff})
        # a settings section that does not mention tmp_dirs keeps the default directories (found by tools/mutation: the `"tmp_dirs" in config` guard and
        # the default assignment could be mutated without any check noticing)
        # an explicitly EMPTY list of temp directories means: none — no literal is a temp path (seeded change C16-m9 fell back to the defaults with `or`)
        cfgfile4 = scratch.fresh("c4.yaml", yaml.safe_dump({"hardcoded_tmp_directory": {"tmp_dirs": []}}).encode())
        srcs4 = [b"a = '/tmp/x'\n", b"a = '/var/tmp/y'\n", b"a = '/dev/shm/z'\n", b"a = ''\n", b"def f(p='/tmp/q'): pass\n"]
        real4 = C.batch_real_scan(scratch, srcs4, config_file=cfgfile4)
        model4 = d.ask_many([C.scan_request(s, plugin_cfg={"hardcoded_tmp_directory": {"tmp_dirs": []}}) for s in srcs4]) if d is not None else None
        for i, s in enumerate(srcs4):
            got = any(f[0] == "B108" for f in real4[i]["findings"])
            res.case(("cfg-tmp-empty", s), True)
            if got or real4[i]["errors"]:
                res.violation("B108 reports (or raises) although the configured list of temp directories is empty", {"program": s.decode(), "settings": {"tmp_dirs": []}, "errors": real4[i]["errors"]})
            if model4 is not None and "error" not in model4[i]:
                diff = C.compare_scan(real4[i], model4[i], C.blacklist_ids())
                if diff:
                    res.break_("correspondence", {"program": s.decode(), "settings": {"tmp_dirs": []}, "diff": diff})
        for cfgv in ({}, {"other_option": 1}):
            cfgfile3 = scratch.fresh("c3.yaml", yaml.safe_dump({"hardcoded_tmp_directory": cfgv, "skips": []}).encode())
            srcs3 = [b"a = '/tmp/x'\n", b"a = '/var/tmp/y'\n", b"a = '/dev/shm/z'\n", b"a = '/scratch/x'\n", b"a = 'tmp'\n"]
            exps3 = [True, True, True, False, False]
            real3 = C.batch_real_scan(scratch, srcs3, config_file=cfgfile3)
            model3 = d.ask_many([C.scan_request(s, plugin_cfg={"hardcoded_tmp_directory": cfgv}) for s in srcs3]) if d is not None else None
            for i, s in enumerate(srcs3):
                got = any(f[0] == "B108" for f in real3[i]["findings"])
                res.case(("cfg-tmp-partial", json.dumps(cfgv), s), True)
                if got != exps3[i] or real3[i]["errors"]:
                    res.violation("B108 with a settings section that does not name tmp_dirs does not use the default directories (or raises)",
                                  {"program": s.decode(), "settings": cfgv, "reported": got, "errors": real3[i]["errors"]})
                if model3 is not None and "error" not in model3[i]:
                    diff = C.compare_scan(real3[i], model3[i], C.blacklist_ids())
                    if diff:
                        res.break_("correspondence", {"program": s.decode(), "settings": cfgv, "diff": diff})
        # the pattern itself: RE_CANDIDATES vs documented pattern vs Lean matcher
        if d is not None:
            from bandit.plugins import general_hardcoded_password as ghp
            alpha = ["pass", "pas", "s", "word", "wrd", "wd", "w", "o", "r", "d", "phrase", "pwd", "token", "secret", "e", "_", "_", "x", "1", "P", "S", "T", "K", "ſ", "K", "İ", "\n", " ", "é"]
            n = 20000 if thorough else 4000
            idents = ["".join(rng.choice(alpha) for _ in range(rng.randint(1, 6))) for _ in range(n)]
            outs = d.ask_many([{"op": "candidate", "s": s} for s in idents])
            bad = 0
            for s, o in zip(idents, outs):
                impl = ghp.RE_CANDIDATES.search(s) is not None
                res.evaluations += 1
                if impl != (DOC_RE.search(s) is not None):
                    res.violation("RE_CANDIDATES differs from the documented pattern", {"identifier": s, "impl": impl})
                if o != impl:
                    bad += 1
                    if bad <= 3:
                        res.break_("correspondence:candidate", {"identifier": s, "impl": impl, "model": o})
            res.extra["identifiers"] = n
            res.extra["identifier_mismatches"] = bad
    finally:
        scratch.close()
        if d is not None:
            d.close()


def run(res, ctx):
    _run_main(res, ctx)
    # the neighbourhood of every construct of bandit's example files (harness/metamorph.py): model vs implementation on this family's ids
    metamorph.family(res, ctx, C, {"B103", "B104", "B105", "B106", "B107", "B108"}, 700, 4000, sections={"hardcoded_tmp_directory"}, cfg_want=lambda s: "tmp" in s or "/" in s)
