"""C17 — injection, templating, deserialisation and misc checks follow their rules.

Every generated case is one small program aimed at ONE check.  It is scanned by real bandit and by the
compiled Lean model (compared as (id, severity, confidence, line, range, col) over all modelled IDs,
plus internal errors), and the implementation's output is judged by a spec oracle written from the
property text / plugin documentation: `expect` is
    None                     the safe variant: no finding of the target ID
    (sev, conf)              >= 1 finding of the target ID, every one with these ranks
    (sev, {conf, ...})       same, any of the listed confidences (readings the property leaves open)
    "?"                      no demand (shape the property does not speak about); correspondence only
"""
import itertools, json, os, re, shutil, linecache, logging
import common as C
import metamorph

LEVEL = "proof"

L, M, H = "LOW", "MEDIUM", "HIGH"
TARGETS = ["B101", "B102", "B110", "B112", "B201", "B202", "B506", "B601", "B608", "B610", "B611", "B612", "B614",
           "B701", "B702", "B703", "B704"]


class Case:
    __slots__ = ("check", "src", "expect", "tag", "cfg", "fname", "region")

    def __init__(self, check, src, expect, tag, cfg=None, fname=None, region=None):
        self.check, self.src, self.expect, self.tag, self.cfg, self.fname, self.region = check, src, expect, tag, cfg, fname, region

    def replay(self):
        return {"check": self.check, "program": self.src, "expect": _exp_json(self.expect), "tag": self.tag, "plugin_cfg": self.cfg,
                "fname": self.fname, "region": self.region}


def _exp_json(e):
    if e is None or e == "?":
        return e
    sev, conf = e
    return [sev, sorted(conf) if isinstance(conf, (set, frozenset)) else conf]


def _exp_from_json(e):
    if e is None or e == "?":
        return e
    sev, conf = e
    return (sev, set(conf) if isinstance(conf, list) else conf)


# ----------------------------------------------------------------------------- import spellings
def spellings(qual):
    """(import line, callee expression, kind) for a dotted `module.attr` name"""
    mod, _, attr = qual.rpartition(".")
    out = [(f"import {mod}", f"{mod}.{attr}", "import"),
           (f"import {mod} as m_", f"m_.{attr}", "import-as"),
           (f"from {mod} import {attr}", attr, "from"),
           (f"from {mod} import {attr} as k_", "k_", "from-as")]
    if "." in mod:
        top, _, sub = mod.rpartition(".")
        out.append((f"from {top} import {sub}", f"{sub}.{attr}", "from-mod"))
        out.append((f"from {top} import {sub} as s_", f"s_.{attr}", "from-mod-as"))
    return out


# ----------------------------------------------------------------------------- B608
SQL_TRUE = [
    "SELECT * FROM users WHERE id = ", "select name from t where a=", "Select a,\n b From\tt Where x = ", "DELETE FROM users WHERE id = ",
    "delete   from t where ", "INSERT INTO t (a, b) VALUES (", "insert\ninto t values\n(", "UPDATE users SET name = ", "update t\tset a = ",
    "WITH x AS (SELECT a FROM t ) select * from x where ", "-- c\nSELECT a FROM t ",
    # every statement form with more than one token between the keywords (seeded change C17-m2: `update\s+(\S+\s+)?set\s`)
    "UPDATE users u SET name = ", "UPDATE users AS u SET name = ", "UPDATE ONLY t SET a = ", "UPDATE OR REPLACE t SET a = ", "update a, b set a.x = ",
    "UPDATE a JOIN b ON a.id = b.id SET a.x = ", 'UPDATE "my table" SET a = ', "SELECT DISTINCT a, b FROM t1 JOIN t2 WHERE ", "select top 5 * from t where ",
]
SQL_FALSE = [
    "hello world ", "selection from the menu ", "select", "SELECT * FROM", "selectfrom x ", "delete from", "deleted from t ", "insert values into t ",
    "update", "updates set ", "from t select ", "please choose from ", "values into insert ", "set update ", "",
]
# partial statements: the property does not say whether a fragment is "SQL-looking"
SQL_OPEN = ["SELECT * FROM\xa0t ", "select\u2003a from t ", "ſelect a from t ", "SELECT a \u212a FROM t ", "update t set", "İNSERT INTO t VALUES (", "ınsert into t values (",
            # modifiers between the keywords of INSERT / DELETE are outside the documented pattern (`insert\s+into`, `delete\s+from`): not judged
            "INSERT OR IGNORE INTO t VALUES (", "insert low_priority into t (a) values (", "DELETE QUICK IGNORE FROM t WHERE "]


def py(s):
    return repr(s)


def b608_constructions(lit, v="uid"):
    """(expression, construction kind) with the literal as an operand"""
    q = py(lit)
    return [
        (f"{q} + {v}", "concat"), (f"{q} + str({v})", "concat"), (f"{v} + {q}", "concat-right"), (f"{q} + {v} + ' and b = 1'", "concat3"),
        (f"{q} % {v}", "percent"), (f"{q} % ({v}, other)", "percent-tuple"), (f"{q} % {{'k': {v}}}", "percent-dict"),
        (f"{q}.format({v})", "format"), (f"{q}.format(a={v})", "format-kw"), (f"{q}.format(*args)", "format-star"),
        (f"{q}.replace('[V]', {v})", "replace"),
        (f"f{py(lit + '{' + v + '}')}", "fstring") if "{" not in lit and "\\" not in py(lit) else (f"{q} + {v}", "concat"),
        (f"f{py(lit + '{' + v + '}' + ' order by 1')}", "fstring-mid") if "{" not in lit and "\\" not in py(lit) else (f"{q} % {v}", "percent"),
    ]


def gen_b608(rng, thorough):
    out = []
    wrappers = [  # (template, directly inside execute?)
        ("q = {e}", False), ("cur.execute({e})", True), ("cursor.executemany({e}, rows)", True), ("execute({e})", True),
        ("db.conn.cursor().execute({e})", True), ("cur.execute({e}, params)", True), ("cur.run({e})", False), ("cur.executescript({e})", False),
        ("log({e})", False), ("cur.execute(wrap({e}))", False), ("cur.execute(sql={e})", "kw"), ("return_({e})", False), ("x = [{e}]", False),
        ("cur.execute(({e}))", True),
    ]
    for lit in SQL_TRUE:
        for expr, kind in b608_constructions(lit):
            ws = wrappers if thorough else rng.sample(wrappers, 5) + [wrappers[1]]
            for wt, inside in ws:
                if kind in ("concat-right",):
                    exp = "?"            # literal is not the left end of the chain: which strings are joined is not specified
                elif kind == "replace":
                    exp = (M, {L, M}) if inside is True else (M, L)     # doc: replace is always LOW; property text: MEDIUM inside execute
                elif inside is True:
                    exp = (M, M)
                elif inside == "kw":
                    exp = (M, {L, M})
                else:
                    exp = (M, L)
                out.append(Case("B608", wt.format(e=expr) + "\n", exp, f"b608:{kind}:{'exec' if inside is True else 'kw' if inside == 'kw' else 'plain'}"))
    # safe variants: the same SQL text without string building, and non-SQL text with string building
    for lit in SQL_TRUE:
        for wt in ("q = {e}", "cur.execute({e})", "cur.execute({e}, (uid,))", "cur.executemany({e}, rows)"):
            out.append(Case("B608", wt.format(e=py(lit)) + "\n", None, "b608:safe:plain-literal"))
        out.append(Case("B608", f"cur.execute({py(lit + '%s')}, (uid,))\n", None, "b608:safe:parameterised"))
    for lit in SQL_FALSE:
        for expr, kind in b608_constructions(lit):
            # a verb fragment completed by the literal tail of the construction is SQL text again
            frag = kind in ("concat3", "fstring-mid") and lit.strip().lower() in ("select * from", "delete from", "select", "update")
            for wt in ("q = {e}", "cur.execute({e})"):
                out.append(Case("B608", wt.format(e=expr) + "\n", "?" if frag else None, "b608:safe:not-sql:" + kind))
    for lit in SQL_OPEN:
        for expr, kind in b608_constructions(lit)[:5]:
            out.append(Case("B608", f"cur.execute({expr})\n", "?", "b608:open:" + kind))
    # documented multi-operand example and multi-line layouts
    docs = [
        ('q = "SELECT " + val + " FROM " + tab + " WHERE id = " + x\n', (M, L)),
        ('cur.execute("SELECT " + val + " FROM " + tab)\n', (M, M)),
        ('q = ("SELECT * "\n     "FROM t WHERE id = " + x)\n', (M, L)),
        ('cur.execute("SELECT * "\n            "FROM t WHERE id = %s" % x)\n', (M, M)),
        ('q = """SELECT *\nFROM t\nWHERE id = %s""" % x\n', (M, L)),
        ('cur.execute(f"""SELECT *\n  FROM t\n  WHERE id = {x}""")\n', (M, M)),
        ('q = "SELECT * FROM t WHERE a = \'" + a + "\' AND b = \'" + b + "\'"\n', (M, L)),
        ('q = "SELECT * " + \\\n    "FROM t WHERE id = %s" % x\n', "?"),        # right-nested: the two halves are never joined
        ('q = "SELECT * " + ("FROM t WHERE id = " + x)\n', "?"),
        ('q = f"SELECT * FROM t "\n', "?"), ('q = "select a from t " * 2\n', "?"), ('q = "select a from t ".format\n', "?"),
        ('q = "SELECT {} FROM {} ".format(col, "t")\n', (M, L)), ('q = "a" + "select b from t " + x\n', "?"),
        ('q = x + "select b from t "\n', "?"), ('cur.execute("select a from t " + x + y + z)\n', (M, M)),
        ('q = f"{x} select a from t "\n', "?"), ('q = f"select {a} from {t} where {c}"\n', (M, L)),
        ('q = f"select a from t where x = {x:>{w}}"\n', (M, L)), ('print(f"{f"select a from t {x}"}")\n', "?"),
        ('q = "select a from t ".replace(a, b).replace(c, d)\n', (M, L)), ('q = "select a from t ".upper().format(x)\n', "?"),
        ('q = ("select a from t where " + x).format(y)\n', "?"), ('q = "select a from t where %s" % x % y\n', (M, L)),
        ('cur.execute("select a from t where x=%s" % x, timeout=3)\n', (M, M)),
        ('cur.execute(*["select a from t where x=" + x])\n', "?"), ('cur.execute(q) if q else cur.execute("select a from t where x=" + x)\n', (M, M)),
        ('x = b"select a from t " + y\n', None), ('def f():\n    "select a from t " + x\n', (M, L)), ('"select a from t %s" % x\n', (M, L)),
    ]
    # operator trees that are not a left spine: `%` binds tighter than `+`, parentheses nest to the right — every operand belongs to the statement text (seeded
    # change C17-m13 followed the left operands only).  No literal here looks like SQL on its own.
    docs += [
        ('q = "SELECT %s " % cols + "FROM users WHERE id = %s" % ident\n', (M, L)), ('cur.execute("SELECT %s " % cols + "FROM users WHERE id = %s" % ident)\n', (M, M)),
        ('cur.executemany("INSERT INTO " + ("t VALUES (%s)" % v), rows)\n', "?"), ('q = "select a " + ("from t where x = " + x)\n', "?"),
        ('q = "delete " + ("from " + ("t where " + ("id = " + i)))\n', "?"),      # right-nested parentheses: not recognised by the unchanged code either (observed, not judged) ('q = "update t " + "set a = %s" % a + " where b = %s" % b\n', (M, L)),
        ('cur.execute("select * " + ("from t" if c else "from u") + " where x = " + x)\n', "?"),
    ]
    for src, exp in docs:
        out.append(Case("B608", src, exp, "b608:layout"))
    return out


# ----------------------------------------------------------------------------- B610 / B611
def gen_django_sql(rng, thorough):
    out = []
    lit_list = "['a = 1', 'b = 2']"
    shapes = [  # (arguments, insecure?)
        ("", False), (f"where={lit_list}", False), ("where=['a = %s' % x]", True), ("where=[w]", True), ("where=w", True), ("where='a=1'", True),
        (f"tables={lit_list}", False), ("tables=[t]", True), ("tables=get()", True), ("tables=('a',)", True),
        ("select={'a': 'b'}", False), ("select={'a': x}", True), ("select={k: 'b'}", True), ("select=s", True), ("select={}", False),
        ("select={'a': 'b'}, where=['x'], tables=['t']", False), ("select={'a': 'b'}, where=[x]", True),
        ("{'a': 'b'}", False), ("{'a': x}", True), ("{'a': 'b'}, ['w']", False), ("{'a': 'b'}, [w]", True), ("{'a': 'b'}, None", True),
        ("{'a': 'b'}, ['w'], None, ['t']", False), ("{'a': 'b'}, ['w'], None, [t]", True), ("{'a': 'b'}, ['w'], p, ['t'], ob, sp", False),
        ("params=[x]", False), ("order_by=[x]", False), ("select_params=(x,)", False), ("params=x, order_by=o", False),
        ("where=[]", False), ("tables=[]", False), ("select={'a': 'b', **more}", "?"), ("**kw", "?"), ("*a", "?"), ("where=[*ws]", True),
        ("select={'a': f'{x}'}", True), ("where=['a' 'b']", False), ("where=[b'a']", True),
    ]
    # every combination of the three inspected keywords, each absent / all-literal / computed, in every keyword order: insecure iff ANY of them is computed
    # (seeded change C17-m1: a later all-literal `tables` reset the flag a computed `where` had set)
    import itertools
    opts = {"where": [None, ("['a = 1']", False), ("[w]", True), ("['a = %s' % x, 'b']", True)], "tables": [None, ("['t']", False), ("[t]", True), ("['t', u]", True)],
            "select": [None, ("{'a': 'b'}", False), ("{'a': x}", True)]}
    for wv, tv, sv in itertools.product(opts["where"], opts["tables"], opts["select"]):
        kws = [(k, v) for k, v in (("where", wv), ("tables", tv), ("select", sv)) if v is not None]
        if len(kws) < 2:
            continue
        orders = list(itertools.permutations(kws)) if thorough else [tuple(kws), tuple(reversed(kws))]
        for order in orders:
            shapes.append((", ".join(f"{k}={v[0]}" for k, v in order), any(v[1] for _, v in order)))
    recv = ["User.objects.all().extra({a})", "qs.extra({a})", "Model.objects.filter(a=1).extra({a}).distinct()"]
    for args, insecure in shapes:
        for r in (recv if thorough else recv[:2]):
            exp = "?" if insecure == "?" else ((M, M) if insecure else None)
            out.append(Case("B610", r.format(a=args) + "\n", exp, "b610:" + ("insecure" if insecure is True else "safe" if insecure is False else "open")))
    out.append(Case("B610", "extra(where=[w])\n", "?", "b610:bare-name"))
    out.append(Case("B610", "qs.extras(where=[w])\nqs.annotate(where=w)\n", None, "b610:safe:other-method"))
    # B611
    sql_shapes = [("'select 1'", False), ("raw", True), ("'a %s' % x", True), ("'a' + x", True), ("f'{x}'", True), ("get()", True), ("'a' 'b'", False),
                  ("'select 1', []", False), ("raw, [0]", True), ("sql='x'", False), ("sql=raw", True), ("params=[], sql='x'", False), ("params=[], sql=raw", True),
                  ("b'x'", True)]
    sp = spellings("django.db.models.expressions.RawSQL") + [("from django.db import models", "models.RawSQL", "from-pkg"),
                                                               ("import django.db.models", "django.db.models.RawSQL", "import-pkg"),
                                                               ("from django.db.models import RawSQL", "RawSQL", "from-short")]
    for (imp, callee, kind) in sp:
        for args, insecure in sql_shapes:
            out.append(Case("B611", f"{imp}\nUser.objects.annotate(val={callee}({args}))\n", (M, M) if insecure else None, f"b611:{kind}:{'insecure' if insecure else 'safe'}"))
    out.append(Case("B611", "User.objects.annotate(val=RawSQL(raw, []))\n", None, "b611:safe:no-import"))
    out.append(Case("B611", "from django.db.models.expressions import RawSQL\nRawSQL()\n", "?", "b611:crash:no-sql", region="c06"))
    out.append(Case("B611", "from django.db.models.expressions import RawSQL\nRawSQL(params=[])\n", "?", "b611:crash:no-sql", region="c06"))
    out.append(Case("B611", "from django.db.models.expressions import RawSQL\nRawSQL(**kw)\n", "?", "b611:crash:no-sql", region="c06"))
    out.append(Case("B611", "from django.db.models.expressions import RawSQL\nRawSQL(*a)\n", "?", "b611:star"))
    return out


# ----------------------------------------------------------------------------- B701 / B702
def gen_templates(rng, thorough):
    out = []
    auto = [("", (H, H)), ("autoescape=False", (H, H)), ("autoescape=True", None), ("autoescape=select_autoescape(['html', 'xml'])", None),
            ("autoescape=jinja2.select_autoescape()", None), ("autoescape=flag", (H, M)), ("autoescape=get_flag()", (H, M)), ("autoescape=0", (H, M)),
            ("autoescape=not debug", (H, M)), ("autoescape=None", (H, M)), ("autoescape='True'", "?"), ("autoescape=1", "?"),
            ("loader=templateLoader", (H, H)), ("loader=templateLoader, autoescape=False", (H, H)), ("loader=templateLoader, autoescape=True", None),
            ("autoescape=True, loader=templateLoader", None), ("loader=x, autoescape=select_autoescape()", None), ("**opts", "?"),
            ("loader=mk(autoescape=True)", "?"), ("loader=mk(autoescape=True), autoescape=False", (H, H)), ("loader=mk(a, autoescape=False), autoescape=True", None),
            ("extensions=[a], loader=l,\n    autoescape=False", (H, H)), ("autoescape=cfg.select_autoescape", (H, M)), ("autoescape=other_fn()", (H, M))]
    for imp, callee, kind in spellings("jinja2.Environment"):
        for args, exp in auto:
            out.append(Case("B701", f"{imp}\nenv = {callee}({args})\n", exp, f"b701:{kind}:" + ("safe" if exp is None else "open" if exp == "?" else "unsafe")))
    # Environment reached through its defining submodule is the same class (seeded change C17-m8 only recognised the top-level spelling)
    for imp, callee, kind in spellings("jinja2.environment.Environment") + [("import jinja2.environment", "jinja2.environment.Environment", "import-submodule"),
                                                                           ("import jinja2.environment as je_", "je_.Environment", "import-submodule-as")]:
        for args, exp in [a for a in auto if a[1] in ((H, H), None, (H, M))][: (None if thorough else 8)]:
            out.append(Case("B701", f"{imp}\nenv = {callee}({args})\n", exp, f"b701:submodule-{kind}:" + ("safe" if exp is None else "unsafe")))
    out.append(Case("B701", "env = Environment(autoescape=False)\n", None, "b701:safe:no-import"))
    out.append(Case("B701", "import jinja2\nt = jinja2.Template(src)\njinja2.environment(autoescape=False)\n", None, "b701:safe:other-callee"))
    out.append(Case("B701", "from jinja2 import Environment\nenv = Environment\n", None, "b701:safe:not-a-call"))
    out.append(Case("B701", "import jinja2.sandbox\nenv = jinja2.sandbox.SandboxedEnvironment()\n", "?", "b701:open:sandbox"))
    for imp, callee, kind in spellings("mako.template.Template") + [("import mako", "mako.template.Template", "import-top"), ("from mako.lookup import TemplateLookup", "TemplateLookup", "lookup")]:
        for args in ("'hello ${x}'", "filename=f", "src, lookup=lk", ""):
            exp = (M, H) if kind != "lookup" else None
            out.append(Case("B702", f"{imp}\nt = {callee}({args})\n", exp, f"b702:{kind}"))
    out.append(Case("B702", "from string import Template\nt = Template('hi $x')\n", None, "b702:safe:string-template"))
    out.append(Case("B702", "from jinja2 import Template\nt = Template('hi')\n", None, "b702:safe:jinja-template"))
    out.append(Case("B702", "t = Template('hi')\n", None, "b702:safe:no-import"))
    return out


# ----------------------------------------------------------------------------- B703 / B704
def gen_xss(rng, thorough):
    out = []
    imps = [("from django.utils.safestring import mark_safe", "mark_safe"), ("from django.utils import safestring", "safestring.mark_safe"),
            ("import django.utils.safestring", "django.utils.safestring.mark_safe"), ("from django.utils.safestring import mark_safe as ms", "ms"),
            ("from django.utils.safestring import SafeText", "SafeText"), ("from django.utils.safestring import SafeString", "SafeString"),
            ("import django.utils.safestring as ss", "ss.SafeBytes"), ("from django.utils.safestring import SafeUnicode", "SafeUnicode")]
    # (prelude statements, argument, secure?)   secure=True: value built from literals only => silent
    flows = [
        ("", "'<b>literal</b>'", True), ("", "'a' 'b'", True), ("", "x", False), ("", "get_html()", False), ("", "'<b>%s</b>' % x", False),
        ("", "'<b>{}</b>'.format(x)", False), ("", "x + '<b>'", False), ("", "f'<b>{x}</b>'", False), ("", "obj.attr", False), ("", "a[0]", False),
        ("x = '<b>lit</b>'", "x", True), ("x = y", "x", False), ("y = 'lit'\nx = y", "x", True), ("x = fn()", "x", False),
        ("x = 'a{}'.format('b')", "x", True), ("x = 'a{}'.format(z)", "x", False), ("z = 'lit'\nx = 'a{}'.format(z)", "x", True),
        ("x = 'a%s' % 'b'", "x", "?"), ("", "'a%s' % 'b'", True), ("", "'a%s%s' % ('b', 'c')", True), ("", "'a{}'.format('b')", True),
        ("", "'a{}{}'.format('b', 'c')", True), ("", "'a{}'.format(*['b', 'c'])", True), ("", "'a{}'.format(*['b', z])", False),
        ("", "'a{}'.format(*args)", False), ("", "'a{}'.format(k='b')", "?"), ("", "'a{}'.format('b{}'.format('c'))", True),
        ("", "'a{}'.format('b{}'.format(z))", False), ("z = 'lit'", "'a{}'.format(z)", True), ("z = 'lit'", "'a%s' % z", True), ("z = 'lit'", "'a%s%s' % (z, 'c')", True),
        ("z = fn()", "'a%s' % z", False), ("x = 'lit'\nx = fn()", "x", False), ("x = fn()\nx = 'lit'", "x", True), ("x = 'lit'\nx += 'more'", "x", True),
        ("x = 'lit'\nx += other", "x", False), ("a, x = 'p', 'q'", "x", True), ("a, x = 'p', fn()", "x", False), ("x, a = other, 'q'", "x", False),
        ("if c:\n    x = 'lit'\nelse:\n    x = 'other'", "x", True), ("if c:\n    x = 'lit'\nelse:\n    x = fn()", "x", False),
        ("for i in r:\n    x = 'lit'", "x", True), ("while c:\n    x = fn()", "x", False), ("try:\n    x = 'lit'\nexcept E:\n    x = 'err'\nfinally:\n    pass", "x", True),
        ("try:\n    x = 'lit'\nexcept E:\n    x = err()", "x", False), ("with open(f) as x:\n    pass", "x", False), ("with open(f) as g:\n    x = 'lit'", "x", True),
        ("with open(f) as g:\n    x = g.read()", "x", False), ("def h():\n    x = 'lit'", "x", "?"), ("x: str = 'lit'", "x", "?"), ("x = y = 'lit'", "x", True),
        ("import os\nx = os.name", "x", False), ("class K:\n    x = 'lit'", "x", False), ("x = ('lit')", "x", True), ("x = 'lit' if c else 'b'", "x", "?"),
        ("x = 'a' + 'b'", "x", "?"), ("x = b'lit'", "x", "?"), ("x = 5", "x", "?"), ("x = None", "x", "?"),
    ]
    for k, (imp, callee) in enumerate(imps):
        fl = flows if (thorough or k < 2) else rng.sample(flows, 14)
        for pre, arg, secure in fl:
            exp = "?" if secure == "?" else (None if secure else (M, H))
            body = (pre + "\n" if pre else "") + f"out = {callee}({arg})\n"
            out.append(Case("B703", imp + "\n" + body, exp, "b703:module:" + ("safe" if secure is True else "open" if secure == "?" else "unsafe")))
            # the same flow inside a function; parameters are never secure
            ind = "".join("    " + l + "\n" for l in body.splitlines())
            out.append(Case("B703", f"{imp}\ndef view(request, p):\n{ind}", exp, "b703:function:" + ("safe" if secure is True else "open" if secure == "?" else "unsafe")))
    imp, callee = imps[0]
    extra = [
        (f"{imp}\ndef view(x):\n    return {callee}(x)\n", (M, H), "b703:param"),
        (f"{imp}\ndef view(x):\n    x = 'lit'\n    return {callee}(x)\n", (M, H), "b703:param-reassigned"),
        (f"{imp}\ndef view(a, *, x='d'):\n    return {callee}(x)\n", (M, H), "b703:kwonly-param"),
        # a parameter reaches mark_safe through an alias or a literal template although it is ALSO assigned a literal somewhere: the caller can still supply
        # the value (seeded change C17-m4 dropped the "parameters are not secure" test from the recursive evaluator, keeping it only for the direct argument)
        (f"{imp}\ndef view(label=None):\n    if not label:\n        label = 'n/a'\n    caption = label\n    return {callee}(caption)\n", (M, H), "b703:param-via-alias"),
        (f"{imp}\ndef view(label=None):\n    if not label:\n        label = 'n/a'\n    return {callee}('<b>{{}}</b>'.format(label))\n", (M, H), "b703:param-via-format"),
        (f"{imp}\ndef view(label=None):\n    label = 'n/a'\n    return {callee}('<b>%s</b>' % label)\n", (M, H), "b703:param-via-percent"),
        (f"{imp}\ndef view(label):\n    label = 'x'\n    a = label\n    b = a\n    return {callee}('{{}} {{}}'.format('k', b))\n", (M, H), "b703:param-via-chain"),
        (f"{imp}\ndef view(label):\n    a, b = 'p', label\n    return {callee}(b)\n", (M, H), "b703:param-via-tuple"),
        (f"{imp}\ndef view(x, /):\n    return {callee}(x)\n", (M, H), "b703:posonly-param"),
        (f"{imp}\nx = 'lit'\ndef view():\n    return {callee}(x)\n", "?", "b703:global-read"),
        (f"{imp}\nout = {callee}(x)\nx = 'lit'\n", (M, H), "b703:assigned-after"),
        (f"{imp}\nx = 'lit'; out = {callee}(x)\n", "?", "b703:same-line"),
        (f"{imp}\nasync def view():\n    x = 'lit'\n    return {callee}(x)\n", "?", "b703:async"),
        (f"{imp}\nclass V:\n    def get(self):\n        x = 'lit'\n        return {callee}(x)\n", None, "b703:method"),
        (f"{imp}\nf = lambda x: {callee}(x)\n", (M, H), "b703:lambda"),
        (f"out = mark_safe(x)\n", None, "b703:safe:no-import"),
        (f"{imp}\nout = mark_unsafe(x)\nescape(x)\n", None, "b703:safe:other-callee"),
        (f"{imp}\nout = {callee}(*a)\n", (M, H), "b703:star"),
        (f"{imp}\nout = {callee}(s=x)\n", "?", "b703:crash:no-positional", "c06"),
        (f"{imp}\nout = {callee}()\n", "?", "b703:crash:no-positional", "c06"),
        (f"{imp}\no.a, x = fn(), other\nout = {callee}(x)\n", (M, H), "b703:crash:tuple-target-attr", "crash"),
        (f"{imp}\na, *x = 'p', other\nout = {callee}(x)\n", (M, H), "b703:crash:tuple-target-star", "crash"),
        (f"{imp}\nx, y = (other,)\nout = {callee}(y)\n", "?", "b703:crash:tuple-short", "c06"),
        (f"{imp}\na, b = 'p', 'q'\nout = {callee}(x)\n", (M, H), "b703:tuple-unrelated"),
        (f"{imp}\nx = (\n    x)\nout = {callee}(x)\n", (M, H), "b703:crash:recursion-name", "crash"),
        (f"{imp}\nx = (\n    '{{}}'.format(x))\nout = {callee}(x)\n", (M, H), "b703:crash:recursion-call", "crash"),
        (f"{imp}\nx = (\n    y)\ny = (\n    x)\nout = {callee}(x)\n", (M, H), "b703:multiline-chain"),
        (f"{imp}\nx = other; x = (\n    x)\nout = {callee}(x)\n", (M, H), "b703:crash:recursion-name", "crash"),
        (f"{imp}\nx = x\nout = {callee}(x)\n", (M, H), "b703:self-assign-one-line"),
        (f"{imp}\ny = 'lit'\nx = (\n    y)\nout = {callee}(x)\n", None, "b703:multiline-assign"),
        (f"{imp}\ny = 'lit'\nx = '{{}}{{}}'.format(y,\n    'z')\nout = {callee}(x)\n", None, "b703:multiline-format"),
        (f"{imp}\nout = {callee}(\n    '<b>lit</b>')\n", None, "b703:multiline-call"),
        (f"{imp}\nx = 'lit'\nout = {callee}(\n    x)\n", None, "b703:multiline-call"),
        (f"{imp}\nx = 'a{{}}'.format(\n    *('b', 'c'), *['d'])\nout = {callee}(x)\n", None, "b703:starred-literals"),
        (f"{imp}\nx = 'a{{}}'.format(*('b', *['c', z]))\nout = {callee}(x)\n", (M, H), "b703:starred-nested"),
        (f"{imp}\nx = 'a{{}}'.format(*('b', *['c', 'd']))\nout = {callee}(x)\n", None, "b703:starred-nested"),
        (f"{imp}\nx = 'a{{}}'.format(*(fn()), 'b')\nout = {callee}(x)\n", (M, H), "b703:starred-call"),
        (f"{imp}\ntry:\n    x = 'lit'\nexcept* E:\n    x = fn()\nout = {callee}(x)\n", "?", "b703:trystar"),
        (f"{imp}\nmatch v:\n    case 1:\n        x = fn()\nx = 'lit'\nout = {callee}(x)\n", "?", "b703:match"),
        (f"{imp}\nif c:\n    o.a, x = 1, 2\nout = {callee}(z)\n", "?", "b703:crash:tuple-target-nested", "c06"),
        (f"{imp}\nwith a as x, b as y:\n    x = 'lit'\nout = {callee}(x)\n", "?", "b703:with-two-items"),
        (f"{imp}\nwith a as y, b as x:\n    pass\nout = {callee}(x)\n", (M, H), "b703:with-two-items"),
    ]
    for t in extra:
        out.append(Case("B703", t[0], t[1], t[2], region=t[3] if len(t) > 3 else None))
    # B704
    mimps = spellings("markupsafe.Markup") + spellings("flask.Markup")
    margs = [("'<b>lit</b>'", True), ("x", False), ("get()", False), ("'<b>%s</b>' % x", False), ("f'{x}'", False), ("'a' + x", False), ("", True), ("5", True),
             ("None", True), ("b'x'", True), ("x, 'b'", False), ("*a", False), ("s=x", "?"), ("'a' 'b'", True), ("('lit')", True), ("o.attr", False)]
    for imp, callee, kind in mimps:
        for a, safe in margs:
            exp = "?" if safe == "?" else (None if safe else (M, H))
            out.append(Case("B704", f"{imp}\nout = {callee}({a})\n", exp, f"b704:{kind}:" + ("safe" if safe is True else "open" if safe == "?" else "unsafe")))
    out.append(Case("B704", "out = Markup(x)\n", None, "b704:safe:no-import"))
    out.append(Case("B704", "from markupsafe import escape\nout = escape(x)\n", None, "b704:safe:escape"))
    out.append(Case("B704", "from webhelpers.html import literal\nout = literal(x)\n", None, "b704:safe:unlisted-name"))
    cfgs = [
        ({"extend_markup_names": ["webhelpers.html.literal"], "allowed_calls": []}, "from webhelpers.html import literal\nout = literal(x)\n", (M, H), "b704:cfg:extend"),
        ({"extend_markup_names": ["webhelpers.html.literal"], "allowed_calls": []}, "from webhelpers.html import literal\nout = literal('lit')\n", None, "b704:cfg:extend-safe"),
        ({"extend_markup_names": ["webhelpers.html.literal"]}, "import webhelpers.html as h\nout = h.literal(x)\n", (M, H), "b704:cfg:extend"),
        ({"extend_markup_names": ["webhelpers.html.literal"]}, "import markupsafe\nout = markupsafe.Markup(x)\nother(x)\n", (M, H), "b704:cfg:extend-builtin"),
        ({"allowed_calls": ["bleach.clean", "_"]}, "import bleach\nfrom markupsafe import Markup\nout = Markup(bleach.clean(x))\n", None, "b704:cfg:allowed"),
        ({"allowed_calls": ["bleach.clean", "_"]}, "from bleach import clean\nfrom markupsafe import Markup\nout = Markup(clean(x))\n", None, "b704:cfg:allowed"),
        ({"allowed_calls": ["bleach.clean", "_"]}, "from markupsafe import Markup\nout = Markup(_('text'))\n", None, "b704:cfg:allowed"),
        ({"allowed_calls": ["bleach.clean", "_"]}, "from markupsafe import Markup\nout = Markup(other(x))\n", (M, H), "b704:cfg:not-allowed"),
        ({"allowed_calls": ["bleach.clean", "_"]}, "from markupsafe import Markup\nout = Markup(clean(x))\n", (M, H), "b704:cfg:not-allowed"),
        ({"allowed_calls": ["bleach.clean", "_"]}, "from markupsafe import Markup\nout = Markup(x)\n", (M, H), "b704:cfg:not-a-call"),
        ({"allowed_calls": ["bleach.clean"]}, "import bleach\nfrom markupsafe import Markup\nout = Markup(bleach.clean)\n", (M, H), "b704:cfg:not-a-call"),
        # the allowed call must BE the argument, not merely occur somewhere inside it (seeded change C17-m6 searched the whole argument subtree)
        ({"allowed_calls": ["bleach.clean"]}, "from bleach import clean\nfrom markupsafe import Markup\nout = Markup('<p>' + user_input + clean(other))\n", (M, H), "b704:cfg:allowed-nested"),
        ({"allowed_calls": ["bleach.clean"]}, "from bleach import clean\nfrom markupsafe import Markup\nout = Markup(f'{clean(title)} {raw_body}')\n", (M, H), "b704:cfg:allowed-nested"),
        ({"allowed_calls": ["bleach.clean"]}, "from bleach import clean\nfrom markupsafe import Markup\nout = Markup(render(raw_body, fallback=clean(title)))\n", (M, H), "b704:cfg:allowed-nested"),
        ({"allowed_calls": ["bleach.clean"]}, "from bleach import clean\nfrom markupsafe import Markup\nout = Markup(raw_body if trusted else clean(raw_body))\n", (M, H), "b704:cfg:allowed-nested"),
        ({"allowed_calls": ["bleach.clean"]}, "from bleach import clean\nfrom markupsafe import Markup\nout = Markup(clean(x).strip())\n", (M, H), "b704:cfg:allowed-nested"),
        ({"allowed_calls": ["bleach.clean"]}, "from bleach import clean\nfrom markupsafe import Markup\nout = Markup([clean(x), y])\n", (M, H), "b704:cfg:allowed-nested"),
        ({}, "from markupsafe import Markup\nout = Markup(x)\nlit(x)\n", (M, H), "b704:cfg:empty-map"),
    ]
    for cfg, src, exp, tag in cfgs:
        out.append(Case("B704", src, exp, tag, cfg={"markupsafe_xss": cfg}))
    return out


# ----------------------------------------------------------------------------- B506 / B614 / B202
def gen_deser(rng, thorough):
    out = []
    yargs = [("s", False), ("s, Loader=yaml.SafeLoader", True), ("s, Loader=yaml.CSafeLoader", True), ("s, yaml.SafeLoader", True), ("s, yaml.CSafeLoader", True),
             ("s, Loader=SafeLoader", True), ("s, CSafeLoader", True), ("s, Loader=yaml.Loader", False), ("s, Loader=yaml.FullLoader", False),
             ("s, Loader=yaml.UnsafeLoader", False), ("s, yaml.Loader", False), ("s, Loader=yaml.loader.SafeLoader", True), ("s, Loader=pick()", False),
             ("s, Loader=L", False), ("stream=s", False), ("stream=s, Loader=yaml.SafeLoader", True), ("Loader=yaml.CSafeLoader, stream=s", True),
             ("s, Loader='SafeLoader'", "?"), ("s, **kw", "?"), ("*a", "?"), ("s, Loader=None", "?"), ("s,\n    Loader=yaml.Loader", False),
             ("open(p).read()", False), ("s, Loader=yaml.BaseLoader", "?")]
    ysp = spellings("yaml.load")
    for imp, callee, kind in ysp:
        for a, safe in yargs:
            a2 = a.replace("yaml.", "yaml." if kind in ("import", "from", "from-as") else "m_.")
            imp2 = imp if kind in ("import", "import-as") else imp + "\nimport yaml as m_" if "m_." in a2 else imp
            if kind in ("from", "from-as") and "yaml." in a2:
                imp2 = imp + "\nfrom yaml import SafeLoader, CSafeLoader, Loader, FullLoader"
                a2 = a2.replace("yaml.loader.", "").replace("yaml.", "")
                if "UnsafeLoader" in a2 or "BaseLoader" in a2:
                    continue
            if safe == "?":
                exp = "?"
            elif safe:
                exp = None
            else:
                exp = (M, H)
            region = "exact-import" if (kind in ("from", "from-as") and exp not in (None, "?")) else None
            out.append(Case("B506", f"{imp2}\ndata = {callee}({a2})\n", exp, f"b506:{kind}:" + ("safe" if safe is True else "open" if safe == "?" else "unsafe"), region=region))
    out.append(Case("B506", "import yaml\ndata = yaml.safe_load(s)\nyaml.dump(d)\nyaml.load_all(s)\n", None, "b506:safe:other-function"))
    out.append(Case("B506", "data = yaml.load(s)\n", None, "b506:safe:no-import"))
    out.append(Case("B506", "import json\ndata = json.load(s)\n", None, "b506:safe:json"))
    out.append(Case("B506", "import yaml.loader\ndata = yaml.load(s)\n", (M, H), "b506:submodule-import", region="exact-import"))
    out.append(Case("B506", "import ruamel.yaml\ndata = ruamel.yaml.load(s)\n", "?", "b506:open:ruamel"))
    out.append(Case("B506", "import yaml\ndef f(yaml_):\n    return yaml.load\n", None, "b506:safe:not-a-call"))
    # B614
    targs = [("f", False), ("f, weights_only=True", True), ("f, weights_only=False", False), ("f, map_location='cpu'", False), ("f, weights_only=flag", False),
             ("f, weights_only=get()", False), ("f=f, weights_only=True", True), ("weights_only=True, f=f", True), ("f,\n    weights_only=True", True),
             ("f, weights_only='True'", "?"), ("f, **kw", "?"), ("f, weights_only=1", "?"), ("f, load=x", False), ("f, map_location=d,\n    load=\n    x", False)]
    for imp, callee, kind in spellings("torch.load"):
        for a, safe in targs:
            exp = "?" if safe == "?" else (None if safe else (M, H))
            region = "exact-import" if (kind in ("from", "from-as") and exp not in (None, "?")) else None
            out.append(Case("B614", f"{imp}\nmodel = {callee}({a})\n", exp, f"b614:{kind}:" + ("safe" if safe is True else "open" if safe == "?" else "unsafe"), region=region))
    out.append(Case("B614", "model = torch.load(f)\n", None, "b614:safe:no-import"))
    out.append(Case("B614", "import torch\ntorch.save(m, f)\nm.load_state_dict(sd)\nsafetensors.torch.load_file(f)\n", None, "b614:safe:other-function"))
    out.append(Case("B614", "import torch.nn\nmodel = torch.load(f)\n", (M, H), "b614:submodule-import", region="exact-import"))
    out.append(Case("B614", "import torch\nmodel = torch.jit.load(f)\n", "?", "b614:open:jit"))
    # B202
    xargs = [("", (H, H)), ("path", (H, H)), ("path=p", (H, H)), ("members=filter_members(tar)", (L, L)), ("p, members=safe(t)", (L, L)), ("members=ms", (M, M)),
             ("members=[m for m in t if ok(m)]", (M, M)), ("members=[]", (M, M)), ("members=None", (M, M)), ("p, ms", (H, H)), ("filter='data'", None),
             ("path=p, filter='data'", None), ("members=ms, filter='data'", None), ("filter='data', members=f(t)", None), ("filter='tar'", (H, H)),
             ("filter='fully_trusted'", (H, H)), ("filter=flt", (H, H)), ("filter=tarfile.data_filter", "?"), ("members=ms, filter='tar'", (M, M)),
             ("members=f(t), filter=g", (L, L)), ("members=tools.safe(t)", (L, L)), ("members=a.b.c(t)", (L, L)), ("members=mk()(t)", (L, L)),
             # a variable / attribute that merely is CALLED `data` is not the literal "data" (seeded change C17-m3 went through call_keywords, which
             # reduces a name to its identifier and an attribute to its last component)
             ("filter=data", (H, H)), ("filter=opts.data", (H, H)), ("members=f(t), filter=data", (L, L)), ("members=ms, filter=cfg.data", (M, M)), ("filter=tar", (H, H)),
             ("**kw", "?"), ("members=lambda: 1", (M, M)), ("filter=\"data\"", None), ("filter=b'data'", (H, H)), ("members=ms,\n    filter='data'", None)]
    recv = [("import tarfile", "t = tarfile.open(n)\nt.extractall({a})"), ("import tarfile", "with tarfile.open(n) as tf:\n    tf.extractall({a})"),
            ("import tarfile", "tarfile.open(n).extractall({a})"), ("import tarfile as tz", "t = tz.open(n)\nt.extractall({a})"),
            ("from tarfile import open as topen", "t = topen(n)\nt.extractall({a})"), ("import tarfile", "tarfile.TarFile(n).extractall({a})")]
    for imp, tmpl in recv:
        for a, exp in xargs:
            e = exp
            region = None
            if imp.startswith("from tarfile"):
                e = "?" if exp is not None else None       # which imports make an object "a tarfile" is not specified
            if e not in (None, "?") and re.search(r"members=(tools\.safe|a\.b\.c|mk\(\))", a):
                region = "crash"
            out.append(Case("B202", imp + "\n" + tmpl.format(a=a) + "\n", e, "b202:" + ("safe" if e is None else "open" if e == "?" else "%s" % e[0].lower()), region=region))
    out.append(Case("B202", "t.extractall()\n", None, "b202:safe:no-import"))
    out.append(Case("B202", "import zipfile\nz = zipfile.ZipFile(n)\nz.extractall()\n", None, "b202:safe:zipfile"))
    out.append(Case("B202", "import tarfile\nt = tarfile.open(n)\nt.extract(m)\nt.getmembers()\n", None, "b202:safe:other-method"))
    return out


# ----------------------------------------------------------------------------- B201 B612 B601 B102
def gen_misc_calls(rng, thorough):
    out = []
    fl = [("from flask import Flask", "app = Flask(__name__)"), ("import flask", "app = flask.Flask(__name__)"), ("import flask as fl", "app = fl.Flask(__name__)"),
          ("from flask import Flask as F", "app = F(__name__)")]
    dargs = [("debug=True", (H, M)), ("host='0', debug=True", (H, M)), ("debug=True, port=1", (H, M)), ("host='0',\n    debug=True", (H, M)), ("", None),
             ("debug=False", None), ("debug=flag", None), ("debug=get()", None), ("True", None), ("debug=not x", None), ("**o", "?"), ("debug='True'", "?"), ("debug=1", "?")]
    for imp, mk in fl:
        for a, exp in dargs:
            out.append(Case("B201", f"{imp}\n{mk}\napp.run({a})\n", exp, "b201:" + ("safe" if exp is None else "open" if exp == "?" else "unsafe")))
    out.append(Case("B201", "app.run(debug=True)\n", None, "b201:safe:no-import"))
    out.append(Case("B201", "import flask\napp.start(debug=True)\nrun(debug=True)\n", None, "b201:safe:other-callee"))
    out.append(Case("B201", "import flask\nflask.Flask(__name__).run(debug=True)\n", "?", "b201:open:call-receiver"))
    out.append(Case("B201", "from flask import Flask\nself.app.run(debug=True)\n", (H, M), "b201:attr-receiver"))
    largs = [("9999", (M, H)), ("", (M, H)), ("port=9999", (M, H)), ("9999, verify=check", None), ("verify=check", None), ("port=1, verify=lambda b: b", None),
             ("9999, verify=None", "?"), ("9999, None", "?"), ("**kw", "?"), ("1,\n    verify=v", None)]
    for imp, callee, kind in spellings("logging.config.listen"):
        for a, exp in largs:
            out.append(Case("B612", f"{imp}\nt = {callee}({a})\n", exp, f"b612:{kind}:" + ("safe" if exp is None else "open" if exp == "?" else "unsafe")))
    out.append(Case("B612", "import logging\nimport logging.config\nt = logging.config.listen(1)\n", (M, H), "b612:two-imports"))
    out.append(Case("B612", "import logging.config\nlogging.config.dictConfig(d)\nserver.listen(5)\nsocket.listen(1)\n", None, "b612:safe:other-callee"))
    pimps = ["import paramiko", "from paramiko import SSHClient", "import paramiko as pk", "from paramiko.client import SSHClient, AutoAddPolicy"]
    for imp in pimps:
        for call, exp in [("client.exec_command(cmd)", (M, M)), ("client.exec_command('ls -l')", (M, M)), ("self.ssh.exec_command(cmd, timeout=3)", (M, M)),
                          ("stdin, out, err = c.exec_command(\n    cmd)", (M, M)), ("client.connect(host)", None), ("client.invoke_shell()", None),
                          ("client.exec_commands(cmd)", None), ("exec_command(cmd)", "?")]:
            out.append(Case("B601", f"{imp}\n{call}\n", exp, "b601:" + ("safe" if exp is None else "open" if exp == "?" else "unsafe")))
    out.append(Case("B601", "client.exec_command(cmd)\n", None, "b601:safe:no-import"))
    out.append(Case("B601", "import subprocess\ndocker.exec_command(cmd)\n", None, "b601:safe:no-import"))
    for src, exp in [("exec(code)", (M, H)), ("exec('x = 1')", (M, H)), ("exec(code, g, l)", (M, H)), ("exec(\n    code)", (M, H)), ("r = [exec(c) for c in cs]", (M, H)),
                     ("obj.exec(code)", None), ("executor(code)", None), ("exec_(code)", None), ("db.exec('q')", None), ("e = exec", None), ("execfile(p)", None),
                     ("builtins.exec(code)", "?"), ("import builtins as b\nb.exec(code)", "?"), ("from builtins import exec as run\nrun(code)", "?"),
                     ("from os import system as exec_\nexec_(c)", None), ("eval(code)", None)]:
        out.append(Case("B102", src + "\n", exp, "b102:" + ("safe" if exp is None else "open" if exp == "?" else "unsafe")))
    return out


# ----------------------------------------------------------------------------- B101 / B110 / B112 with configuration
def gen_statements(rng, thorough):
    out = []
    asserts = ["assert x", "assert x, 'msg'", "def f(a):\n    assert a > 0\n    return a", "class T:\n    def test(self):\n        assert (\n            1 == 1)",
               "assert isinstance(x, int) and x", "if c:\n    assert c"]
    for a in asserts:
        out.append(Case("B101", a + "\n", (L, H), "b101:default"))
    out.append(Case("B101", "raise AssertionError(x)\nself.assertTrue(x)\nasserts = 1\n", None, "b101:safe:no-assert"))
    # skips globs x file names.  fnmatch semantics (documented): * any run, ? one char, [seq]; matched against the whole path as given
    names = ["test_a.py", "a_test.py", "pkg/test_b.py", "pkg/b_test.py", "pkg/mod.py", "tests/unit/test_c.py", "tests/conftest.py", "src/testing.py",
             "src/contest_x.py", "x_test.pyc.py", "Test_Upper.py", "pkg/a-b.py", "pkg/[x].py", "t1.py", "t10.py"]
    globsets = [["*_test.py", "*test_*.py"], ["*_test.py"], ["*/test_*.py"], ["test_*.py"], ["*/tests/*"], ["*tests*"], ["*.py"], ["*"], [], ["*/pkg/???.py"],
                ["*/t[0-9].py"], ["*/t[!0-9]*.py"], ["*/pkg/[[]x].py"], ["*/PKG/*"], ["*test*", "nomatch"], ["*/a_test.py", "*/pkg/*"], ["?"], ["*_test.py*"],
                ["*/[a-c]_test.py"], ["**/unit/*"]]
    for gs in globsets:
        ns = names if thorough else rng.sample(names, 7) + ["a_test.py", "pkg/test_b.py"]
        for n in ns:
            out.append(Case("B101", "import os\nassert os.name\n", ("glob", gs), "b101:skips", cfg={"assert_used": {"skips": gs}}, fname=n))
    # exception handlers
    types = [("", "bare"), (" Exception", "exception"), (" Exception as e", "exception"), (" ValueError", "typed"), (" (ValueError, KeyError)", "typed"),
             (" OSError as e", "typed"), (" BaseException", "typed"), (" (Exception,)", "open"), (" builtins.Exception", "open"), (" my.Exception", "open"),
             (" Exception if c else ValueError", "typed")]
    bodies = [("pass", "B110"), ("continue", "B112"), ("pass\n{i}pass", None), ("pass\n{i}log(e)", None), ("log(e)", None), ("...", None), ("'doc'", None),
              ("raise", None), ("return", None), ("x = 1", None), ("break", None), ("continue\n{i}pass", None), ("pass  # ignored", "B110"), ("pass;", "B110"), ("if c: pass", None)]
    for cte in (False, True):
        for ty, tk in types:
            for body, fires in bodies:
                for star in ((False, True) if thorough else (False,)):
                    if star and ty == "":
                        continue
                    i = "        "
                    src = f"for it in items:\n    try:\n        work(it)\n    except{'*' if star else ''}{ty}:\n        {body.format(i=i)}\n"
                    if "break" in body or "continue" in body or "return" in body:
                        if star:
                            continue     # not allowed in except*
                    if "return" in body:
                        src = "def f(items):\n" + "".join("    " + l + "\n" for l in src.splitlines())
                    for check in ("B110", "B112"):
                        if fires != check:
                            exp = None
                        elif tk in ("bare", "exception"):
                            exp = (L, H)
                        elif tk == "typed":
                            exp = (L, H) if cte else None
                        else:
                            exp = "?"
                        name = {"B110": "try_except_pass", "B112": "try_except_continue"}[check]
                        out.append(Case(check, src, exp, f"{check.lower()}:{tk}:cte={int(cte)}:" + ("fires" if exp not in (None, "?") else "silent" if exp is None else "open"),
                                        cfg={name: {"check_typed_exception": cte}}))
    out.append(Case("B110", "try:\n    a()\nexcept ValueError:\n    pass\nexcept Exception:\n    pass\nexcept:\n    pass\nelse:\n    pass\nfinally:\n    pass\n", (L, H), "b110:multi-handler"))
    out.append(Case("B110", "try:\n    a()\nfinally:\n    pass\n", None, "b110:safe:no-handler"))
    out.append(Case("B110", "with suppress(Exception):\n    a()\nif x:\n    pass\n", None, "b110:safe:no-try"))
    return out


# ----------------------------------------------------------------------------- seeded shape fuzz (correspondence + crash monitor, no oracle)
FUZZ_IMPORTS = ["import yaml", "import torch", "import tarfile", "import jinja2", "from jinja2 import Environment", "from flask import Flask", "import paramiko",
                "import logging.config", "from django.utils.safestring import mark_safe", "from django.db.models.expressions import RawSQL", "from markupsafe import Markup",
                "import flask", "from mako.template import Template", "from yaml import load", "import django.utils.safestring as ss"]
FUZZ_CALLEES = ["yaml.load", "torch.load", "t.extractall", "tarfile.open(n).extractall", "jinja2.Environment", "Environment", "app.run", "c.exec_command", "logging.config.listen",
                "mark_safe", "ss.mark_safe", "RawSQL", "Markup", "flask.Markup", "qs.extra", "cur.execute", "exec", "Template", "load", "cur.executemany", "x.format", "f"]
FUZZ_KW = ["Loader", "weights_only", "members", "filter", "debug", "verify", "autoescape", "sql", "where", "tables", "select", "params", "load", "path", "stream", "shell"]


def fuzz_value(rng, depth=0):
    r = rng.random()
    atoms = ["'lit'", "'select a from t '", "b'x'", "0", "1", "2.5", "True", "False", "None", "...", "x", "y", "o.attr", "yaml.SafeLoader", "yaml.Loader", "'data'", "'True'",
             "SafeLoader", "f'{x}'", "f'select a from t {x}'", "-1", "1j", "''", "()", "[]", "{}", "set()", "lambda: 0"]
    if depth >= 2 or r < 0.45:
        return rng.choice(atoms)
    k = rng.randint(0, 11)
    a = fuzz_value(rng, depth + 1)
    b = fuzz_value(rng, depth + 1)
    return [f"[{a}, {b}]", f"({a}, {b})", f"{{{a}}}" if not any(ch in a for ch in "[{") or rng.random() < 0.5 else f"[{a}]", f"{{{a}: {b}}}", f"fn({a})", f"o.m({a}, k={b})", f"{a} + {b}",
            f"'select a from t where x=%s' % {a}", f"'a{{}}'.format({a}, {b})", f"*{a}" if depth == 0 else f"[*{a}]", f"{a} if c else {b}", f"'select * from t '.replace('t', {a})"][k]


def gen_fuzz(rng, n):
    import ast
    out = []
    while len(out) < n:
        imps = rng.sample(FUZZ_IMPORTS, rng.randint(1, 3))
        callee = rng.choice(FUZZ_CALLEES)
        args = [fuzz_value(rng) for _ in range(rng.randint(0, 3))]
        pos = [a for a in args if not a.startswith("*")] + [a for a in args if a.startswith("*")]
        kws = []
        for k in rng.sample(FUZZ_KW, rng.randint(0, 3)):
            v = fuzz_value(rng, 1)
            kws.append(f"{k}={v}")
        if rng.random() < 0.12:
            kws.append("**" + rng.choice(["kw", "{'a': 1}", "'x'", "dict(a=1)"]))
        pre = rng.choice(["", "", "x = 'lit'\n", "x = y\ny = 'lit'\n", "x, y = 'a', fn()\n", "if c:\n    x = 'lit'\nelse:\n    x = other\n", "x = 'a{}'.format(y)\n",
                          "x = (\n    y)\n", "with o as x:\n    y = 'lit'\n", "try:\n    x = 'lit'\nexcept E:\n    x = y\n"])
        stmt = f"r = {callee}({', '.join(pos + kws)})"
        wrap = rng.choice(["{s}", "{s}", "def fn_(x, p):\n    {s}", "class K:\n    def m(self, y):\n        {s}", "for i in z:\n    {s}"])
        body = pre + stmt + "\n"
        if wrap != "{s}":
            ind = "    " if wrap.count("\n") == 1 else "        "
            head = wrap.split("{s}")[0].rstrip(" ")
            body = head + "".join(ind + l + "\n" for l in body.splitlines())
        src = "\n".join(imps) + "\n" + body
        try:
            ast.parse(src)
        except SyntaxError:
            continue
        out.append(Case("fuzz", src, "?", "fuzz:" + callee.split("(")[0]))
    return out


XSS_SIMPLE = ["{v} = 'lit'", "{v} = {w}", "{v} = fn()", "{v} = '{{}}'.format({w})", "{v} = '{{}}{{}}'.format({w}, 'k')", "{v} = '%s' % {w}", "{v} += {w}", "{v} += 'lit'",
              "{v}, {w} = 'p', {u}", "{v}, {w} = {u}, 'q'", "{v} = (\n    {w})", "{v} = '{{}}'.format(\n    {w})", "{v} = '{{}}'.format(*[{w}, 'k'])",
              "{v} = '{{}}'.format(*({w},), *['z'])", "{v} = '{{}}'.format('{{}}'.format({w}))", "o.attr, {v} = 1, {w}", "{v}, {w} = ({u},)", "pass", "{v}: str = 'lit'",
              "{v} = {w} = 'lit'", "{v} = [{w}]", "{v} = (\n    '{{}}'.format({w}))", "{v} = '{{}}'.format({w}, k={u})", "{v} = {w}.format('a')", "({v}, {w}) = ('p', 'q')",
              "[{v}, {w}] = ['p', 'q']", "{v} = '{{}}'.format(\n    '{{}}'.format(\n        {w}))", "{v} = '%s %s' % ({w},\n    {u})", "{v} = f'{{{w}}}'", "del {v}", "{v} = 'a' 'b'",
              "fn({v})", "{v} = '{{}}'.format(*fn())", "{v} = '{{}}'.format(*[*['a'], {w}])",
              # three-element target lists, the same name twice (found by tools/mutation: `break` -> `continue` in the tuple walk of evaluate_var survived)
              "{v}, {w}, {v} = 'p', 'q', {u}", "{v}, {w}, {v} = {u}, 'q', 'p'", "{w}, {v}, {u} = 'p', {u}, 'q'", "{v}, {w}, {u} = {w}, 'p', 'q'", "({v}, {w}, {v}) = ['p', fn(), 'q']",
              "{v}, {v} = 'p', {w}", "{v}, {v} = {w}, 'p'"]
XSS_COMPOUND = ["if c:\n{S}else:\n{T}", "if c:\n{S}", "for i in r:\n{S}", "for i in r:\n{S}else:\n{T}", "while c:\n{S}", "try:\n{S}except E:\n{T}", "try:\n{S}except E:\n{T}finally:\n{U}",
                "try:\n{S}finally:\n{T}", "with o as {v}:\n{S}", "with o as g:\n{S}", "with o as g, p as {v}:\n{S}", "with o as {v}, p as g:\n{S}", "def h_():\n{S}", "class K_:\n{S}",
                "async def ah_():\n{S}", "if c:\n{S}elif d:\n{T}else:\n{U}", "try:\n{S}except* E:\n{T}", "match c:\n    case 1:\n{SS}",
                # loop / with targets of every grammatical kind (seeded change C06-m2: a new For branch read node.target.id)
                "for {v} in r:\n{S}", "for k, {v} in r:\n{S}", "for o.attr in r:\n{S}", "for d[0] in r:\n{S}", "for {v}, *rest in r:\n{S}", "for [k, ({v}, m)] in r:\n{S}",
                "async for {v} in r:\n{S}", "async for k, m in r:\n{S}else:\n{T}", "with o as (g, {v}):\n{S}", "with o as o.attr:\n{S}", "with o:\n{S}", "with o as d[0], p:\n{S}",
                "async with o as {v}:\n{S}", "while (n := fn()):\n{S}else:\n{T}", "try:\n{S}except (E, F) as {v}:\n{T}else:\n{U}", "match c:\n    case [{v}, *_]:\n{SS}    case _:\n{SS}"]
XSS_ARGS = ["{v}", "'lit'", "'{{}}'.format({v})", "'%s' % {v}", "'%s%s' % ({v}, {w})", "fn({v})", "'{{}}'.format(*[{v}])", "{v} + {w}", "'{{}}'.format({v}, {w})", "'{{}}'.format('{{}}'.format({v}))",
            "'%s' % 'k'", "'{{}}'.format(\n    {v})", "{v}.format('a')", "'%s' % ({v},)", "'%d' % 5", "'{{}}'.format(*({v}, *['a']))"]


def gen_xss_fuzz(rng, n):
    import ast
    out = []
    vs = ["a", "b", "x", "y"]
    def simple():
        return rng.choice(XSS_SIMPLE).format(v=rng.choice(vs), w=rng.choice(vs), u=rng.choice(vs))
    def block(depth, ind):
        k = rng.randint(1, 2)
        lines = []
        for _ in range(k):
            if depth < 2 and rng.random() < 0.25:
                lines.append(compound(depth + 1, ind))
            else:
                lines.append("".join(ind + l + "\n" for l in simple().split("\n")))
        return "".join(lines)
    def compound(depth, ind):
        t = rng.choice(XSS_COMPOUND)
        body = {k: block(depth, ind + "    ") for k in ("S", "T", "U")}
        body["SS"] = block(depth, ind + "        ")
        head = t.format(v=rng.choice(vs), **body)
        # indent the header lines (those not already indented by block)
        res = []
        for l in head.split("\n"):
            if l == "":
                continue
            res.append(l if l.startswith(ind + "    ") else ind + l)
        return "\n".join(res) + "\n"
    while len(out) < n:
        imp, callee = rng.choice([("from django.utils.safestring import mark_safe", "mark_safe"), ("from django.utils import safestring", "safestring.mark_safe"),
                                  ("import django.utils.safestring as ss", "ss.SafeText")])
        in_func = rng.random() < 0.5
        ind = "    " if in_func else ""
        body = ""
        for _ in range(rng.randint(0, 5)):
            body += compound(0, ind) if rng.random() < 0.3 else "".join(ind + l + "\n" for l in simple().split("\n"))
        arg = rng.choice(XSS_ARGS).format(v=rng.choice(vs), w=rng.choice(vs))
        call = f"out = {callee}({arg})"
        if rng.random() < 0.2:
            call = "if c:\n    " + call.replace("\n", "\n    ")
        body += "".join(ind + l + "\n" for l in call.split("\n"))
        if rng.random() < 0.3:
            body += "".join(ind + l + "\n" for l in simple().split("\n"))
        src = imp + "\n" + ("def view(a, p):\n" + body if in_func else body)
        try:
            ast.parse(src)
        except SyntaxError:
            continue
        out.append(Case("fuzz", src, "?", "fuzz:xss-flow"))
    return out


def build_cases(rng, thorough):
    cases = []
    for g in (gen_b608, gen_django_sql, gen_templates, gen_xss, gen_deser, gen_misc_calls, gen_statements):
        cases += g(rng, thorough)
    cases += gen_fuzz(rng, 6000 if thorough else 1200)
    cases += gen_xss_fuzz(rng, 6000 if thorough else 1200)
    return cases


# ----------------------------------------------------------------------------- running
def scan_group(scratch, cases, cfg):
    """all cases share one plugin configuration: one config file, one manager run"""
    from bandit.core import config as b_config, manager as b_manager
    import yaml
    linecache.clearcache()
    C.take_log()
    scratch.k += 1
    d = os.path.join(scratch.root, f"g{scratch.k}")
    os.makedirs(d)
    cfg_path = None
    if cfg:
        cfg_path = os.path.join(d, "bandit.yaml")
        with open(cfg_path, "w") as f:
            yaml.safe_dump(cfg, f)
    paths = []
    for i, c in enumerate(cases):
        rel = c.fname or "m.py"
        p = os.path.join(d, f"c{i:05d}", rel)
        os.makedirs(os.path.dirname(p), exist_ok=True)
        with open(p, "wb") as f:
            f.write(c.src.encode("utf-8"))
        paths.append(p)
    conf = b_config.BanditConfig(cfg_path)
    mgr = b_manager.BanditManager(conf, "file")
    mgr.discover_files(paths)
    mgr.run_tests()
    logs = C.take_log()
    by = {p: {"findings": [], "errors": [], "skipped": None} for p in paths}
    for r in mgr.results:
        by[r.fname]["findings"].append(C.finding_tuple(r))
    for name, reason in mgr.skipped:
        if name in by:
            by[name]["skipped"] = reason
    for rec in logs:
        if rec.levelno >= logging.ERROR:
            m = re.match(r"Bandit internal error running: (\S+) on file (\S+) at line", rec.getMessage())
            if m and m.group(2) in by:
                by[m.group(2)]["errors"].append(m.group(1))
    out = []
    for p in paths:
        e = by[p]
        e["findings"].sort()
        e["errors"].sort()
        e["path"] = p
        out.append(e)
    return out, d


def glob_expect(path, globs):
    """documented meaning of `skips`: shell-style patterns (fnmatch) against the file path bandit was given"""
    def tr(pat):
        i, n, res = 0, len(pat), ""
        while i < n:
            ch = pat[i]; i += 1
            if ch == "*":
                res += ".*"
            elif ch == "?":
                res += "."
            elif ch == "[":
                j = i
                if j < n and pat[j] == "!":
                    j += 1
                if j < n and pat[j] == "]":
                    j += 1
                while j < n and pat[j] != "]":
                    j += 1
                if j >= n:
                    res += "\\["
                else:
                    stuff = pat[i:j].replace("\\", "\\\\").replace("[", "\\[")
                    i = j + 1
                    if stuff[0] == "!":
                        stuff = "^" + stuff[1:]
                    elif stuff[0] == "^":
                        stuff = "\\" + stuff
                    res += "[" + stuff + "]"
            else:
                res += re.escape(ch)
        return "(?s:" + res + ")\\Z"
    return any(re.match(tr(g), path) for g in globs)


def compare_targets(real, model):
    """correspondence restricted to the checks this property is about (other IDs belong to other
    properties and their models may lag behind /repo)"""
    ids = set(TARGETS)
    fm = C.func_ids()
    rf = C.norm_findings([f for f in real["findings"] if f[0] in ids])
    mf = C.norm_findings([f for f in model["findings"] if f[0] in ids])
    diff = {}
    if rf != mf:
        diff["real_only"] = [list(x) for x in sorted(set(rf) - set(mf))][:6]
        diff["model_only"] = [list(x) for x in sorted(set(mf) - set(rf))][:6]
        if not diff["real_only"] and not diff["model_only"]:
            diff["multiplicity"] = True
    rc = sorted(e for e in real["errors"] if fm.get(e) in ids)
    mc = sorted(e for e in model.get("crashes", []) if fm.get(e) in ids)
    if rc != mc:
        diff["real_crashes"], diff["model_crashes"] = rc, mc
    missing = ids - set(model.get("modelled", []))
    if missing:
        diff["unmodelled"] = sorted(missing)
    return diff or None


FUNC_OF = {"B202": "tarfile_unsafe_members", "B703": "django_mark_safe", "B611": "django_rawsql_used", "B506": "yaml_load", "B614": "pytorch_load"}


def verdict(c, real):
    """spec oracle on the implementation's output: 'open' | 'ok' | ('bad', message)"""
    fs = [f for f in real["findings"] if f[0] == c.check]
    exp = c.expect
    if isinstance(exp, tuple) and exp[0] == "glob":
        exp = None if glob_expect(real["path"], exp[1]) else (L, H)
    if exp == "?":
        return "open"
    if exp is None:
        return ("bad", f"safe variant reported: {c.check} fired where the property demands silence") if fs else "ok"
    sev, conf = exp
    confs = conf if isinstance(conf, (set, frozenset)) else {conf}
    if fs and all(f[1] == sev and f[2] in confs for f in fs):
        return "ok"
    crashed = FUNC_OF.get(c.check) in real["errors"]
    return ("bad", f"{c.check}: expected severity {sev} confidence {sorted(confs)} but got {[list(f[:4]) for f in fs] or 'no finding'}" + (" (check crashed)" if crashed else ""))


def judge(res, c, real, model_agrees):
    fs = [f for f in real["findings"] if f[0] == c.check]
    v = verdict(c, real)
    if v == "open":
        res.count("oracle:open")
        return
    if v == "ok":
        res.count("oracle:ok")
        return
    crashed = FUNC_OF.get(c.check) in real["errors"]
    if not fs and crashed and c.region == "crash" and model_agrees:
        res.known_finding("C17-crash-instead-of-finding")
        return
    if not fs and not crashed and c.region == "exact-import" and model_agrees:
        res.known_finding("C17-exact-import-required")
        return
    res.violation(v[1], dict(c.replay(), findings=[list(f) for f in fs], errors=real["errors"], path_suffix=c.fname))


def repaired(c, real, model):
    """inside the region of a known finding the implementation now satisfies the property (and no longer crashes)
    while the model still shows the defect: somebody repaired it — a NOTE, not a broken tie"""
    if c.region is None or real["errors"]:
        return False
    if c.region in ("crash", "c06") and FUNC_OF.get(c.check) not in model.get("crashes", []):
        return False
    if c.region == "exact-import" and any(f[0] == c.check for f in model["findings"]):
        return False
    # everything else must still agree
    ids = set(TARGETS) - {c.check}
    same = C.norm_findings([f for f in real["findings"] if f[0] in ids]) == C.norm_findings([f for f in model["findings"] if f[0] in ids])
    return same and verdict(c, real) in ("ok", "open")


def sql_strings(rng, n):
    verbs = ["select", "SELECT", "Select", "from", "FROM", "delete", "DELETE", "insert", "INSERT", "into", "INTO", "values", "VALUES", "update", "UPDATE", "set", "SET",
             "ſelect", "ſet", "value\u017f", "İnsert", "ınto", "\u212a", "sel", "ect", "fro", "m", "upd", "ate"]
    seps = [" ", "  ", "\t", "\n", "\r\n", "\x0b", "\x0c", "\x1c", "\x1f", "\x85", "\xa0", "\u1680", "\u2003", "\u2028", "\u202f", "\u3000", "\u200b", "\ufeff", "",
            "_", "*", ",", "x", "(", "1"]
    out = []
    for _ in range(n):
        k = rng.randint(1, 7)
        s = "".join(rng.choice(verbs) + rng.choice(seps) + (rng.choice(seps) if rng.random() < 0.3 else "") for _ in range(k))
        out.append(s)
    return out


def _run_main(res, ctx):
    thorough = res.tier == "thorough"
    rng = C.rng_for(res.seed, "C17")
    # translate.run() (called by the build step) ends with logging.disable(CRITICAL); internal errors of
    # checks are only visible through the log, so switch logging back on for this process
    logging.disable(logging.NOTSET)
    C.setup_logging()
    res.rule = ("one small program per case, aimed at one check: import spelling (import / import-as / from / from-as / from-module) x positional-or-keyword arguments x "
                "literal / name / call / nested-format values x SQL verb patterns (true, near-miss, open) x string construction (+, %, .format, .replace, f-string, multi-line) "
                "x wrapper (execute / executemany / other / keyword) x exception-handler forms x per-check configuration (check_typed_exception, assert skips globs x file paths, "
                "markupsafe lists); each case is scanned by real bandit and by the Lean model (all modelled IDs compared as (id, sev, conf, line, range, col) + internal errors) "
                "and judged by a spec oracle written from the property text; the SQL matcher is also compared with Python's re on generated strings; thorough adds every parsable "
                "file of /repo as correspondence corpus; non-trivial = distinct (program, configuration, file name)")
    res.exhaustive = False
    if ctx.get("replay"):
        rp = ctx["replay"]["replay"]
        cases = [Case(rp["check"], rp["program"], _exp_from_json(rp.get("expect", "?")), rp.get("tag", "replay"), cfg=rp.get("plugin_cfg"), fname=rp.get("fname"), region=rp.get("region"))]
        if isinstance(rp.get("expect"), list) and rp["expect"] and rp["expect"][0] == "glob":
            cases[0].expect = ("glob", rp["expect"][1])
    else:
        cases = build_cases(rng, thorough)
    # group by configuration
    groups = {}
    for c in cases:
        groups.setdefault(json.dumps(c.cfg, sort_keys=True), []).append(c)
    scratch = C.Scratch()
    d = C.Driver() if ctx["driver_ok"] else None
    crash_shapes = {}
    blids = C.blacklist_ids()
    try:
        for key, cs in groups.items():
            cfg = json.loads(key)
            reals, gdir = scan_group(scratch, cs, cfg)
            models = None
            if d is not None:
                models = d.ask_many([C.scan_request(c.src.encode("utf-8"), fname=r["path"], plugin_cfg=cfg) for c, r in zip(cs, reals)])
            shutil.rmtree(gdir, ignore_errors=True)
            for i, (c, r) in enumerate(zip(cs, reals)):
                res.case((c.src, key, c.fname), True, sample={"check": c.check, "program": c.src, "plugin_cfg": c.cfg, "real": [list(f[:4]) for f in r["findings"]],
                                                              "expect": _exp_json(c.expect) if not (isinstance(c.expect, tuple) and c.expect[0] == "glob") else "glob"} if i == 0 else None)
                res.count(c.tag)
                for f in r["findings"]:
                    if f[0] == c.check:
                        res.count("fired:" + c.check)
                agree = True
                if r["skipped"]:
                    res.violation("a generated program was skipped by bandit (generator must produce valid Python)", dict(c.replay(), reason=r["skipped"]))
                    continue
                if models is not None:
                    m = models[i]
                    if "error" in m:
                        res.break_("driver-error", m["error"]); agree = False
                    else:
                        diff = compare_targets(r, m)
                        if diff and repaired(c, r, m):
                            agree = False
                            note = f"NOTE: known finding region '{c.region}' no longer reproduces ({c.tag}): the implementation now satisfies the property here; model and known_findings.json are due for an update"
                            if note not in res.notes:
                                res.notes.append(note)
                                print(note)
                        elif diff:
                            agree = False
                            res.break_("correspondence", dict(c.replay(), diff=diff))
                for e in r["errors"]:
                    crash_shapes.setdefault(e, c.src)
                    res.count("crash:" + e)
                judge(res, c, r, agree and models is not None)
        # ---- the SQL matcher against Python's re
        if d is not None and not ctx.get("replay"):
            from bandit.plugins import injection_sql
            strs = sql_strings(rng, 20000 if thorough else 4000) + SQL_TRUE + SQL_FALSE + SQL_OPEN
            outs = d.ask_many([{"op": "sqlre", "s": s} for s in strs])
            bad = 0
            pos = 0
            for s, o in zip(strs, outs):
                want = injection_sql.SIMPLE_SQL_RE.search(s) is not None
                pos += want
                res.evaluations += 1
                if o != want:
                    bad += 1
                    if bad <= 3:
                        res.break_("correspondence:sql-regex", {"string": s, "impl": want, "model": o})
            res.extra["sql_regex_strings"] = len(strs)
            res.extra["sql_regex_matching"] = pos
            res.extra["sql_regex_mismatches"] = bad
            # oracle for the labelled strings: the documented verb patterns
            for s in SQL_TRUE:
                if injection_sql.SIMPLE_SQL_RE.search(s) is None:
                    res.violation("an SQL statement prefix of the documented verb patterns is not recognised", {"string": s})
            for s in SQL_FALSE:
                if injection_sql.SIMPLE_SQL_RE.search(s) is not None:
                    res.violation("a string without any of the documented verb patterns is recognised as SQL", {"string": s})
        # ---- thorough: every parsable file of /repo as correspondence corpus
        if thorough and d is not None and not ctx.get("replay"):
            import glob as _glob
            files = sorted(_glob.glob(os.path.join(C.REPO, "examples", "*.py"))) + sorted(_glob.glob(os.path.join(C.REPO, "bandit", "**", "*.py"), recursive=True)) + \
                sorted(_glob.glob(os.path.join(C.REPO, "tests", "**", "*.py"), recursive=True))
            bad = n = 0
            for f in files:
                data = open(f, "rb").read()
                try:
                    req = C.scan_request(data, fname=f)
                except (SyntaxError, ValueError):
                    continue
                m = d.ask(req)
                r = C.real_scan(f)
                r["errors"] = C.crashed_tests(r["errors"])
                n += 1
                res.evaluations += 1
                diff = {"error": m["error"]} if "error" in m else compare_targets(r, m)
                if diff:
                    bad += 1
                    if bad <= 3:
                        res.break_("correspondence:repo-file", {"file": f, "diff": diff})
            res.extra["repo_files"] = n
            res.extra["repo_files_mismatching"] = bad
    finally:
        scratch.close()
        if d is not None:
            d.close()
    res.extra["programs"] = len(cases)
    res.extra["crash_shapes_seen"] = {k: v for k, v in sorted(crash_shapes.items())}
    res.extra["modelled_ids"] = TARGETS


def b101_relative_scan(res):
    """B101 honours `skips` globs against the file name AS DISCOVERED: a recursive scan of `.` names its files `./x.py`, and globs anchored with `*/` or `./`
    match those spellings (seeded change C17-m11 normalised the name first: `./test_top.py` became `test_top.py` and `*/test_*.py` stopped matching at the top)."""
    import fnmatch, tempfile, shutil, yaml
    from bandit.core import config as b_config, manager as b_manager
    d = tempfile.mkdtemp(prefix="bverif_c17rel_")
    old = os.getcwd()
    try:
        files = ["main.py", "test_top.py", "tests/helpers.py", "pkg/module.py", "pkg/test_x.py", "pkg/tests/deep.py", "conftest.py"]
        for f in files:
            os.makedirs(os.path.dirname(os.path.join(d, f)) or d, exist_ok=True)
            with open(os.path.join(d, f), "w") as fh:
                fh.write("import os\nassert os.name\n")
        os.chdir(d)
        for gs in (["*/test_*.py", "*/tests/*"], ["./test_*.py"], ["test_*.py"], ["./tests/*"], ["*/pkg/*"], ["./*.py"], ["./pkg/tests/*", "*conftest.py"]):
            for targets, rec in ((["."], True), (["./"], True), (["pkg", "main.py", "test_top.py"], True), (["./pkg/../pkg"], True)):
                cfgp = os.path.join(d, "bandit.yaml")
                with open(cfgp, "w") as fh:
                    yaml.safe_dump({"assert_used": {"skips": gs}}, fh)
                mgr = b_manager.BanditManager(b_config.BanditConfig(cfgp), "file")
                mgr.discover_files(list(targets), rec); mgr.run_tests(); C.take_log()
                hit = sorted({r.fname for r in mgr.results if r.test_id == "B101"})
                want = sorted(f for f in mgr.files_list if not any(fnmatch.fnmatch(f, g) for g in gs))
                res.case(("b101-relative", tuple(gs), tuple(targets)), True)
                res.count("b101:relative-scan")
                if hit != want:
                    res.violation("B101 does not follow the configured skips globs for the file names a relative scan discovers",
                                  {"check": "B101", "skips": gs, "targets": targets, "cwd_files": files, "discovered": sorted(mgr.files_list), "B101_reported_in": hit, "expected_in": want})
    finally:
        os.chdir(old)
        shutil.rmtree(d, ignore_errors=True)


def run(res, ctx):
    _run_main(res, ctx)
    if not ctx.get("replay"):
        b101_relative_scan(res)
    # the neighbourhood of every construct of bandit's example files (harness/metamorph.py): model vs implementation on this family's ids
    metamorph.family(res, ctx, C, set(TARGETS), 900, 5000, sections={"try_except_pass", "try_except_continue", "assert_used", "markupsafe_xss"}, cfg_want=lambda s: "except" in s or "assert" in s or "Markup" in s)
