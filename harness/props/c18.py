"""C18 — the rule registry is coherent and the published rules stay enforced.

Finite domain, enumerated exhaustively: every registered plugin, blacklist rule, formatter, entry point,
every published (id, qualified name), every entry x {by ID, by name} x {nosec, legacy profile, -t, -s}.

 (1) tables: the registry of the RUNNING implementation (+ source AST / doc listings) is compared with the
     generated Lean instance `Gen.tables` (DumpC18.lean) the theorems were checked against;
 (2) spec: every clause of `Bandit.Spec` is evaluated twice on the real registry — by an independent Python
     oracle that uses the implementation's own lookups (`get_test_id`, `check_id`, by-id dicts, `get_url`), and by
     the Lean definitions themselves (driver op c18_spec) — verdicts must agree, failing clauses are violations
     (with the offending entries and, where behaviour is at stake, the trigger program that shows it);
 (3) behaviour: one trigger program per ID through real bandit (fires; severity/confidence in RANKING; CWE set),
     one per published (id, qualname) (flagged with >= published severity, HIGH confidence), each entry named by
     ID and by name in `# nosec`, in a legacy profile (-p), in -t and in -s: the two namings must behave identically;
     Lean models (`Registry.resolve`, `Nosec.parse`, `convertNames`, `getFilter`, `docUrl`, `BlState.getUrlStep`)
     predict each outcome;
 (4) `docs_utils.get_url` for every id, and what it does to the shared registry.
"""
import json, os, re, subprocess, linecache, logging, shutil

import common as C
import translate_registry as R

LEVEL = "proof"

KNOWN_DEAD_DOC_URL = {"B508", "B509"}          # = Props.C18.knownDeadDocUrl
F_DOC, F_CLI, F_URL = "C18-dead-doc-url", "C18-cli-select-by-name", "C18-get-url-mutates-names"

# one small program per plugin ID that makes the plugin fire (cross-checked on every run: a registered plugin
# whose trigger does not fire, or that has no trigger here, is reported in evidence as uncovered)
TRIGGERS = {
    "B101": "assert x\n",
    "B102": "exec('x')\n",
    "B103": "import os\nos.chmod('/etc/passwd', 0o777)\n",
    "B104": "s = '0.0.0.0'\n",
    "B105": "password = 'hunter2'\n",
    "B106": "f(password='hunter2')\n",
    "B107": "def f(password='hunter2'):\n    pass\n",
    "B108": "p = '/tmp/x'\n",
    "B110": "try:\n    pass\nexcept Exception:\n    pass\n",
    "B112": "for i in x:\n    try:\n        pass\n    except Exception:\n        continue\n",
    "B113": "import requests\nrequests.get('https://x')\n",
    "B201": "from flask import Flask\napp = Flask(__name__)\napp.run(debug=True)\n",
    "B202": "import tarfile\nt = tarfile.open('x')\nt.extractall()\n",
    "B324": "import hashlib\nhashlib.md5(b'x')\n",
    "B501": "import requests\nrequests.get('https://x', verify=False, timeout=3)\n",
    "B502": "import ssl\nssl.wrap_socket(ssl_version=ssl.PROTOCOL_SSLv3)\n",
    "B503": "import ssl\ndef f(v=ssl.PROTOCOL_SSLv3):\n    pass\n",
    "B504": "import ssl\nssl.wrap_socket()\n",
    "B505": "from cryptography.hazmat.primitives.asymmetric import rsa\nrsa.generate_private_key(65537, 1024)\n",
    "B506": "import yaml\nyaml.load(x)\n",
    "B507": "from paramiko import client\nc = client.SSHClient()\nc.set_missing_host_key_policy(client.AutoAddPolicy)\n",
    "B508": "from pysnmp.hlapi import CommunityData\nCommunityData('public', mpModel=0)\n",
    "B509": "from pysnmp.hlapi import UsmUserData\nUsmUserData('u')\n",
    "B601": "import paramiko\nc = paramiko.client.SSHClient()\nc.exec_command('ls')\n",
    "B602": "import subprocess\nsubprocess.Popen('/bin/ls', shell=True)\n",
    "B603": "import subprocess\nsubprocess.Popen(['/bin/ls'])\n",
    "B604": "f('x', shell=True)\n",
    "B605": "import os\nos.system('/bin/ls')\n",
    "B606": "import os\nos.execl('/bin/ls', 'ls')\n",
    "B607": "import subprocess\nsubprocess.Popen(['ls'])\n",
    "B608": "q = 'SELECT * FROM t WHERE id = %s' % x\n",
    "B609": "import os\nos.system('/bin/tar xvf *')\n",
    "B610": "X.objects.extra(where=[x])\n",
    "B611": "from django.db.models.expressions import RawSQL\nRawSQL('select %s' % x, [])\n",
    "B612": "import logging.config\nlogging.config.listen()\n",
    "B613": "x = '\u202e'\n",
    "B614": "import torch\ntorch.load('x')\n",
    "B701": "import jinja2\njinja2.Environment()\n",
    "B702": "from mako.template import Template\nTemplate('x')\n",
    "B703": "from django.utils.safestring import mark_safe\nmark_safe(x)\n",
    "B704": "from markupsafe import Markup\nMarkup(x)\n",
}

# extra programs for `Issue(...)` sites whose severity is not a literal (weak_cryptographic_key takes it from a
# threshold table): every branch of that table is exercised so that the rank actually emitted is observed
RANK_PROGRAMS = [
    "from cryptography.hazmat.primitives.asymmetric import rsa\nrsa.generate_private_key(65537, 512)\n",
    "from cryptography.hazmat.primitives.asymmetric import rsa\nrsa.generate_private_key(65537, 1024)\n",
    "from cryptography.hazmat.primitives.asymmetric import dsa\ndsa.generate_private_key(512)\n",
    "from cryptography.hazmat.primitives.asymmetric import dsa\ndsa.generate_private_key(1024)\n",
    "from cryptography.hazmat.primitives.asymmetric import ec\nec.generate_private_key(ec.SECT163K1)\n",
    "from Crypto.PublicKey import RSA\nRSA.generate(512)\n",
    "from Cryptodome.PublicKey import DSA\nDSA.generate(1024)\n",
    "import os\nos.chmod('/etc/passwd', 0o777)\n",
    "import os\nos.chmod('/etc/passwd', 0o775)\n",
    "q = 'SELECT * FROM t WHERE id = %s' % x\ncur.execute('SELECT * FROM t WHERE id = %s' % x)\n",
]


# ----------------------------------------------------------------------------- programs
def blacklist_trigger(kinds, q):
    """(program, line the finding is expected on) for qualified name q of a rule living in `kinds`."""
    if "Import" in kinds:
        return f"import {q}\n", 1
    if "ImportFrom" in kinds:
        return f"from {q} import zz\n", 1
    if "." in q:
        mod = q.rsplit(".", 1)[0]
        return f"import {mod}\n{q}(x)\n", 2
    return f"{q}(x)\n", 1


def import_from_trigger(q):
    return f"from {q} import zz\n", 1


# ----------------------------------------------------------------------------- real bandit
def scan_batch(scratch, sources, profile=None):
    """Each source in its own file, one manager run.  Per file: list of issue dicts."""
    from bandit.core import config as b_config, manager as b_manager
    linecache.clearcache()
    C.take_log()
    scratch.k += 1
    d = os.path.join(scratch.root, f"r{scratch.k}")
    os.makedirs(d)
    paths = []
    for i, s in enumerate(sources):
        p = os.path.join(d, f"t{i:05d}.py")
        with open(p, "wb") as f:
            f.write(s.encode("utf-8"))
        paths.append(p)
    mgr = b_manager.BanditManager(b_config.BanditConfig(), "file", profile=profile)
    mgr.discover_files(paths)
    mgr.run_tests()
    logs = C.take_log()
    by = {p: [] for p in paths}
    for r in mgr.results:
        cwe = getattr(r, "cwe", None)
        by[r.fname].append({"id": r.test_id, "sev": r.severity, "conf": r.confidence, "line": r.lineno,
                            "cwe": getattr(cwe, "id", None), "test": r.test})
    skipped = dict(mgr.skipped)
    errs = [x.getMessage() for x in logs if x.levelno >= logging.ERROR]
    shutil.rmtree(d, ignore_errors=True)
    return [{"issues": sorted(by[p], key=lambda x: (x["line"], x["id"])), "skipped": skipped.get(p), "path": p} for p in paths], errs


def cli_scan(argv, files):
    """`bandit -f json <argv> files...` in-process -> (exit, sorted [(file index, id, line)])"""
    r = C.run_cli(["-q", "-f", "json"] + list(argv) + list(files))
    out = []
    if r["out"].strip():
        try:
            doc = json.loads(r["out"])
            idx = {f: i for i, f in enumerate(files)}
            out = sorted((idx.get(x["filename"], -1), x["test_id"], x["line_number"]) for x in doc.get("results", []))
        except ValueError:
            out = [("unparsable", r["out"][:200], 0)]
    return {"exit": r["exit"], "exc": r["exc"], "findings": [list(x) for x in out]}


# ----------------------------------------------------------------------------- spec oracle (Python, on the real registry)
RANK_ORDER = {"UNDEFINED": 0, "LOW": 1, "MEDIUM": 2, "HIGH": 3}


def py_spec(t, pub, mgr):
    """Every clause of Bandit.Spec evaluated on the real registry `t` using the implementation's own
    lookups.  Returns (verdicts: same keys as the Lean op c18_spec, offenders per clause)."""
    v, off = {}, {}
    pl, bl = t["plugins"], t["blacklist"]
    entries = [(p["id"], p["name"]) for p in pl] + [(b["id"], b["name"]) for b in bl]
    ids = [e[0] for e in entries] + list(t["builtin"])
    names = [e[1] for e in entries]

    def clause(key, bad):
        v[key] = not bad
        if bad:
            off[key] = bad

    clause("ids_wellformed", [i for i in ids if not re.fullmatch(r"B[0-9]{3}", i, re.ASCII)])
    clause("ids_unique", sorted({i for i in ids if ids.count(i) > 1}))
    clause("names_unique", sorted({n for n in names if names.count(n) > 1}))
    clause("names_are_not_ids", [n for n in names if n in ids or n == ""])

    def name_of(i):
        if i in mgr.plugins_by_id:
            return mgr.plugins_by_id[i].name
        if i in mgr.blacklist_by_id:
            return mgr.blacklist_by_id[i]["name"]
        return None

    def resolve(tok):
        return tok if mgr.check_id(tok) else mgr.get_test_id(tok)

    clause("id_name_bijection", [list(e) for e in entries
                                 if not (mgr.get_test_id(e[1]) == e[0] and mgr.check_id(e[0]) and name_of(e[0]) == e[1])])
    clause("name_id_interchangeable", [list(e) for e in entries if not (resolve(e[1]) == e[0] and resolve(e[0]) == e[0])])
    clause("profile_name_id_interchangeable", [list(e) for e in entries
                                               if not ((mgr.get_test_id(e[1]) or e[1]) == e[0] and (mgr.get_test_id(e[0]) or e[0]) == e[0])])
    rk = t["ranking"]
    bad = [[b["id"], "level", b["level"]] for b in bl if b["level"] not in rk]
    for s in t["issueSites"]:
        if not s["sevs"] or not s["confs"] or any(x is not None and x not in rk for x in s["sevs"] + s["confs"]):
            bad.append([s["module"], s["func"], s["sevs"], s["confs"]])
    mods = {s["module"] for s in t["issueSites"]}
    bad += [[p["id"], "no Issue() site in", p["module"]] for p in pl if p["module"] not in mods]
    clause("ranks_valid", bad)
    clause("cwe_set", [[b["id"], "cwe", b["cwe"]] for b in bl if b["cwe"] == 0] +
           [[s["module"], s["func"], "cwe", s["cwe"] if s["cwe_present"] else "absent"] for s in t["issueSites"] if not s["cwe_present"] or s["cwe"] == 0])
    decl = t["declared"]
    bad = []
    for g, n, tg in decl:
        if g == "bandit.plugins" and not any(p["name"] == n and p["id"] != "" for p in pl):
            bad.append([g, n, tg])
        if g == "bandit.formatters" and n not in t["loadedFormatters"]:
            bad.append([g, n, tg])
        if g == "bandit.blacklists" and n not in t["loadedBlacklists"]:
            bad.append([g, n, tg])
    clause("declared_loaded", bad)
    targets = {g: [tg for gg, _, tg in decl if gg == g] for g in ("bandit.plugins", "bandit.formatters", "bandit.blacklists")}
    mods_of = {g: [tg.split(":")[0] for tg in tgs] for g, tgs in targets.items()}
    bad = [["check", m, f, i] for m, f, i in t["definedChecks"] if f"{m}:{f}" not in targets["bandit.plugins"]]
    bad += [["plugin file", f] for f in t["pluginFiles"] if "bandit.plugins." + f not in mods_of["bandit.plugins"]]
    bad += [["formatter file", f] for f in t["formatterFiles"] if "bandit.formatters." + f not in mods_of["bandit.formatters"]]
    bad += [["blacklist file", f] for f in t["blacklistFiles"] if "bandit.blacklists." + f not in mods_of["bandit.blacklists"]]
    clause("present_declared", bad)
    for key, kind in (("published_call", "Call"), ("published_import", "Import"), ("published_importfrom", "ImportFrom")):
        cur = [b for b in bl if kind in b["kinds"] and b["level"] in RANK_ORDER]
        bad = []
        for p in pub["rules"]:
            if kind not in p["kinds"]:
                continue
            ok = any(r["id"] == p["id"] and set(p["qualnames"]) <= set(r["qualnames"]) and RANK_ORDER[p["level"]] <= RANK_ORDER[r["level"]] for r in cur)
            if not ok:
                cands = [r for r in cur if r["id"] == p["id"]]
                bad.append({"id": p["id"], "published_level": p["level"], "current_level": [r["level"] for r in cands],
                            "missing_qualnames": sorted(set(p["qualnames"]) - set(q for r in cands for q in r["qualnames"]))})
        clause(key, bad)

    def page_ok(url, sub, pages):
        base = t["docBase"]
        if not url.startswith(base):
            return False
        parts = url[len(base):].split("#")[0].split("/")
        page = parts[-1][:-5] if parts[-1].endswith(".html") else parts[-1]
        return parts[0] == sub and page in pages
    v["doc_page_missing"] = [p["id"] for p in pl if not page_ok(p["url"], "plugins", t["pluginDocPages"])]
    v["blacklist_doc_page_missing"] = [b["id"] for b in bl if not page_ok(b["url"], "blacklists", t["blacklistDocPages"])]
    anchors = {tuple(a) for a in t["blacklistDocAnchors"]}
    v["blacklist_doc_anchor_missing"] = [b["id"] for b in bl
                                         if (b["url"].split("#")[0].rsplit("/", 1)[-1][:-5], b["url"].split("#", 1)[1] if "#" in b["url"] else "") not in anchors]
    v["blacklist_levels_not_ranks"] = [b["id"] for b in bl if b["level"] not in RANK_ORDER]
    return v, off


# ----------------------------------------------------------------------------- the check
def gen_tables_dump():
    p = subprocess.run(["lake", "env", "lean", "--run", "DumpC18.lean"], cwd=C.LEAN_DIR, stdout=subprocess.PIPE, stderr=subprocess.PIPE, text=True, timeout=300)
    if p.returncode != 0 or not p.stdout.strip().startswith("{"):
        raise RuntimeError((p.stderr or p.stdout)[-800:])
    return json.loads(p.stdout)


def diff_tables(real, gen):
    out = {}
    for k in sorted(set(real) | set(gen)):
        a, b = real.get(k), gen.get(k)
        if a == b:
            continue
        if isinstance(a, list) and isinstance(b, list):
            ka = [json.dumps(x, sort_keys=True) for x in a]
            kb = [json.dumps(x, sort_keys=True) for x in b]
            out[k] = {"real_only": [json.loads(x) for x in ka if x not in kb][:4], "gen_only": [json.loads(x) for x in kb if x not in ka][:4],
                      "order_differs": sorted(ka) == sorted(kb)}
        else:
            out[k] = {"real": a, "gen": b}
    return out


class Ctx:
    pass


def run(res, ctx):
    from bandit.core import extension_loader, docs_utils
    mgr = extension_loader.MANAGER
    thorough = res.tier == "thorough"
    res.exhaustive = True
    res.rule = ("finite domain enumerated completely: every registered plugin / blacklist rule / formatter / entry point (spec clauses on the real registry, "
                "Python oracle vs Lean Spec), one trigger program per registered ID, one per published (id, qualified name, node kind), and every registered entry "
                "x {named by ID, named by name} x {nosec comment, legacy profile -p, -t, -s}; a case is non-trivial when the by-ID run shows an effect "
                "(the trigger fires; the ID-named nosec/exclude removes it; the ID-named include keeps it and drops the control)")
    # names as loaded: a fresh Manager re-runs gen_blacklist(), so its rows were never touched by get_url
    # (formatters run earlier in this process may already have rewritten the shared rows)
    snap = R.snapshot_names(extension_loader.Manager())
    R.restore_names(mgr, snap)
    tables = R.real_tables(mgr)
    pub_bl, pub_pl = R.load_published()
    scratch = C.Scratch()
    drv = None
    try:
        if ctx["driver_ok"]:
            try:
                drv = C.Driver()
            except Exception as e:  # noqa
                res.break_("driver", str(e))
        if ctx.get("replay"):
            replay_one(res, ctx["replay"], mgr, tables, pub_bl, scratch, drv)
            return
        check_tables(res, ctx, tables)
        spec = check_spec(res, tables, pub_bl, mgr, drv, scratch)
        fired = check_triggers(res, tables, pub_pl, scratch, spec)
        check_published(res, tables, pub_bl, scratch, drv)
        check_published_after_restricted_scan(res, pub_bl, scratch)
        check_published_pairs(res, pub_bl, scratch)
        check_urls_in_reports(res, tables, scratch)
        check_registry_straight_after_import(res, pub_bl, scratch)
        check_naming(res, tables, fired, scratch, drv, thorough)
        check_get_url(res, tables, mgr, docs_utils, drv, snap)
    finally:
        R.restore_names(mgr, snap)
        if drv:
            drv.close()
        scratch.close()


# ---- (1) generated instance = real registry
def check_tables(res, ctx, tables):
    if not ctx.get("props_ok", True):
        res.notes.append("Props.C18 did not build: the generated tables no longer satisfy an instance theorem; the spec oracle below locates the entry")
    try:
        gen = gen_tables_dump()
    except Exception as e:  # noqa
        res.break_("gen-tables-dump", str(e)[-600:])
        return
    d = diff_tables(tables, gen)
    res.case("tables:gen-vs-real", True, sample={"component": "Gen.tables vs running registry", "plugins": len(tables["plugins"]),
                                                  "blacklist_rules": len(tables["blacklist"]), "declared": len(tables["declared"]), "diff": d})
    res.count("tables-compared")
    if d:
        res.break_("correspondence:gen-tables", json.dumps(d)[:1500])


# ---- (2) spec clauses
BOOL_CLAUSES = ["ids_wellformed", "ids_unique", "names_unique", "names_are_not_ids", "id_name_bijection", "name_id_interchangeable",
                "profile_name_id_interchangeable", "ranks_valid", "cwe_set", "declared_loaded", "present_declared",
                "published_call", "published_import", "published_importfrom"]
LIST_CLAUSES = ["doc_page_missing", "blacklist_doc_page_missing", "blacklist_doc_anchor_missing", "blacklist_levels_not_ranks"]


def check_spec(res, tables, pub, mgr, drv, scratch):
    pv, off = py_spec(tables, pub, mgr)
    lv = None
    if drv:
        lv = drv.ask({"op": "c18_spec", "tables": tables})
        if "error" in lv:
            res.break_("driver-error:c18_spec", lv["error"])
            lv = None
    for k in BOOL_CLAUSES + LIST_CLAUSES:
        res.case("spec:" + k, True, sample={"clause": k, "python_oracle": pv[k], "lean_spec": None if lv is None else lv.get(k)} if k in ("ids_unique", "doc_page_missing") else None)
        res.count("spec-clause")
        if lv is not None and (sorted(lv.get(k)) if isinstance(lv.get(k), list) else lv.get(k)) != (sorted(pv[k]) if isinstance(pv[k], list) else pv[k]):
            res.break_("correspondence:spec:" + k, json.dumps({"python": pv[k], "lean": lv.get(k), "offenders": off.get(k)})[:800])
    # urls: model of get_url vs what the implementation returned
    if lv is not None:
        real_urls = {e["id"]: e["url"] for e in tables["plugins"] + tables["blacklist"]}
        for i, u in lv.get("url_model", []):
            res.case("url-model:" + i, True)
            res.count("get_url-vs-model")
            if real_urls.get(i) != u:
                res.break_("correspondence:get_url", json.dumps({"id": i, "real": real_urls.get(i), "model": u}))
    # verdicts
    for k in BOOL_CLAUSES:
        if not pv[k]:
            rep = {"kind": "table", "clause": k, "offenders": off.get(k), "registry_source": "extension_loader.MANAGER built from " + os.path.join(C.REPO, "setup.cfg")}
            if k == "present_declared":
                rep["evidence"] = undeclared_evidence(off[k], scratch)
            res.violation(f"registry clause {k} fails", rep)
    for i in pv["doc_page_missing"]:
        row = next(p for p in tables["plugins"] if p["id"] == i)
        model_ok = lv is None or i in lv.get("doc_page_missing", [])
        if i in KNOWN_DEAD_DOC_URL and model_ok and row["func"] != row["name"]:
            res.known_finding(F_DOC)
        else:
            res.violation("documentation URL of a plugin names a page that does not exist",
                          {"kind": "table", "clause": "doc_page_missing", "offenders": [i], "url": row["url"], "pages": "doc/source/plugins/*.rst"})
    for i in pv["blacklist_doc_page_missing"]:
        row = next(b for b in tables["blacklist"] if b["id"] == i)
        res.violation("documentation URL of a blacklist rule names a page that does not exist",
                      {"kind": "table", "clause": "blacklist_doc_page_missing", "offenders": [i], "url": row["url"]})
    if pv["blacklist_doc_anchor_missing"]:
        res.notes.append("observation (not demanded by the property): the #fragment of the documentation URL is not a section of the page for "
                         + ",".join(pv["blacklist_doc_anchor_missing"]))
    res.extra["spec_python"] = {k: pv[k] for k in BOOL_CLAUSES + LIST_CLAUSES}
    res.extra["dynamic_rank_sites"] = [[s["module"], s["func"]] for s in tables["issueSites"] if None in s["sevs"] + s["confs"] or (s["cwe_present"] and s["cwe"] is None)]
    return {"py": pv, "lean": lv, "off": off}


def undeclared_evidence(offenders, scratch):
    """behavioural face of an undeclared check: its trigger program is not flagged"""
    out = []
    for o in offenders:
        if o[0] == "check" and o[3] in TRIGGERS:
            r, _ = scan_batch(scratch, [TRIGGERS[o[3]]])
            out.append({"id": o[3], "program": TRIGGERS[o[3]], "flagged": any(x["id"] == o[3] for x in r[0]["issues"]), "issues": r[0]["issues"]})
    return out


# ---- (3a) one trigger per ID
def trigger_programs(tables):
    progs = {}
    for p in tables["plugins"]:
        if p["id"] in TRIGGERS:
            progs.setdefault(p["id"], (TRIGGERS[p["id"]], None))
    for b in tables["blacklist"]:
        if b["qualnames"]:
            progs.setdefault(b["id"], blacklist_trigger(b["kinds"], b["qualnames"][0]))
    return progs


def check_triggers(res, tables, pub_pl, scratch, spec):
    progs = trigger_programs(tables)
    ids = sorted(progs)
    out, errs = scan_batch(scratch, [progs[i][0] for i in ids])
    rk = tables["ranking"]
    fired = {}
    uncovered = []
    for i, o in zip(ids, out):
        mine = [x for x in o["issues"] if x["id"] == i]
        res.case("trigger:" + i, bool(mine), sample={"id": i, "program": progs[i][0], "issues": o["issues"]} if i in ("B101", "B301") else None)
        res.count("trigger:" + ("fired" if mine else "silent"))
        if not mine:
            uncovered.append(i)
            continue
        fired[i] = (progs[i][0], mine[0]["line"], [x for x in o["issues"]])
        for x in o["issues"]:
            if x["sev"] not in rk or x["conf"] not in rk:
                res.violation("a finding carries a severity/confidence that is not a rank", {"kind": "program", "program": progs[i][0], "issue": x, "expect": "ranks"})
            if not x["cwe"]:
                res.violation("a finding carries no CWE", {"kind": "program", "program": progs[i][0], "issue": x, "expect": "cwe"})
    out2, _ = scan_batch(scratch, RANK_PROGRAMS)
    for prog, o in zip(RANK_PROGRAMS, out2):
        res.case("rank-program:" + prog, bool(o["issues"]))
        res.count("rank-program")
        for x in o["issues"]:
            res.count(f"rank-observed:{x['sev']}/{x['conf']}")
            if x["sev"] not in rk or x["conf"] not in rk:
                res.violation("a finding carries a severity/confidence that is not a rank", {"kind": "program", "program": prog, "issue": x, "expect": "ranks"})
            if not x["cwe"]:
                res.violation("a finding carries no CWE", {"kind": "program", "program": prog, "issue": x, "expect": "cwe"})
    known_plugins = {p["id"] for p in tables["plugins"]}
    no_trigger = sorted(known_plugins - set(TRIGGERS))
    res.extra["ids_without_trigger"] = no_trigger          # new plugins: tolerated
    res.extra["ids_whose_trigger_did_not_fire"] = uncovered
    res.extra["published_plugins_not_registered"] = sorted(p["id"] for p in pub_pl["plugins"] if p["id"] not in known_plugins)
    if uncovered:
        res.notes.append("trigger did not fire for " + ",".join(uncovered) + " (uncovered; blacklist IDs among them are judged by the published-rule check)")
    if errs:
        res.notes.append("internal errors while scanning triggers: " + "; ".join(errs)[:300])
    return fired


# ---- (3b) published rules still enforced
def check_published(res, tables, pub, scratch, drv):
    cases = []
    for p in pub["rules"]:
        for kind in p["kinds"]:
            if kind == "Call" and "Import" in p["kinds"]:
                continue      # the Call table row of an import rule is for __import__/importlib (C01)
            for q in p["qualnames"]:
                prog, line = import_from_trigger(q) if kind == "ImportFrom" else blacklist_trigger([kind], q)
                cases.append((p, kind, q, prog, line))
                if kind == "Call" and "." in q:
                    # the published rule is about the qualified name being called, however (or whether) the file imports the module: helper functions above
                    # the import block, a module bound dynamically, a snippet without imports (seeded change C18-m10 required an import statement above the call)
                    mod, top = q.rsplit(".", 1)[0], q.split(".")[0]
                    cases.append((p, kind, q, f"def helper_(x):\n    return {q}(x)\n\n\nimport {mod}\n", 2))
                    cases.append((p, kind, q, f"import importlib\n{top} = importlib.import_module('{top}')\nr_ = {q}(x)\n", 3))
                    cases.append((p, kind, q, f"r_ = {q}(x)\n", 1))
    # the same triggers inside compound statements — the branch that RUNS when a guard is false, an except / finally / loop-else block, nested two deep: a published rule
    # is enforced wherever the statement stands (seeded change C18-m15 dropped import rules anywhere below an `if TYPE_CHECKING:` statement, its `else:` branch included).
    # Guard names: a fixed list plus the identifier-like literals of the lines by which /repo differs from the recorded commit.
    import diffhints
    gnames = ["TYPE_CHECKING", "typing.TYPE_CHECKING", "DEBUG", "__debug__", "sys.version_info >= (3, 8)", "os.environ.get('CI')"]
    gnames += [h for h in diffhints.hints(C.REPO)["strings"] if re.fullmatch(r"[A-Za-z_][A-Za-z0-9_]*", h) and h not in gnames][:8]
    def guards(g):
        return [("else-branch", f"if {g}:\n    pass\nelse:\n", 3, 1), ("elif-branch", f"if {g}:\n    pass\nelif other_:\n", 3, 1), ("if-not", f"if not {g}:\n", 1, 1),
                ("else-nested", f"if {g}:\n    pass\nelse:\n    if x_:\n        with y_:\n", 5, 3), ("except-block", f"try:\n    import nothing_\nexcept ImportError:\n", 3, 1),
                ("finally-block", f"try:\n    {g}\nfinally:\n", 3, 1), ("loop-else", f"for i_ in {g}:\n    break\nelse:\n", 3, 1), ("if-body", f"if {g}:\n", 1, 1),
                ("def-under-else", f"if {g}:\n    pass\nelse:\n    def late_():\n", 4, 2)]
    base = list(cases)
    k = 0
    for (p, kind, q, prog, line) in base:
        if "\n" in prog.rstrip("\n") and kind != "Call":
            pass
        gs = guards(gnames[k % len(gnames)])
        for label, head, off, depth in (gs[k % len(gs)], gs[(k + 4) % len(gs)]):
            body = "".join("    " * depth + ln + "\n" for ln in prog.rstrip("\n").split("\n"))
            cases.append((p, kind, q, head + body, off + line))
        k += 1
    out, errs = scan_batch(scratch, [c[3] for c in cases])
    model = None
    if drv:
        model = drv.ask_many([C.scan_request(c[3].encode()) for c in cases])
    blids = {b["id"] for b in tables["blacklist"]} | {p["id"] for p in pub["rules"]}
    for n, ((p, kind, q, prog, line), o) in enumerate(zip(cases, out)):
        hits = [x for x in o["issues"] if x["id"] == p["id"] and x["line"] == line]
        ok = any(RANK_ORDER.get(x["sev"], -1) >= RANK_ORDER[p["level"]] and x["conf"] == "HIGH" for x in hits)
        res.case(f"published:{p['id']}:{kind}:{q}", True,
                 sample={"published": [p["id"], q, p["level"], kind], "program": prog, "issues": o["issues"]} if n % 97 == 0 else None)
        res.count("published:" + kind)
        if not ok:
            res.violation(f"published rule {p['id']} ({q}, severity {p['level']}) is no longer enforced with at least its published severity",
                          {"kind": "program", "program": prog, "expect": {"id": p["id"], "line": line, "min_severity": p["level"], "confidence": "HIGH"},
                           "real_issues": o["issues"], "published": {"id": p["id"], "qualname": q, "level": p["level"], "node": kind}})
        if model is not None:
            m = model[n]
            if "error" in m:
                res.break_("driver-error:scan", m["error"])
            else:
                rf = sorted((x["id"], x["sev"], x["conf"], x["line"]) for x in o["issues"] if x["id"] in blids)
                mf = sorted((f[0], f[1], f[2], f[3]) for f in m["findings"] if f[0] in blids)
                if rf != mf:
                    res.break_("correspondence:blacklist-scan", json.dumps({"program": prog, "real": rf, "model": mf}))


def check_registry_straight_after_import(res, pub, scratch):
    """In a FRESH interpreter, before any scanner or test set exists: every published id is known, every published name maps to its id, and a legacy profile
    naming blacklist rules by NAME selects them (seeded change C18-m14 filled the by-id / by-name indices lazily, as a side effect of the first read of the rule
    table: a config loaded first saw an empty registry)."""
    import subprocess, sys
    ids = [[p["id"], p.get("name")] for p in pub["rules"]]
    prog = scratch.fresh("reg_probe.py", b"import pickle\nimport telnetlib\nassert x\npickle.loads(b)\n")
    cfg = scratch.fresh("legacy.yaml", b"profiles:\n  byname:\n    include: [pickle, import_telnetlib, assert_used]\n  byid:\n    include: [B301, B401, B101]\n")
    script = scratch.fresh("reg_probe_run.py", (
        "import sys, json\nsys.path[:0] = %r\nfrom bandit.core import extension_loader as el\n"
        "ids = json.loads(sys.argv[1])\nm = el.MANAGER\n"
        "out = {'unknown_ids': [i for i, n in ids if not m.check_id(i)], 'unmapped_names': [[n, m.get_test_id(n)] for i, n in ids if n and m.get_test_id(n) != i]}\n"
        "from bandit.core import config as b_config, manager as b_manager\n"
        "for prof in ('byname', 'byid'):\n"
        "    conf = b_config.BanditConfig(sys.argv[2])\n"
        "    p = conf.get_option('profiles')[prof]\n"
        "    mg = b_manager.BanditManager(conf, 'file', profile={'include': set(p.get('include', [])), 'exclude': set(p.get('exclude', []))})\n"
        "    mg.discover_files([sys.argv[3]]); mg.run_tests()\n"
        "    out[prof] = sorted(r.test_id for r in mg.results)\n"
        "print(json.dumps(out))\n" % ([os.environ["PYTHONPATH"].split(os.pathsep)[0], C.REPO],)).encode())
    pr = subprocess.run([sys.executable, script, json.dumps(ids), cfg, prog], capture_output=True, text=True, timeout=300)
    res.case("registry-straight-after-import", True)
    try:
        out = json.loads(pr.stdout.strip().splitlines()[-1])
    except Exception:
        res.break_("registry-probe:subprocess-failed", pr.stderr[-400:])
        return
    if out["unknown_ids"] or out["unmapped_names"] or out["byname"] != out["byid"] or not out["byid"]:
        res.violation("straight after import (no scanner built yet) the registry does not know its published rules, or a legacy profile naming rules by name selects other tests than by id",
                      {"kind": "history", "in_a_fresh_interpreter": "extension_loader.MANAGER.check_id / get_test_id for every published rule, then BanditConfig(legacy profile) + scan",
                       "unknown_ids": out["unknown_ids"][:10], "names_not_mapping_to_their_id": out["unmapped_names"][:10], "findings_profile_by_name": out["byname"], "findings_profile_by_id": out["byid"]})


def check_urls_in_reports(res, tables, scratch):
    """Every finding of a report resolves to ITS check: the JSON `more_info` is the registered documentation URL of the finding's test id, and in SARIF the descriptor a
    finding points at (rules[ruleIndex]) has the finding's id, the check's name and that URL (seeded change C18-m16 sorted the SARIF rules by id after the indices
    had been assigned: every finding resolved to another check's descriptor and documentation page).  Programs whose first findings do NOT come in id order."""
    reg = {e["id"]: e for e in tables["plugins"] + tables["blacklist"]}
    progs = ["import pickle\nimport subprocess\nsubprocess.Popen(c, shell=True)\npickle.loads(b)\nexec(c)\nassert x\npassword = 'pw'\nimport telnetlib\n",
             "try:\n    f()\nexcept Exception:\n    pass\nimport hashlib\nhashlib.md5(d)\neval(e)\nimport os\nos.system(c)\nassert y\n",
             "import yaml\nyaml.load(s)\nimport xml.sax\nxml.sax.parse(s)\nimport random\nrandom.random()\nimport ftplib\n"]
    for k, src in enumerate(progs):
        pth = scratch.fresh("urls_%d.py" % k, src.encode())
        rj = C.run_cli(["-f", "json", "-q", pth])
        rs = C.run_cli(["-f", "sarif", "-q", pth])
        res.case("urls-in-reports:%d" % k, True)
        res.count("urls-in-reports")
        try:
            jr = json.loads(rj["out"])["results"]
            run_ = json.loads(rs["out"])["runs"][0]
            rules = run_["tool"]["driver"].get("rules", [])
            sr = run_["results"]
        except Exception as e:
            res.violation("no JSON / SARIF report for a plain program", {"kind": "program", "program": src, "error": str(e)[:200]})
            continue
        bad = []
        for x in jr:
            e = reg.get(x["test_id"])
            if e is None or x.get("more_info") != e["url"]:            # (test_name is the name of the check FUNCTION: `blacklist` for every blacklist rule — not compared)
                bad.append({"format": "json", "test_id": x["test_id"], "test_name": x.get("test_name"), "more_info": x.get("more_info"), "registered": e and {"name": e["name"], "url": e["url"]}})
        for x in sr:
            i = x.get("ruleIndex")
            d = rules[i] if isinstance(i, int) and 0 <= i < len(rules) else None
            e = reg.get(x.get("ruleId"))
            if d is None or e is None or d.get("id") != x.get("ruleId") or d.get("helpUri") != e["url"]:
                bad.append({"format": "sarif", "ruleId": x.get("ruleId"), "ruleIndex": i, "descriptor": d and {k_: d.get(k_) for k_ in ("id", "name", "helpUri")},
                            "registered": e and {"name": e["name"], "url": e["url"]}})
        if len(sr) != len(jr):
            bad.append({"format": "sarif", "findings": len(sr), "json_findings": len(jr)})
        if bad:
            res.violation("a finding in a report does not resolve to the id / name / documentation URL of its registered check", {"kind": "program", "program": src, "mismatches": bad[:6]})


def check_published_pairs(res, pub, scratch):
    """Two published rules triggered on ONE line: both are enforced (seeded change C18-m13 reported a check function once per line — and all blacklist rules
    run through one function)."""
    calls = [(p, q) for p in pub["rules"] if "Call" in p["kinds"] and "Import" not in p["kinds"] for q in p["qualnames"][:1]]
    imports = [(p, q) for p in pub["rules"] if "Import" in p["kinds"] for q in p["qualnames"][:1]]
    cases = []
    for i, (p, q) in enumerate(calls):
        p2, q2 = calls[(i + 7) % len(calls)]
        if p2["id"] == p["id"]:
            p2, q2 = calls[(i + 8) % len(calls)]
        cases.append(((p, p2), f"v = ({q}(x), {q2}(y))\n", 1))
        pi, qi = imports[i % len(imports)]
        cases.append(((p, pi), f"import {qi}; v = {q}(x)\n", 1))
    for i, (p, q) in enumerate(imports):
        p2, q2 = imports[(i + 3) % len(imports)]
        if p2["id"] != p["id"]:
            cases.append(((p, p2), f"import {q}; import {q2}\n", 1))
    out, errs = scan_batch(scratch, [c[1] for c in cases])
    for ((pa, pb), prog, line), o in zip(cases, out):
        got = {x["id"] for x in o["issues"] if x["line"] == line}
        res.case("published-pair:%s+%s" % (pa["id"], pb["id"]), True)
        res.count("published-pairs")
        missing = [p_["id"] for p_ in (pa, pb) if p_["id"] not in got]
        if missing:
            res.violation("a published rule is not enforced when its trigger shares a line with another rule's trigger",
                          {"kind": "program", "program": prog, "expect": {"ids": [pa["id"], pb["id"]], "line": line}, "not_reported": missing, "real_issues": o["issues"]})


def check_published_after_restricted_scan(res, pub, scratch):
    """In a FRESH interpreter: first a scan under a narrow selection, then every published rule's trigger under the default selection.  What the first scan
    built must not decide what the second enforces (seeded change C18-m9: a qualified-name index cached on the shared blacklist function by the first test set)."""
    import subprocess, sys
    lines, expect = [], []
    for p in pub["rules"]:
        if "Call" in p["kinds"] and "Import" not in p["kinds"]:
            for q in p["qualnames"]:
                lines.append(f"{q}(x)")
                expect.append((p["id"], len(lines)))
        elif "Import" in p["kinds"]:
            for q in p["qualnames"]:
                lines.append(f"__import__('{q}')")
                expect.append((p["id"], len(lines)))
    big = scratch.fresh("all_published.py", ("\n".join(lines) + "\n").encode())
    small = scratch.fresh("first.py", b"import pickle\npickle.loads(b)\nimport os\nos.system(c)\n")
    script = scratch.fresh("restricted_first.py", (
        "import sys, json\nsys.path[:0] = %r\nfrom bandit.core import config as b_config, manager as b_manager\n"
        "for first in json.loads(sys.argv[3]):\n"
        "    m = b_manager.BanditManager(b_config.BanditConfig(), 'file', profile={k: set(v) for k, v in first.items()})\n"
        "    m.discover_files([sys.argv[1]]); m.run_tests()\n"
        "m = b_manager.BanditManager(b_config.BanditConfig(), 'file')\nm.discover_files([sys.argv[2]]); m.run_tests()\n"
        "print(json.dumps(sorted([r.test_id, r.lineno] for r in m.results)))\n" % ([os.environ["PYTHONPATH"].split(os.pathsep)[0], C.REPO],)).encode())
    for label, firsts in (("include-B301", [{"include": ["B301"]}]), ("exclude-B001", [{"exclude": ["B001"]}]), ("include-plugins-only", [{"include": ["B101", "B602"]}]),
                          ("two-narrow-scans", [{"include": ["B403"]}, {"include": ["B605", "B307"]}])):
        pr = subprocess.run([sys.executable, script, small, big, json.dumps(firsts)], capture_output=True, text=True, timeout=300)
        res.case("published-after-restricted:" + label, True)
        res.count("published-after-restricted")
        try:
            got = {tuple(x) for x in json.loads(pr.stdout)}
        except ValueError:
            res.break_("published-after-restricted:subprocess-failed", pr.stderr[-400:])
            continue
        missing = [e for e in expect if e not in got]
        if missing:
            res.violation("published rules are no longer enforced by a default scan that follows a scan under a narrower selection in the same process",
                          {"kind": "history", "first_scans (profiles)": firsts, "first_file": "import pickle / pickle.loads(b) / import os / os.system(c)",
                           "then": "default-profile scan of one line per published (id, qualified name): `<qualname>(x)` / `__import__('<module>')`",
                           "not_reported (id, line)": missing[:20], "n_missing": len(missing), "n_expected": len(expect)})


# ---- (3c) naming by ID vs by name
def with_comment(prog, line, text):
    ls = prog.split("\n")
    ls[line - 1] = ls[line - 1] + "  " + text
    return "\n".join(ls)


def check_naming(res, tables, fired, scratch, drv, thorough):
    entries = [(p["id"], p["name"]) for p in tables["plugins"]] + [(b["id"], b["name"]) for b in tables["blacklist"]]
    entries = [e for e in entries if e[0] in fired]
    all_ids = [e[0] for e in entries]
    # ---------- nosec
    progs, meta = [], []
    for i, n in entries:
        prog, line, _ = fired[i]
        other = next(x for x in all_ids if x != i) if len(all_ids) > 1 else "B999"
        for how, tok in (("id", i), ("name", n), ("control", other)):
            progs.append(with_comment(prog, line, "# nosec " + tok))
            meta.append((i, n, how, tok, line))
    out, _ = scan_batch(scratch, progs)
    pred = None
    if drv:
        pred = drv.ask_many([{"op": "c18_resolve", "tables": tables, "tokens": [m[3]]} for m in meta])
        parsed = drv.ask_many([{"op": "nosec", "text": "# nosec " + m[3]} for m in meta])
    per = {}
    for k, ((i, n, how, tok, line), o) in enumerate(zip(meta, out)):
        still = any(x["id"] == i and x["line"] == line for x in o["issues"])
        per.setdefault(i, {})[how] = still
        if pred is not None and isinstance(pred[k], list) and pred[k]:
            want_withheld = pred[k][0]["resolve"] == i
            if want_withheld == still:
                res.break_("correspondence:nosec-resolve", json.dumps({"program": progs[k], "token": tok, "model_resolve": pred[k][0]["resolve"], "real_still_reported": still}))
            if isinstance(parsed[k], list) and (i in parsed[k]) == still:
                res.break_("correspondence:nosec-parse", json.dumps({"comment": "# nosec " + tok, "model_ids": parsed[k], "real_still_reported": still}))
        elif pred is not None:
            res.break_("driver-error:c18_resolve", json.dumps(pred[k])[:300])
    for i, n in entries:
        r = per[i]
        nontrivial = (not r["id"]) and r["control"]
        res.case(f"nosec:{i}", nontrivial, sample={"id": i, "name": n, "reported_with_nosec_id": r["id"], "reported_with_nosec_name": r["name"], "reported_with_other_id": r["control"]} if i == "B101" else None)
        res.count("naming:nosec")
        if r["id"] != r["name"] or r["id"]:
            prog, line, _ = fired[i]
            res.violation(f"# nosec by ID and by name behave differently (or do not suppress) for {i}/{n}",
                          {"kind": "naming", "mode": "nosec", "id": i, "name": n, "program": prog, "line": line,
                           "still_reported": {"by_id": r["id"], "by_name": r["name"]}})
    # ---------- a nosec naming ONE check leaves another finding of the same line alone, by ID and by name alike (seeded change C18-m6: a name the
    #            comment grammar could no longer read — `md5`, `jinja2_autoescape_false` — degraded into a blanket nosec, which still hides the named finding)
    import ast as _ast
    progs2, meta2 = [], []
    for i, n in entries:
        prog, line, _ = fired[i]
        ls = prog.split("\n")
        ctl_stmt, ctl_id = ("exec(q_ctl)", "B102") if i == "B101" else ("assert q_ctl", "B101")
        cand = list(ls)
        cand[line - 1] = ls[line - 1] + "; " + ctl_stmt
        try:
            _ast.parse("\n".join(cand))
        except SyntaxError:
            continue
        base = "\n".join(cand)
        for how, tok in (("id", i), ("name", n)):
            progs2.append(with_comment(base, line, "# nosec " + tok))
            meta2.append((i, n, how, ctl_id, line))
    out2, _ = scan_batch(scratch, progs2)
    per2 = {}
    for (i, n, how, ctl_id, line), o in zip(meta2, out2):
        per2.setdefault(i, {})[how] = (any(x["id"] == ctl_id and x["line"] == line for x in o["issues"]), any(x["id"] == i and x["line"] == line for x in o["issues"]))
    for i, n in entries:
        if i not in per2 or len(per2[i]) < 2:
            continue
        res.case(f"nosec-other:{i}", True)
        res.count("naming:nosec-leaves-others")
        (ctl_by_id, named_by_id), (ctl_by_name, named_by_name) = per2[i]["id"], per2[i]["name"]
        if not ctl_by_id or not ctl_by_name or named_by_id or named_by_name:
            res.violation(f"# nosec naming {i}/{n}: another finding on the same line is withheld too, or the named one is not (by ID vs by name)",
                          {"kind": "naming", "mode": "nosec-leaves-others", "id": i, "name": n, "other_finding_still_reported": {"by_id": ctl_by_id, "by_name": ctl_by_name},
                           "named_finding_still_reported": {"by_id": named_by_id, "by_name": named_by_name}})
    # ---------- legacy profile / -t / -s through the real CLI
    files = {}
    d = os.path.join(scratch.root, "naming")
    os.makedirs(d, exist_ok=True)
    for i, _ in entries:
        p = os.path.join(d, f"trig_{i}.py")
        with open(p, "w", encoding="utf-8") as f:
            f.write(fired[i][0])
        files[i] = p
    cfg = os.path.join(d, "profiles.yaml")
    with open(cfg, "w") as f:
        f.write("profiles:\n")
        for k, (i, n) in enumerate(entries):
            f.write(f"  inc_id_{k}:\n    include: [{json.dumps(i)}]\n  inc_name_{k}:\n    include: [{json.dumps(n)}]\n")
            f.write(f"  exc_id_{k}:\n    exclude: [{json.dumps(i)}]\n  exc_name_{k}:\n    exclude: [{json.dumps(n)}]\n")
    cli_diff = 0
    for k, (i, n) in enumerate(entries):
        ctl = all_ids[(k + 7) % len(all_ids)]
        if ctl == i:
            ctl = all_ids[(k + 1) % len(all_ids)]
        fl = [files[i], files[ctl]]
        full = None
        for mode in ("profile-include", "profile-exclude", "-t", "-s"):
            if mode == "profile-include":
                a_id, a_nm = ["-c", cfg, "-p", f"inc_id_{k}"], ["-c", cfg, "-p", f"inc_name_{k}"]
            elif mode == "profile-exclude":
                a_id, a_nm = ["-c", cfg, "-p", f"exc_id_{k}"], ["-c", cfg, "-p", f"exc_name_{k}"]
            else:
                a_id, a_nm = [mode, i], [mode, n]
            r_id, r_nm = cli_scan(a_id, fl), cli_scan(a_nm, fl)
            if full is None:
                full = cli_scan([], fl)
            include = mode in ("profile-include", "-t")
            has_i = any(x[1] == i for x in r_id["findings"])
            others = any(x[1] != i for x in r_id["findings"])
            full_others = any(x[1] != i for x in full["findings"])
            nontrivial = (has_i and (not others or not full_others)) if include else ((not has_i) and any(x[1] == i for x in full["findings"]))
            res.case(f"{mode}:{i}", nontrivial, sample={"mode": mode, "id": i, "name": n, "by_id": r_id, "by_name": r_nm} if (i == "B101") else None)
            res.count("naming:" + mode)
            if r_id["exc"] or r_nm["exc"]:
                res.violation(f"traceback when selecting {i}/{n} with {mode}", {"kind": "naming", "mode": mode, "id": i, "name": n, "programs": [fired[i][0], fired[ctl][0]], "by_id": r_id, "by_name": r_nm})
                continue
            # the ID-named run must do what it says
            if include and not has_i or (not include and has_i):
                res.violation(f"{mode} {i} does not {'select' if include else 'skip'} {i}",
                              {"kind": "naming", "mode": mode, "id": i, "name": n, "programs": [fired[i][0], fired[ctl][0]], "by_id": r_id, "full": full})
            if r_id == r_nm:
                continue
            rep = {"kind": "naming", "mode": mode, "id": i, "name": n, "programs": [fired[i][0], fired[ctl][0]], "by_id": r_id, "by_name": r_nm}
            if mode in ("-t", "-s") and model_explains_cli(drv, tables, mode, i, n, r_id, r_nm, full):
                cli_diff += 1
                res.known_finding(F_CLI)
            else:
                res.violation(f"{mode}: naming {i} by its name {n!r} behaves differently from naming it by ID", rep)
    res.extra["cli_by_name_differs"] = cli_diff
    if thorough:
        check_naming_thorough(res, tables, entries, fired, files, scratch, drv)


def model_explains_cli(drv, tables, mode, i, n, r_id, r_nm, full):
    """the Lean model of `_get_filter` (no name resolution) predicts both real outcomes exactly"""
    if not drv:
        return False
    reg = {e["id"] for e in tables["plugins"] + tables["blacklist"]}

    def predict(tok):
        inc, exc = ([tok], []) if mode == "-t" else ([], [tok])
        a = drv.ask({"op": "c18_filter", "tables": tables, "inc": inc, "exc": exc})
        if "error" in a:
            return None
        sel = set(a["filter"])
        if not (sel & reg):
            return {"exit": 2, "findings": []}       # "No tests would be run"
        fs = [x for x in full["findings"] if x[1] in sel]
        return {"exit": 1 if fs else 0, "findings": fs}
    p_id, p_nm = predict(i), predict(n)
    ok = p_id is not None and p_nm is not None and \
        (p_id["exit"], p_id["findings"]) == (r_id["exit"], r_id["findings"]) and (p_nm["exit"], p_nm["findings"]) == (r_nm["exit"], r_nm["findings"])
    return ok


def check_naming_thorough(res, tables, entries, fired, files, scratch, drv):
    """config-file `tests:` / `skips:` (same code path as -t/-s) and mixed token lists"""
    d = os.path.join(scratch.root, "naming")
    for k, (i, n) in enumerate(entries):
        for key in ("tests", "skips"):
            outs = []
            for tok in (i, n):
                cfg = os.path.join(d, f"sel_{k}_{key}.yaml")
                with open(cfg, "w") as f:
                    f.write(f"{key}: [{json.dumps(tok)}]\n")
                outs.append(cli_scan(["-c", cfg], [files[i]]))
            res.case(f"config-{key}:{i}", True)
            res.count("naming:config-" + key)
            if outs[0] != outs[1]:
                mode = "-t" if key == "tests" else "-s"
                full = cli_scan([], [files[i]])
                if model_explains_cli(drv, tables, mode, i, n, outs[0], outs[1], full):
                    res.known_finding(F_CLI)
                else:
                    res.violation(f"config {key}: naming {i} by name behaves differently from naming it by ID",
                                  {"kind": "naming", "mode": "config-" + key, "id": i, "name": n, "programs": [fired[i][0]], "by_id": outs[0], "by_name": outs[1]})
    # two names in one nosec comment, space separated (the form C02 says works)
    progs, meta = [], []
    for k, (i, n) in enumerate(entries):
        j, m = entries[(k + 3) % len(entries)]
        prog, line, _ = fired[i]
        for how, text in (("ids", f"# nosec {j} {i}"), ("names", f"# nosec {m} {n}")):
            progs.append(with_comment(prog, line, text))
            meta.append((i, how, line))
    out, _ = scan_batch(scratch, progs)
    per = {}
    for (i, how, line), o in zip(meta, out):
        per.setdefault(i, {})[how] = any(x["id"] == i and x["line"] == line for x in o["issues"])
    for i, r in per.items():
        res.case(f"nosec-pair:{i}", not r["ids"])
        res.count("naming:nosec-pair")
        if r["ids"] != r["names"]:
            res.violation(f"# nosec with two tokens: IDs and names behave differently for {i}", {"kind": "naming", "mode": "nosec-pair", "id": i, "program": fired[i][0], "still_reported": r})


# ---- (4) get_url and the shared registry
def check_get_url(res, tables, mgr, docs_utils, drv, snap):
    broken, shown = [], {}
    try:
        for b in tables["blacklist"]:
            i = b["id"]
            R.restore_names(mgr, snap)
            before = mgr.blacklist_by_id[i]["name"]
            url = docs_utils.get_url(i)
            after = mgr.blacklist_by_id[i]["name"]
            back = mgr.get_test_id(after)
            orig_still = mgr.get_test_id(before)
            res.case("get_url-state:" + i, before != after or "_" not in before)
            res.count("get_url-state")
            if url != b["url"]:
                res.break_("correspondence:get_url-repeat", json.dumps({"id": i, "first": b["url"], "again": url}))
            if back != i:
                broken.append(i)
                shown[i] = after
            if orig_still != i:
                res.violation("after get_url the original name no longer looks up its ID", {"kind": "geturl", "id": i, "name": before, "get_test_id": orig_still})
    finally:
        R.restore_names(mgr, snap)
    res.extra["get_url_breaks_roundtrip_for"] = broken
    if not broken:
        return
    model_ok = False
    if drv:
        fails = []
        for i in broken:
            a = drv.ask({"op": "c18_geturl_state", "tables": tables, "ids": [i]})
            if "error" in a:
                res.break_("driver-error:c18_geturl_state", a["error"])
                break
            names = dict(a["names"])
            if a["roundtrip_failures"] == [i] and names.get(i) == shown[i] and a["roundtrips_fixed"]:
                fails.append(i)
        model_ok = fails == broken
        # and the model must not predict breakage where the implementation shows none
        for b in tables["blacklist"]:
            if b["id"] not in broken:
                a = drv.ask({"op": "c18_geturl_state", "tables": tables, "ids": [b["id"]]})
                if "error" not in a and a["roundtrip_failures"]:
                    res.break_("correspondence:get_url-state", json.dumps({"id": b["id"], "model": a["roundtrip_failures"], "real": []}))
    rep = {"kind": "geturl", "ids": broken, "shown_names_after_get_url": shown,
           "what": "docs_utils.get_url(id) rewrites blacklist_by_id[id]['name'] ('_' -> '-'); get_test_id(shown name) is None"}
    if model_ok:
        for _ in broken:
            res.known_finding(F_URL)
    else:
        res.violation("get_url rewrites the registry so that id -> name -> id no longer round-trips", rep)


# ----------------------------------------------------------------------------- replay
def replay_one(res, rp, mgr, tables, pub, scratch, drv):
    r = rp.get("replay", rp)
    kind = r.get("kind")
    res.rule = "replay of one stored input"
    if kind == "table":
        pv, off = py_spec(tables, pub, mgr)
        k = r["clause"]
        bad = (pv.get(k) is False) or (isinstance(pv.get(k), list) and any(o in pv[k] for o in r.get("offenders") or []))
        if k in ("doc_page_missing",) and set(r.get("offenders") or []) <= KNOWN_DEAD_DOC_URL and bad:
            res.known_finding(F_DOC)
            bad = False
        res.case("replay:table:" + k, True, sample={"clause": k, "now": pv.get(k), "offenders_now": off.get(k)})
        if bad:
            res.violation(f"registry clause {k} fails", {"kind": "table", "clause": k, "offenders": off.get(k, pv.get(k))})
    elif kind == "program":
        out, _ = scan_batch(scratch, [r["program"]])
        e = r.get("expect")
        issues = out[0]["issues"]
        res.case("replay:program", True, sample={"program": r["program"], "issues": issues})
        if isinstance(e, dict):
            ok = any(x["id"] == e["id"] and x["line"] == e["line"] and RANK_ORDER.get(x["sev"], -1) >= RANK_ORDER[e["min_severity"]] and x["conf"] == e["confidence"] for x in issues)
            if not ok:
                res.violation("published rule not enforced", dict(r, real_issues=issues))
        elif e == "ranks":
            if any(x["sev"] not in tables["ranking"] or x["conf"] not in tables["ranking"] for x in issues):
                res.violation("invalid rank", dict(r, real_issues=issues))
        elif e == "cwe":
            if any(not x["cwe"] for x in issues):
                res.violation("no CWE", dict(r, real_issues=issues))
    elif kind == "naming":
        i, n, mode = r["id"], r["name"] if "name" in r else None, r["mode"]
        if mode == "nosec":
            progs = [with_comment(r["program"], r["line"], "# nosec " + t) for t in (i, n)]
            out, _ = scan_batch(scratch, progs)
            st = [any(x["id"] == i and x["line"] == r["line"] for x in o["issues"]) for o in out]
            res.case("replay:nosec", True, sample={"programs": progs, "still_reported": st})
            if st[0] != st[1] or st[0]:
                res.violation("nosec by ID vs by name", dict(r, still_reported_now=st))
        else:
            d = os.path.join(scratch.root, "rp")
            os.makedirs(d, exist_ok=True)
            fl = []
            for k, src in enumerate(r.get("programs", [])):
                p = os.path.join(d, f"p{k}.py")
                open(p, "w", encoding="utf-8").write(src)
                fl.append(p)
            outs = []
            for tok in (i, n):
                if mode in ("-t", "-s"):
                    outs.append(cli_scan([mode, tok], fl))
                else:
                    key = {"profile-include": "include", "profile-exclude": "exclude", "config-tests": "tests", "config-skips": "skips"}[mode]
                    cfg = os.path.join(d, "c.yaml")
                    with open(cfg, "w") as f:
                        f.write(f"profiles:\n  p:\n    {key}: [{json.dumps(tok)}]\n" if mode.startswith("profile") else f"{key}: [{json.dumps(tok)}]\n")
                    outs.append(cli_scan(["-c", cfg] + (["-p", "p"] if mode.startswith("profile") else []), fl))
            res.case("replay:" + mode, True, sample={"by_id": outs[0], "by_name": outs[1]})
            if outs[0] != outs[1]:
                full = cli_scan([], fl)
                m = "-t" if mode in ("-t", "config-tests") else "-s" if mode in ("-s", "config-skips") else None
                if m and model_explains_cli(drv, tables, m, i, n, outs[0], outs[1], full):
                    res.known_finding(F_CLI)
                else:
                    res.violation(f"{mode}: by name differs from by ID", dict(r, by_id_now=outs[0], by_name_now=outs[1]))
    elif kind == "geturl":
        from bandit.core import docs_utils
        check_get_url(res, tables, mgr, docs_utils, drv, R.snapshot_names(type(mgr)()))
    else:
        res.notes.append("replay file of unknown kind: " + str(kind))
