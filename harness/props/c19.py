"""C19 — findings do not depend on how the source text reaches bandit (file/stdin, LF/CRLF, BOM, legacy encodings)."""
import codecs, json, os
import common as C
import progs

LEVEL = "proof"

BIDI = ["‪", "‫", "‬", "‭", "‮", "⁦", "⁧", "⁨", "⁩", "‏"]

ENCODINGS = [  # (label, cookie line or None, python codec)
    ("utf-8", None, "utf-8"),
    ("utf-8-cookie", "# -*- coding: utf-8 -*-", "utf-8"),
    ("latin-1", "# -*- coding: latin-1 -*-", "latin-1"),
    ("cp1252", "# -*- coding: cp1252 -*-", "cp1252"),
]


def findings_of_json(out):
    data = json.loads(out)
    return sorted((r["test_id"], r["issue_severity"], r["issue_confidence"], r["line_number"], tuple(r["line_range"]), r["col_offset"], r["issue_text"]) for r in data["results"]), data["errors"]


def scan_file(scratch, data: bytes):
    p = scratch.fresh("prog.py", data)
    # the file channel is a module of a package (an `__init__.py` beside it and one above): where a file lives is not part of the program (seeded change C19-m15
    # resolved relative imports against the package found on disk — for a file, never for standard input)
    open(os.path.join(os.path.dirname(p), "__init__.py"), "w").close()
    try:
        open(os.path.join(os.path.dirname(os.path.dirname(p)), "__init__.py"), "w").close()
    except OSError:
        pass
    r = C.run_cli(["-f", "json", "-q", p])
    return r


def scan_stdin(data: bytes):
    return C.run_cli(["-f", "json", "-q", "-"], stdin_bytes=data)


def variants(text: str):
    """every channel encoding of ONE program text whose first line is reserved for the cookie (so line numbers agree)"""
    out = []
    for label, cookie, codec in ENCODINGS:
        first = cookie if cookie else "# no cookie on this line"
        body = first + "\n" + text
        try:
            raw = body.encode(codec)
        except UnicodeEncodeError:
            continue
        for nl_label, nl in (("LF", "\n"), ("CRLF", "\r\n")):
            rawn = raw.replace(b"\n", nl.encode())
            boms = [("nobom", b"")]
            if codec == "utf-8":
                boms.append(("bom", codecs.BOM_UTF8))
            for bom_label, bom in boms:
                if bom and cookie and "utf-8" not in cookie:
                    continue
                out.append((f"{label}/{nl_label}/{bom_label}", bom + rawn))
    return out


def run(res, ctx):
    rng = C.rng_for(res.seed, "C19")
    thorough = res.tier == "thorough"
    res.rule = ("seeded programs (trigger statements, some with non-ASCII string literals representable in latin-1/cp1252) x {file, stdin} x {LF, CRLF} x {BOM, none} x "
                "{utf-8, utf-8+cookie, latin-1 cookie, cp1252 cookie}: findings and locations must agree across all channels of one program; every bidi control character at "
                "comment / string / identifier-adjacent / first-line / last-line positions x {file, stdin} x {LF, CRLF} must be reported as B613 at the right line/column (Lean model "
                "scanBidi compared); files whose declared encoding cannot decode them must be skipped with a reason; non-trivial = distinct (program, channel)")
    scratch = C.Scratch()
    d = C.Driver() if ctx["driver_ok"] else None
    try:
        # ---- (1) channel agreement
        n_prog = 10 if thorough else 4
        for pi in range(n_prog):
            src, _ = progs.make_program(rng, k=rng.randint(3, 6))
            src += "name = 'café ü'\nlabel = 'résumé'  # accenté\n"
            # non-ASCII text BEFORE a flagged node on the same line (columns), inside a literal quoted in the issue text, and characters whose UTF-8
            # bytes a legacy codec cannot decode (seeded change C19-m2: stdin source transcoded to UTF-8 while the cookie stayed)
            src += rng.choice(["import os\nt = ('é', 'ü'); os.system(cmd + 'ß')\n", "import subprocess\nd = {'clé': subprocess.Popen('ls Á', shell=True)}\n",
                               "import pickle\nr = ['Í', pickle.loads(blob), 'Ý']\n"])
            src += rng.choice(["password = 'sécret'\n", "token = 'ÁÍÝ'\n", "def f(password='Ïð'): pass\n", "cfg['secret'] = 'niño'\n"])
            src += "é_var = eval('1')  # Ð\n"
            src += rng.choice(["from .pickle import loads as rel_loads\nrel_loads(blob)\n", "from .subprocess import Popen as RelPopen\nRelPopen(cmd, shell=True)\n",
                               "from ..xml.sax import parse as rel_parse\nrel_parse(src_)\n", "from . import marshal\nmarshal.loads(blob)\n"])
            ref = None
            for label, raw in variants(src):
                for chan in ("file", "stdin"):
                    r = scan_file(scratch, raw) if chan == "file" else scan_stdin(raw)
                    key = (pi, label, chan)
                    res.case(key, True, sample={"channel": chan, "variant": label, "bytes_head": raw[:60].decode("latin-1"), "exit": r["exit"]} if (pi == 0 and label.endswith("CRLF/nobom") and chan == "stdin") else None)
                    res.count("channel:" + chan)
                    res.count("variant:" + label)
                    if r["exc"] is not None or r["exit"] not in (0, 1):
                        res.violation("scan through this channel failed", {"channel": chan, "variant": label, "source_hex": raw.hex(), "exit": r["exit"], "exc": r["exc"], "err": r["err"][-300:]})
                        continue
                    try:
                        fs, errs = findings_of_json(r["out"])
                    except Exception as e:
                        res.violation("no JSON report through this channel", {"channel": chan, "variant": label, "source_hex": raw.hex(), "out": r["out"][:300]})
                        continue
                    if errs:
                        res.violation("file skipped through this channel", {"channel": chan, "variant": label, "source_hex": raw.hex(), "errors": errs})
                        continue
                    # the excerpt of every finding shows the same source lines through file and stdin (stdin excerpts are cut from the buffered bytes:
                    # found by tools/mutation — dropping the line-skipping readline() in Issue.get_code survived every check).  Compared within one
                    # UTF-8 variant only: a legacy-encoded excerpt from stdin is decoded as UTF-8 with replacement characters by design.
                    if label.startswith("utf-8"):
                        try:
                            codes = sorted((x["test_id"], x["line_number"], x["code"].replace("\r\n", "\n").replace("\ufeff", "")) for x in json.loads(r["out"])["results"])   # line terminators and a BOM are not compared
                        except Exception:
                            codes = None
                        key2 = (pi, label)
                        seen_codes = ctx.setdefault("_codes", {})
                        if key2 in seen_codes and codes is not None and seen_codes[key2][0] != codes:
                            res.violation("the code excerpts of the same program differ between file and stdin",
                                          {"program": src, "variant": label, "a": {"channel": seen_codes[key2][1], "excerpts": seen_codes[key2][0][:4]},
                                           "b": {"channel": chan, "excerpts": codes[:4]}})
                        seen_codes.setdefault(key2, (codes, chan))
                    if ref is None:
                        ref = (fs, label, chan)
                    elif fs != ref[0]:
                        res.violation("findings differ between two channels of the same program",
                                      {"program": src, "a": {"channel": ref[2], "variant": ref[1], "findings": [list(x) for x in ref[0]]},
                                       "b": {"channel": chan, "variant": label, "findings": [list(x) for x in fs], "source_hex": raw.hex()}})
        # ---- (1a) characters str.splitlines() breaks at but Python source does not (form feed, VT, FS/GS/RS, NEL, U+2028/9), before and between findings: findings AND
        #      excerpts agree between file and stdin (seeded change C19-m12 cut stdin excerpts with splitlines: every excerpt below a form feed was shifted)
        specials = ["import subprocess\n\x0c\ndef run(cmd):\n    return subprocess.call(cmd, shell=True)\n\x0c\nimport pickle\nassert run\n",
                    "import os\ns = 'a\u2028b\u2029c'\nos.system(s)\nt = 'x\x0by\x1cz'  # \x85 note\nimport pickle\npickle.loads(t)\n",
                    "# page\x0cbreak inside a comment\nimport telnetlib\n\n\n\nexec(code)\n"]
        for sp_src in specials:
            for n_ in ("1", "3", "5"):
                outs = {}
                for chan in ("file", "stdin"):
                    if chan == "file":
                        r = C.run_cli(["-f", "json", "-q", "-n", n_, scratch.fresh("prog.py", sp_src.encode("utf-8"))])
                    else:
                        r = C.run_cli(["-f", "json", "-q", "-n", n_, "-"], stdin_bytes=sp_src.encode("utf-8"))
                    try:
                        outs[chan] = sorted((x["test_id"], x["line_number"], x["col_offset"], x["code"]) for x in json.loads(r["out"])["results"])
                    except Exception:
                        outs[chan] = None
                res.case(("separators", sp_src, n_), True)
                res.count("separator-programs")
                if outs["file"] is None or outs["stdin"] is None or outs["file"] != outs["stdin"]:
                    res.violation("findings or code excerpts differ between file and stdin for a program containing form feed / U+2028-class characters",
                                  {"program": sp_src, "context_lines": n_, "file": outs["file"], "stdin": outs["stdin"]})
        # ---- (1b) size: a program larger than a pipe buffer (64 KiB on Linux), with findings in its first and in its LAST lines, piped on stdin (a real pipe
        #      with a writer that delivers it in pieces) and scanned from a file (seeded change C19-m7 capped the unbuffered stdin read: one read(2) returned
        #      what the pipe held, the rest of the program was never scanned)
        for size_label, nrows in (("200KiB", 6500), ("70KiB", 2300)) if not thorough else (("1MiB", 34000), ("200KiB", 6500), ("70KiB", 2300), ("64KiB+1", 2130)):
            big = "import pickle\nTABLE = [\n" + "".join("    (%5d, 'row-%05d', %d.5),\n" % (i, i, i) for i in range(nrows)) + "]\nimport subprocess\nsubprocess.Popen(cmd, shell=True)\nassert TABLE\n"
            outs = {}
            for chan in ("file", "stdin"):
                r = scan_file(scratch, big.encode()) if chan == "file" else scan_stdin(big.encode())
                res.case(("big", size_label, chan), True)
                res.count("big-program:" + chan)
                try:
                    fs, errs = findings_of_json(r["out"])
                    outs[chan] = (fs, errs)
                except Exception:
                    res.violation("no JSON report for a large program through this channel", {"channel": chan, "size": len(big), "exit": r["exit"], "exc": r["exc"], "err": r["err"][-300:]})
            if len(outs) == 2 and ([f[:6] for f in outs["file"][0]] != [f[:6] for f in outs["stdin"][0]] or bool(outs["file"][1]) != bool(outs["stdin"][1])):
                res.violation("findings of a large program differ between file and stdin",
                              {"program": "import pickle / TABLE = [ %d rows ] / import subprocess / subprocess.Popen(cmd, shell=True) / assert TABLE  (%d bytes)" % (nrows, len(big)),
                               "file": {"findings": [list(x[:4]) for x in outs["file"][0]], "errors": outs["file"][1]},
                               "stdin": {"findings": [list(x[:4]) for x in outs["stdin"][0]], "errors": outs["stdin"][1]}})
        # ---- (2) bidi characters everywhere
        positions = [("comment", "x = 1  # note {c}hidden\ny = 2\n", 1), ("string", "x = 1\ns = 'ab{c}cd'\n", 2), ("identifier-adjacent", "x = 1\nvalue = call({c!s}) if False else 0\n".replace("{c!s}", "'{c}'"), 2),
                     ("first-line", "# {c}\nx = 1\n", 1), ("last-line-no-newline", "x = 1\n# end {c}", 2), ("docstring", '"""doc {c} text"""\nx = 1\n', 1),
                     ("two-chars-one-line", "x = 1  # ⁩ then {c}\n", 1),
                     # the character is the FIRST character of a physical line (only possible on a continuation line of a multi-line string): column 1 is a column
                     # (seeded change C19-m14 tested `position > 0` after switching from index() to find())
                     ("line-start-in-multiline-string", 's = """first\n{c}second\n"""\nx = 1\n', 2), ("line-start-then-more", "t = \'\'\'a\n{c}b {c}c\n\'\'\'\n", 2),
                     # characters str.splitlines() treats as line ends but Python's parser does not (seeded change C10-m2)
                     ("after-formfeed-line", "x = 1\n\x0c\ny = 2  # {c}\n", 3), ("after-u2028-in-string", "s = 'a\u2028b'\ny = 2  # {c}\n", 2),
                     ("after-vt-fs-nel-u2029", "s = 'a\x0bb\x1cc\x85d\u2029e\x1d\x1e'\n# {c}\n", 2), ("formfeed-same-line", "\x0cx = 1  # {c}\n", 1),
                     # a module without a single statement (licence header, empty __init__): still scanned (seeded change C19-m5 returned early on zero lines of code)
                     # a nosec comment on the FIRST line is a comment on line 1, not on the file: the character further down is still reported (seeded change C19-m18
                     # gave whole-file checks the context of line 1; through a channel that puts a cookie line in front the same program kept its finding)
                     ("nosec-first-line-bidi-later", "x = 0  # nosec\ny = 1\ns = 'ab{c}cd'\n", 3), ("nosec-b613-first-line", "import os  # nosec B613\n\n# {c}\n", 3),
                     ("comment-only-module", "# licence {c} header\n# more text\n", 1), ("comment-only-no-newline", "#{c}", 1), ("blank-then-comment", "\n\n   # {c}\n", 3)]
        chars = BIDI if thorough else rng.sample(BIDI, 4)
        reqs, expect = [], []
        cols = {}
        for ch in chars:
            for pname, tmpl, line in positions:
                text = tmpl.replace("{c}", ch)
                for nl, bom in (("\n", b""), ("\r\n", b""), ("\n", codecs.BOM_UTF8), ("\r\n", codecs.BOM_UTF8)):
                    raw = bom + text.replace("\n", nl).encode("utf-8")
                    # expected per the property: B613 reported (HIGH/MEDIUM) on the first line containing a bidi char, at the SAME column through every channel
                    # (a BOM is not a character of line 1: seeded change C19-m6 shifted the column by one in BOM files)
                    for chan in ("file", "stdin"):
                        r = scan_file(scratch, raw) if chan == "file" else scan_stdin(raw)
                        res.case(("bidi", ch, pname, nl, bool(bom), chan), True)
                        res.count("bidi:" + pname)
                        ok = False
                        try:
                            fs, errs = findings_of_json(r["out"])
                            b = [f for f in fs if f[0] == "B613"]
                            ok = len(b) == 1 and b[0][1] == "HIGH" and b[0][2] == "MEDIUM" and b[0][3] == line and not errs
                            if ok:
                                col0 = cols.setdefault((ch, pname), b[0][5])
                                ok = b[0][5] == col0
                        except Exception:
                            fs = None
                        if not ok:
                            res.violation("bidirectional control character not reported as B613 on its line through this channel",
                                          {"char": "U+%04X" % ord(ch), "position": pname, "newline": repr(nl), "bom": bool(bom), "channel": chan, "source_hex": raw.hex(),
                                           "column_through_the_first_channel": cols.get((ch, pname)),
                                           "findings": [list(x) for x in fs] if fs else None, "exit": r["exit"], "exc": r["exc"]})
                    if d is not None:
                        reqs.append(C.scan_request(raw))
                        expect.append(raw)
        # bytes the encoding cannot decode, in a COMMENT (the parser accepts them there, so the file is scanned): the bidi character elsewhere in the file is still
        # reported, on its line, through file and stdin (found on the unchanged tree: B613 re-decoded the text strictly and died in UnicodeDecodeError; repaired by 057b012)
        for ch in chars[:2]:
            for raw, line in ((b"import pickle\n# caf\xe9 latin-1 bytes in a utf-8 file\ns = '" + ch.encode("utf-8") + b"'\n", 3), (b"x = 1  # \xff\xfe\n# " + ch.encode("utf-8") + b"\n", 2),
                              (b"# " + ch.encode("utf-8") + b" first\ny = 2  # \xc0\x80 overlong\n", 1)):
                for chan in ("file", "stdin"):
                    r = scan_file(scratch, raw) if chan == "file" else scan_stdin(raw)
                    res.case(("bidi-undecodable-comment", ch, line, chan), True)
                    res.count("bidi:undecodable-comment")
                    ok, fs = False, None
                    try:
                        fs, errs = findings_of_json(r["out"])
                        b = [f for f in fs if f[0] == "B613"]
                        ok = (len(b) == 1 and b[0][3] == line) or bool(errs)      # reported on its line — or the file is skipped with a reason
                    except Exception:
                        pass
                    if not ok or r["exc"] is not None:
                        res.violation("a bidirectional control character in a file with undecodable bytes in a comment is neither reported as B613 nor is the file skipped with a reason",
                                      {"channel": chan, "source_hex": raw.hex(), "char": "U+%04X" % ord(ch), "findings": [list(x) for x in fs] if fs else None, "exit": r["exit"], "exc": r["exc"]})
                if d is not None:
                    try:
                        rq = C.scan_request(raw)
                    except (SyntaxError, ValueError):
                        rq = None            # tokenize refuses the first lines: bandit skips such a file, there is nothing for the model to scan
                    if rq is not None:
                        reqs.append(rq)
                        expect.append(raw)
        # the same characters arriving in a declared legacy encoding that can express them (seeded change C19-m3 pre-filtered on the UTF-8 lead bytes)
        for codec, ch in (("cp1255", "\u200f"), ("iso-8859-8", "\u200f"), ("gb18030", "\u202e"), ("gb18030", "\u2066"), ("utf-8", "\u202e")):
            for tmpl, line in (("# -*- coding: {codec} -*-\nx = 1\ns = 'ab{c}cd'  # note\n", 3), ("# -*- coding: {codec} -*-\nimport os  # {c}\nos.system(cmd)\n", 2)):
                text = tmpl.replace("{codec}", codec).replace("{c}", ch)
                for nl in ("\n", "\r\n"):
                    raw = text.replace("\n", nl).encode(codec)
                    for chan in ("file", "stdin"):
                        r = scan_file(scratch, raw) if chan == "file" else scan_stdin(raw)
                        res.case(("bidi-legacy", codec, ch, line, nl, chan), True)
                        res.count("bidi-legacy:" + codec)
                        ok = False
                        fs = None
                        try:
                            fs, errs = findings_of_json(r["out"])
                            b = [f for f in fs if f[0] == "B613"]
                            ok = len(b) == 1 and b[0][3] == line and not errs
                        except Exception:
                            pass
                        if not ok:
                            res.violation("bidirectional control character not reported as B613 on its line when the text arrives in a declared legacy encoding",
                                          {"codec": codec, "char": "U+%04X" % ord(ch), "newline": repr(nl), "channel": chan, "source_hex": raw.hex(),
                                           "findings": [list(x) for x in fs] if fs else None, "exit": r["exit"], "exc": r["exc"]})
                    if d is not None:
                        reqs.append(C.scan_request(raw))
                        expect.append(raw)
        # ---- (2b) the line split itself (Bandit/Lines.lean `uniLines`, theorems Props.C19.lines_*): the driver's lines of a decoded text against the lines a
        #      text-mode file yields for it, over texts that mix \n, \r\n, lone \r (also doubled, at the very start / end) with the characters str.splitlines()
        #      breaks at and Python source does not; and whole scans of comment-only programs with mixed line ends and a bidi character on a random line
        if d is not None:
            import io as _io
            alpha = ["a", "b ", "#", "\n", "\n", "\r\n", "\r\n", "\r", "\r", "\x0c", "\x0b", "\x1c", "\x1d", "\x1e", "\x85", "\u2028", "\u2029", "\u202e", "\u2066", "é", "\ufeff", "\t"]
            texts = ["", "\n", "\r", "\r\n", "\r\r\n", "\n\r", "a\r", "a\r\nb\rc\nd", "\r\n\r\n", "a\n\n\nb", "x\x0cy\u2028z\n"]
            for _ in range(400 if thorough else 120):
                texts.append("".join(rng.choice(alpha) for _ in range(rng.randint(1, 14))))
            outs = d.ask_many([{"op": "unilines", "text": t} for t in texts])
            for t, m in zip(texts, outs):
                want = _io.TextIOWrapper(_io.BytesIO(t.encode("utf-8")), encoding="utf-8").readlines()
                res.case(("unilines", t), True)
                res.count("unilines-texts")
                if isinstance(m, dict) and "error" in m:
                    res.break_("driver-error", m["error"])
                elif m != want:
                    res.break_("correspondence", {"what": "lines of a decoded text: model uniLines vs io.TextIOWrapper(newline=None).readlines()", "text": t, "model": m, "python": want})
            for k in range(60 if thorough else 20):
                nlines = rng.randint(1, 7)
                hit = rng.randrange(nlines)
                ch = rng.choice(BIDI)
                parts = []
                for i in range(nlines):
                    body = rng.choice(["# note", "#", "# a\x0cb", "# \u2028 x", ""]) if i != hit else rng.choice(["# x %s y" % ch, "#%s" % ch, "# \x0c%s" % ch])
                    parts.append(body + rng.choice(["\n", "\r\n", "\r", "\n"]))
                text = "".join(parts)
                if rng.random() < 0.3:
                    text = text.rstrip("\r\n")
                raw = (codecs.BOM_UTF8 if rng.random() < 0.25 else b"") + text.encode("utf-8")
                res.case(("mixed-line-ends", raw), True)
                res.count("mixed-line-end-programs")
                reqs.append(C.scan_request(raw))
                expect.append(raw)
        if d is not None and reqs:
            model = d.ask_many(reqs)
            real = C.batch_real_scan(scratch, expect)
            for raw, m, rl in zip(expect, model, real):
                if "error" in m:
                    res.break_("driver-error", m["error"])
                    continue
                diff = C.compare_scan(rl, m, C.blacklist_ids())
                if diff:
                    res.break_("correspondence", {"source_hex": raw.hex(), "diff": diff})
        # ---- (3) undecodable under the declared encoding => skipped with a reason
        bad = [b"# -*- coding: ascii -*-\nx = '\xe9'\n", b"# coding: utf-8\nx = '\xff\xfe'\n", b"\xef\xbb\xbf# coding: latin-1\nx = 1\n", b"# coding: no-such-codec\nx = 1\n",
               b"# -*- coding: ascii -*-\n# only a comment \xe9\n"]
        healthy = b"import pickle\n"
        for raw in bad:
            p1 = scratch.fresh("bad.py", raw)
            p2 = scratch.fresh("good.py", healthy)
            r = C.run_cli(["-f", "json", "-q", p1, p2])
            res.case(("undecodable", raw), True)
            try:
                data = json.loads(r["out"])
                skipped = [e for e in data["errors"] if e["filename"].endswith("bad.py")]
                good = [x for x in data["results"] if x["filename"].endswith("good.py")]
                if r["exc"] is not None or len(skipped) != 1 or not skipped[0].get("reason") or len(good) != 1:
                    res.violation("a file its declared encoding cannot decode is not skipped with a reason (or disturbs other files)",
                                  {"source_hex": raw.hex(), "errors": data["errors"], "exit": r["exit"], "exc": r["exc"]})
            except Exception:
                res.violation("no report for a run containing an undecodable file", {"source_hex": raw.hex(), "exit": r["exit"], "exc": r["exc"], "out": r["out"][:200]})
            # the same bytes piped on stdin (alone, and next to a healthy file): skipped with a reason through that channel too, the healthy file still
            # scanned (seeded change C19-m9: the stdin entry was renamed after the loop, the skip branch then raised ValueError and no report was written)
            for extra_targets in ([], [p2]):
                r = C.run_cli(["-f", "json", "-q", "-"] + extra_targets, stdin_bytes=raw)
                res.case(("undecodable-stdin", raw, len(extra_targets)), True)
                res.count("undecodable:stdin")
                try:
                    data = json.loads(r["out"])
                    skipped = [e for e in data["errors"] if e["filename"] in ("<stdin>", "-")]
                    good = [x for x in data["results"] if x["filename"].endswith("good.py")]
                    if r["exc"] is not None or len(skipped) != 1 or not skipped[0].get("reason") or len(good) != len(extra_targets):
                        res.violation("source piped on stdin that its declared encoding cannot decode is not skipped with a reason (or disturbs other files)",
                                      {"channel": "stdin", "source_hex": raw.hex(), "other_targets": len(extra_targets), "errors": data["errors"], "exit": r["exit"], "exc": r["exc"]})
                except Exception:
                    res.violation("no report for a run whose stdin source cannot be decoded", {"channel": "stdin", "source_hex": raw.hex(), "other_targets": len(extra_targets),
                                                                                              "exit": r["exit"], "exc": r["exc"], "exc_msg": r.get("exc_msg"), "out": r["out"][:200]})
        # ---- (4) one path, several versions, one process: the file channel must see the text that is in the file NOW, like the stdin channel does (seeded change
        #      C19-m10: B613 read the source through linecache, which still held the previous version of the path)
        vpath = scratch.fresh("versions.py", b"")
        vers = ["x = 1\ny = 2\n", "x = 1  # \u202e hidden\ny = 2\n", "x = 1\ny = 2\nz = '\u2066 iso \u2069'\n", "import pickle\nx = 1\n", "# \u2067 first line\nimport pickle\n"]
        for nl in ("\n", "\r\n"):
            for k, body in enumerate(vers + vers[:2]):
                raw = body.replace("\n", nl).encode("utf-8")
                with open(vpath, "wb") as fh:
                    fh.write(raw)
                rf = C.run_cli(["-f", "json", "-q", vpath], clear_linecache=False)      # whatever the process cached for this path stays cached
                rs = C.run_cli(["-f", "json", "-q", "-"], stdin_bytes=raw, clear_linecache=False)
                res.case(("versions-of-one-path", nl, k), True)
                res.count("versions-of-one-path")
                try:
                    ff = [x[:6] for x in findings_of_json(rf["out"])[0]]
                    fs_ = [x[:6] for x in findings_of_json(rs["out"])[0]]
                except Exception:
                    res.violation("no JSON report for a rewritten file", {"version": body, "exit": [rf["exit"], rs["exit"]], "exc": [rf["exc"], rs["exc"]]})
                    continue
                if ff != fs_:
                    res.violation("findings differ between file and stdin for a path that held another text earlier in the same process",
                                  {"history": [v.replace("\n", nl) for v in (vers + vers[:2])[:k + 1]], "file": [list(x) for x in ff], "stdin": [list(x) for x in fs_]})
    finally:
        scratch.close()
        if d is not None:
            d.close()
